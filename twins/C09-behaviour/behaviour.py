"""
Behaviour digest for property C09 (periods as calendar-consistent integers,
spans as their ranges).

Run as

    cd /tmp/wt/C09 && PYTHONPATH=/tmp/wt/C09/src /venv/bin/python /tmp/twin_out/C09/behaviour.py

Prints, for each observation (reprs of periods, spans, integers, exception
types and messages), its tag and a short hash of its full content, followed by
a SHA-256 digest of all observations. With `--full` the observations are
printed verbatim instead (about 10 MB). The output must be byte-identical on
the untouched worktree and with each behaviour-preserving change applied.
"""

from __future__ import annotations

import copy
import datetime as dt
import hashlib
import random
import re
import sys

import irispie
from irispie import dates as D
from irispie.dates import (
    Frequency, Period, Span, EmptySpan, ResolutionContext,
    yy, hh, qq, mm, dd, ii, start, end,
)


LINES: list[str] = []
_ADDRESS = re.compile(r" at 0x[0-9a-fA-F]+")


def out(tag: str, *values) -> None:
    LINES.append(tag + " | " + " | ".join(_show(v) for v in values))


def _show(v) -> str:
    if isinstance(v, (tuple, list)):
        return type(v).__name__ + "[" + ", ".join(_show(i) for i in v) + "]"
    if isinstance(v, dict):
        return "{" + ", ".join(f"{_show(k)}: {_show(x)}" for k, x in v.items()) + "}"
    try:
        return _ADDRESS.sub(" at 0x?", f"{type(v).__name__}:{v!r}")
    except BaseException as exc:  # noqa
        return f"{type(v).__name__}:REPR RAISED {type(exc).__name__}: {exc}"


def attempt(func, *args, **kwargs):
    """Return the result or a description of the exception raised"""
    try:
        return func(*args, **kwargs)
    except BaseException as exc:  # noqa
        return f"RAISED {type(exc).__name__}: {exc}"


def R(x) -> str:
    """Safe repr (daily periods outside the supported calendar cannot be printed)"""
    return attempt(repr, x)


# ---------------------------------------------------------------------------
# Period grids
# ---------------------------------------------------------------------------

YEARS = (-3, 0, 1, 99, 1600, 1899, 1900, 1969, 1970, 1999, 2000, 2019, 2020, 2021, 2024, 2100, 9998)
POS_YEARS = tuple(y for y in YEARS if y >= 1)

PERIODS = {
    "Y": [yy(y) for y in YEARS],
    "H": [hh(y, s) for y in YEARS for s in (1, 2)],
    "Q": [qq(y, s) for y in YEARS for s in (1, 2, 3, 4)],
    "M": [mm(y, s) for y in YEARS for s in (1, 2, 3, 6, 7, 11, 12)],
    "D": (
        [dd(y, m, d) for y in POS_YEARS for (m, d) in ((1, 1), (2, 28), (3, 1), (6, 30), (12, 31))]
        + [dd(y, 2, 29) for y in (1600, 2000, 2020, 2024)]
        + [dd(y, None, n) for y in (1900, 2000, 2023, 2024) for n in (1, 59, 60, 61, 365)]
        + [dd(2024, None, 366), dd(2000, None, 366)]
    ),
    "I": [ii(n) for n in (-1000, -13, -1, 0, 1, 2, 7, 365, 10**6)],
}

OFFSETS = (-10**4, -367, -366, -365, -53, -13, -12, -5, -4, -3, -2, -1, 0, 1, 2, 3, 4, 5, 11, 12, 13, 24, 365, 366, 10**4)


def describe_period(p) -> tuple:
    items = [
        type(p).__name__, R(p), str(p), format(p, ">14"), p.serial, type(p.serial).__name__,
        int(p.frequency), p.frequency.name, hash(p), p.__index__(), len(p), bool(p), p.needs_resolve,
        p.get_distance_from_origin(), p.to_sdmx_string(), p.to_compact_string(),
        list(p), p.start is p, p.end is p, p.start_date is p, p.end_date is p,
        p.plotly_xaxis_type,
    ]
    if p.frequency is not Frequency.INTEGER:
        items += [
            p.year, p.segment, p.period, p.to_year_segment(), p.get_year(),
            attempt(p.to_ymd), attempt(p.to_iso_string),
        ]
    return tuple(items)


for letter, periods in PERIODS.items():
    for p in periods:
        out(f"period {letter}", *describe_period(p))


# Calendar positions, python dates, daily conversions, refrequency
for letter in "YHQM":
    for p in PERIODS[letter]:
        for position in ("start", "middle", "end"):
            out(
                f"position {letter} {position}", R(p),
                attempt(p.to_ymd, position=position),
                attempt(p.to_iso_string, position=position),
                attempt(p.to_python_date, position=position),
                attempt(p.to_daily, position=position),
            )
        out(
            f"plotly {letter}", R(p),
            attempt(p.to_plotly_date), attempt(p.to_plotly_date, "instant"),
            attempt(p.to_plotly_edge_before), attempt(p.to_plotly_edge_before, "instant"),
            attempt(p.to_plotly_edge_after), attempt(p.to_plotly_edge_after, "instant"),
        )
        out(f"bad position {letter}", attempt(p.to_ymd, position="nowhere"))

for p in PERIODS["D"]:
    out(
        "daily", R(p), p.year, p.month, p.day, p.segment, p.to_ymd(position="end"),
        p.to_python_date(), p.to_python_date(position="end"), p.to_daily() is p,
        attempt(p.create_som), attempt(p.create_eopm), attempt(p.create_soy), attempt(p.create_eoy), attempt(p.create_eopy),
        attempt(p.create_tty), attempt(p.to_plotly_date), attempt(p.to_plotly_edge_before, "instant"),
        attempt(p.to_plotly_edge_after),
    )

for p in PERIODS["I"]:
    out("integer", R(p), p.to_plotly_date(), p.to_plotly_edge_before(), p.to_plotly_edge_after())

FREQS = (Frequency.YEARLY, Frequency.HALFYEARLY, Frequency.QUARTERLY, Frequency.MONTHLY, Frequency.DAILY)
for letter in "YHQMD":
    for p in PERIODS[letter]:
        if p.year < 1:
            continue
        for new_freq in FREQS:
            for position in ("start", "middle", "end"):
                kwargs = {"position": position}
                out(
                    f"refrequent {letter}->{new_freq.letter} {position}", R(p),
                    attempt(p.refrequent, new_freq, **kwargs),
                    attempt(D.refrequent, p, new_freq, **kwargs),
                )


# ---------------------------------------------------------------------------
# Integer-like arithmetic, order, equality, hashing
# ---------------------------------------------------------------------------

for letter, periods in PERIODS.items():
    for p in periods:
        row = []
        for n in OFFSETS:
            q = attempt(lambda: p + n)
            if isinstance(q, str):
                row.append((n, q))
                continue
            r = attempt(lambda: n + p)
            s = attempt(lambda: p - (-n))
            row.append((
                n, R(q), R(r), R(s), q - p, p - q, (p + n) - p == n, p + (q - p) == q,
                q == r, q == s, hash(q) == hash(r), type(q) is type(p), type(q.serial).__name__,
                p < q, p <= q, p > q, p >= q, p == q, p != q,
                (p < q) == (p.serial < q.serial), (p == q) == (hash(p) == hash(q)) or (p != q),
                attempt(p.shift, n) == q, attempt(lambda: p.shift() == p - 1),
            ))
        out(f"arith {letter}", R(p), *row)

    # total order and set/dict behaviour
    shuffled = list(periods)
    random.Random(9).shuffle(shuffled)
    ordered = sorted(shuffled)
    out(f"sorted {letter}", [R(p) for p in ordered], [p.serial for p in ordered])
    out(f"minmax {letter}", min(shuffled), max(shuffled), len(set(shuffled)), len(set(shuffled + [p + 0 for p in shuffled])))
    lookup = {p: i for i, p in enumerate(ordered)}
    out(f"dict {letter}", [lookup[p + 0] for p in ordered] == list(range(len(ordered))))

# Non-integer offsets are truncated through int()
for p in (yy(2020), qq(2020, 3), mm(2020, 12), dd(2020, 2, 29), ii(5)):
    out("float offsets", R(p), attempt(lambda: p + 2.0), attempt(lambda: p + 2.9), attempt(lambda: p - 2.9), attempt(lambda: p + True), attempt(lambda: p + "1"), attempt(lambda: p + None))

# Tiling of the calendar: consecutive periods neither overlap nor leave gaps
for letter in "YHQM":
    for p in PERIODS[letter]:
        if p.year < 1 or p.year > 9000:
            continue
        this_end = p.to_python_date(position="end")
        next_start = (p + 1).to_python_date(position="start")
        this_start = p.to_python_date(position="start")
        prev_end = (p - 1).to_python_date(position="end") if p.year > 1 else None
        out(
            f"tiling {letter}", R(p), (next_start - this_end).days,
            (this_start - prev_end).days if prev_end else None,
            this_start <= p.to_python_date(position="middle") <= this_end,
            p.to_daily(position="end") - p.to_daily(position="start") + 1,
            (p + 1).to_daily() - p.to_daily(position="end"),
            p.to_daily(position="start").refrequent(p.frequency) == p,
            p.to_daily(position="end").refrequent(p.frequency) == p,
            (p.to_daily(position="end") + 1).refrequent(p.frequency) == p + 1,
        )

# Year / segment round trips and constructors
CLASSES = {
    "Y": D.YearlyPeriod, "H": D.HalfyearlyPeriod, "Q": D.QuarterlyPeriod,
    "M": D.MonthlyPeriod, "D": D.DailyPeriod, "I": D.IntegerPeriod,
}
for letter in "YHQMD":
    klass = CLASSES[letter]
    for p in PERIODS[letter]:
        year, segment = p.to_year_segment()
        out(
            f"roundtrip {letter}", R(p),
            klass.from_year_segment(year, segment) == p,
            klass.from_year_period(year, segment) == p,
            Period.from_year_segment(p.frequency, year, segment) == p,
            attempt(lambda: klass.from_ymd(*p.to_ymd()) == p),
            attempt(lambda: Period.from_ymd(p.frequency, *p.to_ymd()) == p),
            attempt(lambda: Period.from_sdmx_string(p.to_sdmx_string()) == p) if year >= 1000 else None,
            attempt(lambda: Period.from_sdmx_string(p.to_sdmx_string(), p.frequency) == p) if year >= 1000 else None,
            attempt(lambda: klass.from_iso_string(p.to_iso_string()) == p) if year >= 1000 else None,
            attempt(lambda: Period.from_iso_string(p.to_iso_string(), p.frequency) == p) if year >= 1000 else None,
            attempt(lambda: Period.from_python_date(p.to_python_date(), p.frequency) == p),
            attempt(lambda: D.Dater.from_sdmx_string(p.frequency, p.to_sdmx_string()) == p) if year >= 1000 else None,
        )

for klass_letter in "YHQM":
    klass = CLASSES[klass_letter]
    out(
        f"from_year_segment {klass_letter}",
        klass.from_year_segment(2020), klass.from_year_segment(2020, "end"),
        klass.from_year_segment(2020, 0), klass.from_year_segment(2020, klass.frequency.value + 1),
        klass.from_year_segment(2020, -1), klass.from_year_segment("2020", "1"),
        klass.from_year_segment(2020.0, 1.0), attempt(klass.from_year_segment, 2020, "x"),
        attempt(klass.from_year_segment, None, 1),
        [klass.from_ymd(2021, m) for m in range(1, 13)],
        [klass.from_ymd(2021, m, 31 if m in (1, 3, 5, 7, 8, 10, 12) else 28) for m in range(1, 13)],
        [klass.month_to_segment(m) for m in range(1, 13)],
        klass.from_ymd(2021), klass.origin, klass(klass.origin),
        klass(7.9), klass("8"), klass(), klass(True),
    )
out("origins", D.DailyPeriod.origin, D.DailyPeriod(D.DailyPeriod.origin), D.IntegerPeriod.origin, D.BASE_YEAR)
out("hh.get_month", [(R(p), p.get_month(), p.get_month(position="middle"), p.get_month(position="end")) for p in (hh(2020, 1), hh(2020, 2), hh(-1, 2))])
out("daily ctor", dd(2020, 1, 1), dd(2020, None, 1), dd(2020, None, 366), dd(2021, None, 366), dd(2021, None, 0), dd(2021, None, -1), attempt(dd, 2021, 2, 29), attempt(dd, 2021, 13, 1), attempt(dd, 0, 1, 1), D.DailyPeriod.from_ymd(2020), D.DailyPeriod.from_year_segment(2020), D.daily_serial_from_ymd(2020, 1, 1))
out("integer ctor", ii(3), ii(-3), ii(3.7), ii("4"), D.IntegerPeriod.from_year_segment(2020, 5), D.IntegerPeriod.from_year_segment(None), D.IntegerPeriod.from_sdmx_string(" (-12) "), D.IntegerPeriod.from_sdmx_string("(+12)"))
out("ellipsis ctor", yy(2020, ...), yy(..., 2020), yy(2020, ..., 2025), qq(2020, 1, ..., 2021, 4), qq(..., 2021, 4), qq(2020, 2, ...), mm(2020, 1, ..., 2020, 12), hh(2020, 1, ...), ii(1, ..., 10), ii(..., 10), ii(...), attempt(qq, 2020, 1, ..., 2021, 4, ..., 2022, 1))
out("period attrs", Period.yy is yy, Period.qq is qq, Period.dd is dd, yy.__name__, qq.__name__, ii.__name__, hh.__name__, mm.__name__)

# SDMX parsing, frequency detection
SDMX = ("2020", " 2020 ", "2020-H1", "2020-H2", "2020-Q3", "2020-07", "2020-12", "2020-02-29", "2021-02-28", "(5)", "(-5)", "(+5)", "2020-W05", "2020-Q", "x", "", "20-01")
for s in SDMX:
    out("sdmx", s, attempt(Frequency.from_sdmx_string, s), attempt(Period.from_sdmx_string, s))
out("sdmx many", attempt(D.periods_from_sdmx_strings, ("2020-Q1", "2020-Q4", "2021-Q2")), attempt(D.periods_from_sdmx_strings, ()), attempt(D.periods_from_sdmx_strings, ("2020-01", "2020-03"), Frequency.MONTHLY), attempt(D.daters_from_sdmx_strings, Frequency.YEARLY, ("2020", "2021")), attempt(D.periods_from_sdmx_strings, iter(("(1)", "(2)"))))
out("iso many", attempt(D.periods_from_iso_strings, ("2020-02-29", "2021-12-31")), attempt(D.periods_from_iso_strings, ("2020-02-29", "2021-12-31"), frequency=Frequency.QUARTERLY), attempt(D.daters_from_iso_strings, Frequency.MONTHLY, ("2020-02-29",)), attempt(D.periods_from_iso_strings, ("2020-02-29", "2021-12-31"), frequency=Frequency.YEARLY), attempt(D.periods_from_iso_strings, ("2020-02-29T00:00",), frequency=Frequency.HALFYEARLY))
out("python dates", attempt(D.periods_from_python_dates, (dt.date(2020, 2, 29), dt.datetime(2021, 12, 31, 5))), attempt(D.periods_from_python_dates, (dt.date(2020, 2, 29), dt.date(2021, 12, 31)), frequency=Frequency.HALFYEARLY))
out("frequency", [(f.name, int(f), f.letter, f.is_regular, str(f)) for f in Frequency], [attempt(Frequency.from_letter, x) for x in ("y", "Q", "m", "_d", "half", "i", "w", "a", "u", "z")])


# ---------------------------------------------------------------------------
# Shift keywords
# ---------------------------------------------------------------------------

KEYWORDS = ("yoy", "soy", "boy", "eopy", "tty", -1, 0, 3)
for letter in "YHQMD":
    for p in PERIODS[letter]:
        if letter == "D" and p.year <= 1:
            out(f"shift {letter}", R(p), *[(k, attempt(p.shift, k)) for k in KEYWORDS])
            continue
        row = [(k, attempt(p.shift, k)) for k in KEYWORDS]
        row.append(("default", attempt(p.shift)))
        row.append(("soy.segment", attempt(lambda: p.shift("soy").segment)))
        row.append(("eopy+1==soy", attempt(lambda: p.shift("eopy") + 1 == p.shift("soy"))))
        row.append(("eoy", attempt(p.create_eoy)))
        row.append(("soy", attempt(p.create_soy)))
        if letter != "D":
            row.append(("boy", attempt(p.create_boy)))
        out(f"shift {letter}", R(p), *row)
for p in PERIODS["I"]:
    out("shift I", R(p), *[(k, attempt(p.shift, k)) for k in KEYWORDS])


# ---------------------------------------------------------------------------
# Mixed frequencies are rejected
# ---------------------------------------------------------------------------

REPS = (yy(2020), hh(2020, 1), qq(2020, 1), mm(2020, 1), dd(2020, 1, 1), ii(2020), start, end, None, 2020, "2020")
OPS = {
    "==": lambda a, b: a == b, "!=": lambda a, b: a != b, "<": lambda a, b: a < b,
    "<=": lambda a, b: a <= b, ">": lambda a, b: a > b, ">=": lambda a, b: a >= b,
    "-": lambda a, b: a - b, "+": lambda a, b: a + b, ">>": lambda a, b: a >> b, "<<": lambda a, b: a << b,
    "Span": lambda a, b: Span(a, b), "Span-1": lambda a, b: Span(a, b, -1),
    "until": lambda a, b: D.periods_from_until(a, b),
}
for a in REPS[:8]:
    for b in REPS:
        out("mixed", R(a), R(b), *[(name, attempt(op, a, b)) for name, op in OPS.items()])
out("mixed in", attempt(lambda: qq(2020, 1) in [mm(2020, 1)]), attempt(lambda: qq(2020, 1) in [qq(2020, 2), qq(2020, 1)]), attempt(lambda: qq(2020, 1) in (qq(2020, 1) >> qq(2020, 4))), attempt(lambda: mm(2020, 1) in (qq(2020, 1) >> qq(2020, 4))))
out("mixed sort", attempt(sorted, [qq(2020, 1), mm(2020, 1)]), attempt(min, [yy(2020), ii(2020)]))
out("dater", D.Dater(5), attempt(lambda: D.Dater(5) == ii(5)), D.Ranger(ii(1), ii(3)), D.EmptyRanger is EmptySpan, D.daters_from_to is D.periods_from_until, D.periods_from_to is D.periods_from_until)


# ---------------------------------------------------------------------------
# Spans
# ---------------------------------------------------------------------------

def describe_span(s) -> tuple:
    if isinstance(s, str):
        return (s, )
    items = [
        R(s), str(s), type(s).__name__, R(s.start), R(s.end), R(s.start_date), R(s.end_date),
        s.step, s.direction, s.needs_resolve, bool(s), attempt(len, s) if not s.needs_resolve else s.__len__(),
        R(s._class), s._serials,
    ]
    if s.needs_resolve:
        items += [s.__iter__(), s.__getitem__(0), attempt(lambda: s.frequency), attempt(lambda: s - ii(0)), attempt(lambda: ii(0) - s)]
        return tuple(items)
    members = attempt(list, s)
    items += [members, type(iter(s)).__name__, s.frequency.name]
    if isinstance(members, list):
        n = len(members)
        items += [
            n == len(s),
            [attempt(s.__getitem__, i) for i in (0, 1, 2, -1, -2, n - 1, n, -n, -n - 1)],
            [attempt(s.__getitem__, sl) for sl in (slice(None), slice(1, None), slice(None, -1), slice(None, None, 2), slice(None, None, -1), slice(1, 4), slice(-3, None), slice(5, 2))],
            attempt(s.__getitem__, 1.0), attempt(s.__getitem__, "a"), attempt(s.__getitem__, True),
            all(members[i] == s[i] for i in range(n)),
            all(members[i] == s.start + i * s.step for i in range(n)),
            attempt(s.to_sdmx_strings), attempt(s.to_compact_strings),
            attempt(lambda: s - s.start), attempt(lambda: s.start - s), attempt(lambda: s - s.end), attempt(lambda: s.end - s),
            attempt(lambda: list(s - s.start)), attempt(lambda: list(s.end - s)),
            attempt(s.__rsub__, s.start), attempt(s.__rsub__, s.end), attempt(s.__rsub__, 3), attempt(s.__rsub__, None),
            attempt(lambda: list(s.__rsub__(s.end + 2))), attempt(lambda: [s.end + 2 - t for t in members]),
            attempt(lambda: list(s - (s.start - 2))), attempt(lambda: [t - (s.start - 2) for t in members]),
            attempt(lambda: tuple(D.period_indexes(s, s.start))),
            attempt(lambda: D.periods_from_until(s.start, s.end, s.step) == tuple(members)),
            attempt(lambda: list(reversed(members)) == list(s.reversed())) if n and (s.end - s.start) % s.step == 0 else attempt(lambda: list(s.reversed())),
            R(s.reversed()), R(s), R(s.copy()), s.copy() == s, s.copy() is s, copy.deepcopy(s) == s,
            R(s + 3), R(3 + s), R(s - 3), R(s + 0), (s + 3) - 3 == s, list(s + 2) == [t + 2 for t in members],
            s - 2 == s + (-2), attempt(lambda: s == s + 1), attempt(lambda: s != s),
        ]
        if s.frequency is not Frequency.INTEGER and all(1 <= t.year <= 9000 for t in members):
            items += [attempt(s.to_iso_strings), attempt(s.to_iso_strings, position="end"), attempt(s.to_python_dates, position="middle"), attempt(s.to_plotly_dates), attempt(s.to_plotly_dates, "instant")]
        if s.frequency is Frequency.INTEGER:
            items += [attempt(s.to_plotly_dates)]
    return tuple(items)


ENDPOINTS = {
    "Y": (yy(2018), yy(2020), yy(2025)),
    "H": (hh(2019, 2), hh(2020, 1), hh(2022, 2)),
    "Q": (qq(2019, 4), qq(2020, 1), qq(2021, 3)),
    "M": (mm(2019, 11), mm(2020, 2), mm(2021, 1)),
    "D": (dd(2019, 12, 25), dd(2020, 2, 27), dd(2020, 3, 5)),
    "I": (ii(-4), ii(0), ii(9)),
}
STEPS = (1, -1, 2, -2, 3, -3, 5, -7, 100, -100)

for letter, points in ENDPOINTS.items():
    for a in points:
        for b in points:
            for step in STEPS:
                out(f"span {letter}", R(a), R(b), step, *describe_span(attempt(Span, a, b, step)))
            out(f"span {letter} default", R(a), R(b), *describe_span(attempt(Span, a, b)))
    a, b = points[0], points[2]
    out(f"span ops {letter}",
        R(a >> b), R(b << a), R(a << b), R(b >> a), list(b << a), list(a << b),
        R((a >> b) >> 2), list((a >> b) >> 2), R((b >> a) << -2), list((b >> a) << -2),
        attempt(lambda: (a >> b) >> -1), attempt(lambda: (a >> b) << 1), attempt(lambda: (a >> b) >> 0), attempt(lambda: (a >> b) << 0),
        attempt(lambda: list((a >> b) >> 0)), attempt(lambda: len((a >> b) << 0)),
        R(a >> None), R(None >> a), R(a << None), R(None << a),
        [attempt(lambda: a ** n) for n in (3, 2, 1, 0, -1, -2, -3)],
        [attempt(lambda: list(a ** n)) for n in (3, 2, 1, 0, -1, -2, -3)],
        attempt(lambda: a ** 2.0), attempt(lambda: a ** None), attempt(lambda: a ** float("nan")),
        (a >> b) == Span(a, b), (a >> b) == Span(a, b, 1), attempt(lambda: (a >> b) == Span(a, b, 2)), attempt(lambda: (a >> b) == (a >> b + 1)),
        attempt(lambda: (a >> b) == (a >> None)), attempt(lambda: (a >> b) == None), attempt(lambda: (a >> b) != (a >> b)),
        attempt(lambda: Span(a, b, 0)), attempt(lambda: list(Span(a, b, 0))), attempt(lambda: len(Span(a, b, 0))), attempt(lambda: Span(a, b, 0).direction),
        attempt(lambda: Span(a, b, 1.0)), attempt(lambda: list(Span(a, b, 2.0))), attempt(lambda: Span(a, b, None)), attempt(lambda: Span(a, b, "1")),
        attempt(lambda: Span(a)), attempt(lambda: Span(None, b)), attempt(lambda: Span()), attempt(lambda: Span(step=-1)),
        attempt(lambda: Span(a, a)), attempt(lambda: list(Span(a, a, -1))), attempt(lambda: len(Span(a, a, -5))),
    )
    with (a >> b) as spn:
        out(f"span context manager {letter}", R(spn), len(spn))

# Spans of periods_from_until and friends
for letter, points in ENDPOINTS.items():
    a, _, b = points
    for step in STEPS + (0, ):
        out(f"until {letter}", step, attempt(D.periods_from_until, a, b, step), attempt(D.periods_from_until, b, a, step))
    out(f"until {letter} default", attempt(D.periods_from_until, a, b), attempt(D.periods_from_until, a, a), attempt(D.periods_from_until, b, a))
    short = tuple(a >> b)
    out(f"short/long {letter}", attempt(D.spans_from_short_span, short, -2, 3), attempt(D.spans_from_long_span, short, -2, 1), attempt(D.spans_from_short_span, iter(short)), attempt(D.spans_from_short_span, (b, a), -1, 1))
    out(f"extend {letter}", attempt(D.extend_span, a >> b, -2, 3, True, True), attempt(D.extend_span, a >> b, -2, 3, False, True), attempt(D.extend_span, a >> b, -2, 3, True, False), attempt(D.extend_span, b << a, -2, 3, True, True), attempt(D.extend_span, a >> a - 1, -2, 3, True, True))
    out(f"printable {letter}", D.get_printable_span(a, b), D.get_printable_span(None, b), D.get_printable_span(a, None), D.get_printable_span(None, None))
    out(f"period_indexes {letter}", tuple(D.period_indexes((a, None, b, a + 1), a)), attempt(lambda: tuple(D.period_indexes((a, ), ii(0) if letter != "I" else yy(0)))))

# Open-ended spans resolved against contexts
class _Ctx:
    def __init__(self, s, e):
        self.start_date = s
        self.end_date = e

for letter, points in ENDPOINTS.items():
    a, m, b = points
    contexts = {
        "ResolutionContext": ResolutionContext(a, b),
        "custom": _Ctx(a + 1, b - 1),
        "span": a >> b,
        "backward span": b << a,
        "period": m,
        "reversed": ResolutionContext(b, a),
        "half": ResolutionContext(a, None),
        "empty": ResolutionContext(),
    }
    OPEN = {
        "start>>end": lambda: start >> end,
        "Span()": lambda: Span(),
        "Span(-1)": lambda: Span(step=-1),
        "Span(-2)": lambda: Span(None, None, -2),
        "Span(3)": lambda: Span(None, None, 3),
        "m>>None": lambda: m >> None,
        "None>>m": lambda: None >> m,
        "m<<None": lambda: m << None,
        "None<<m": lambda: None << m,
        "start+1>>end-1": lambda: (start + 1) >> (end - 1),
        "start-2>>m": lambda: (start - 2) >> m,
        "end<<start": lambda: end << start,
        "end>>start": lambda: end >> start,
        "shifted": lambda: (start >> end) + 2,
        "shifted back": lambda: (start >> end) - 1,
        "Span(start,end,2)": lambda: Span(start, end, 2),
        "Span(m, end+3, 2)": lambda: Span(m, end + 3, 2),
        "closed": lambda: a >> b,
        "ellipsis": lambda: Span(a, None, 4),
    }
    for oname, make in OPEN.items():
        opened = attempt(make)
        out(f"open {letter} {oname}", *describe_span(opened))
        if isinstance(opened, str):
            continue
        for cname, ctx in contexts.items():
            resolved = attempt(opened.resolve, ctx)
            out(f"resolve {letter} {oname} @ {cname}", *describe_span(resolved))
            if not isinstance(resolved, str):
                out(f"resolve {letter} {oname} @ {cname} untouched", R(opened), opened.needs_resolve, attempt(lambda: resolved.resolve(ctx) == resolved))
    # in-place operations on unresolved spans, then resolution
    s = start >> end
    s.shift(2); s.shift_start(-1); s.shift_end(3); s.reverse()
    out(f"open mutated {letter}", R(s), s.needs_resolve, *describe_span(attempt(s.resolve, contexts["ResolutionContext"])))
    out(f"contextual {letter}", R(start), R(end), R(start + 2), R(end - 3), attempt(lambda: R(2 + start)), bool(start), start.needs_resolve, attempt(start.resolve, contexts["ResolutionContext"]), attempt((end - 3).resolve, contexts["span"]), attempt((start + 1).resolve, m), attempt(m.resolve, None) is m, attempt(start.resolve, contexts["empty"]), attempt(lambda: start.serial), attempt(lambda: start == end), attempt(lambda: start == start), attempt(lambda: start < a), attempt(hash, start))

# Resolution-context protocols
out("protocols", isinstance(ResolutionContext(), D.ResolutionContextProtocol), isinstance(ii(1) >> ii(2), D.ResolutionContextProtocol), isinstance(ii(1), D.ResolutionContextProtocol), isinstance(ii(1) >> ii(2), D.ResolvableProtocol), isinstance(ii(1), D.ResolvableProtocol), isinstance(start, D.ResolvableProtocol))

# Sequences of in-place span mutations (deterministic pseudo-random walks)
rng = random.Random(20240909)
for letter, points in ENDPOINTS.items():
    for trial in range(12):
        a = points[rng.randrange(3)] + rng.randrange(-5, 6)
        b = a + rng.randrange(-12, 13)
        step = rng.choice((1, 1, -1, -1, 2, -2, 3, -3, 4))
        s = Span(a, b, step)
        history = [R(s)]
        for _ in range(14):
            action = rng.choice(("reverse", "shift", "shift_start", "shift_end", "reversed", "copy", "add", "sub"))
            k = rng.randrange(-6, 7)
            if action == "reverse":
                result = s.reverse()
            elif action == "shift":
                result = s.shift(k)
            elif action == "shift_start":
                result = s.shift_start(k)
            elif action == "shift_end":
                result = s.shift_end(k)
            elif action == "reversed":
                other = s.reversed()
                result = (R(other), R(s))
                s = other
            elif action == "copy":
                other = s.copy()
                other.shift(1)
                result = (R(other), R(s), other is s)
            elif action == "add":
                s = s + k
                result = None
            else:
                s = s - k
                result = None
            members = list(s)
            history.append((
                action, k, result, R(s), len(s), len(members), members[:3], members[-2:],
                s._serials, R(s.start), R(s.end), s.step, s.direction,
                [attempt(s.__getitem__, i) for i in (0, -1, 3)],
                all(s[i] == t for i, t in enumerate(members)),
                attempt(lambda: list(s - s.start)[:4]), attempt(lambda: list(s.start - s)[:4]), attempt(lambda: s.__rsub__(s.start)), attempt(lambda: s.__rsub__(3)),
            ))
        out(f"mutations {letter} {trial}", *history)

# EmptySpan
e = EmptySpan()
out("EmptySpan", e is EmptySpan(), list(e), len(e), e.shift(3), e.start_date, e.end_date, e.step, e.needs_resolve, type(qq(2020, 1) ** 0).__name__, (qq(2020, 1) ** 0) is e, bool(e))

# Encompassing spans
out(
    "encompassing",
    attempt(D.get_encompassing_span, qq(2020, 1) >> qq(2020, 4), qq(2019, 3) >> qq(2020, 2)),
    attempt(D.get_encompassing_span, qq(2020, 1) >> qq(2020, 4), None, (qq(2025, 1), None, qq(2018, 1))),
    attempt(D.get_encompassing_span, qq(2020, 4) << qq(2020, 1)),
    attempt(D.get_encompassing_span, ),
    attempt(D.get_encompassing_span, None),
    attempt(D.get_encompassing_span, ()),
    attempt(D.get_encompassing_span, qq(2020, 1), qq(2021, 1)),
    attempt(D.get_encompassing_span, qq(2020, 1) >> qq(2020, 4), mm(2020, 1) >> mm(2020, 4)),
    attempt(D.get_encompassing_span, ResolutionContext(ii(3), ii(5)), (ii(9), ii(1))),
    attempt(Span.encompassing, ii(3) >> ii(5), ii(4) >> ii(11)),
    attempt(Span.encompassing, ii(5) << ii(3), ii(1) >> ii(2)),
)

# Period tuples from strings (positional-argument quirks included)
out(
    "ensure_period_tuple",
    attempt(D.ensure_period_tuple, (qq(2020, 1), qq(2020, 2))),
    attempt(D.ensure_period_tuple, qq(2020, 1) >> qq(2020, 3)),
    attempt(D.ensure_period_tuple, "2020-Q1...2020-Q4", Frequency.QUARTERLY),
    attempt(D.ensure_period_tuple, "2020-Q1>>2020-Q4", Frequency.QUARTERLY),
    attempt(D.ensure_period_tuple, "2020-Q1,2020-Q4", Frequency.QUARTERLY),
    attempt(D.ensure_period_tuple, "2020-Q1", Frequency.QUARTERLY),
    attempt(D.ensure_period_tuple, "2020-Q1"),
)

out("resolve_period_or_integer", D.resolve_period_or_integer(3), D.resolve_period_or_integer(3.9), D.resolve_period_or_integer(qq(2020, 1)), D.resolve_period_or_integer(None), D.resolve_period_or_integer(True))
out("today", type(Period.today(Frequency.QUARTERLY)).__name__, Period.today(Frequency.DAILY).to_python_date() == dt.date.today())
out("public names", sorted(D.__all__), [n for n in ("yy", "hh", "qq", "mm", "dd", "ii", "Span", "Period", "start", "end") if getattr(irispie, n, None) is getattr(D, n)])

# Exhaustive small-range consistency sweeps (summarised as digests to keep output short)
def sweep(make, count) -> str:
    h = hashlib.sha256()
    base = make()
    for n in range(-count, count + 1):
        p = base + n
        h.update(R((
            n, R(p), str(p), p.serial, hash(p), p - base, base - p, p > base, p == base,
            p.to_compact_string(),
            None if p.frequency is Frequency.INTEGER else (p.to_year_segment(), p.to_ymd(), p.to_ymd(position="end") if p.frequency.is_regular else None),
            None if p.frequency is Frequency.INTEGER else tuple(R(p.shift(k)) for k in ("yoy", "soy", "eopy", "tty")),
        )).encode())
    return h.hexdigest()

out("sweep Y", sweep(lambda: yy(2020), 2019))
out("sweep H", sweep(lambda: hh(2020, 1), 4030))
out("sweep Q", sweep(lambda: qq(2020, 1), 8070))
out("sweep M", sweep(lambda: mm(2020, 1), 24200))
out("sweep D", sweep(lambda: dd(2020, 1, 1), 150000))
out("sweep I", sweep(lambda: ii(0), 3000))

def span_sweep(a) -> str:
    h = hashlib.sha256()
    for length in range(-9, 10):
        for step in (-4, -3, -2, -1, 1, 2, 3, 4):
            s = Span(a, a + length, step)
            members = list(s)
            r = s.reversed()
            h.update(R((
                length, step, R(s), len(s), [R(t) for t in members], [R(s[i]) for i in range(len(s))],
                R(r), [R(t) for t in r], s - a, s.__rsub__(a), s._serials, R(s[::2]), R(s[::-1]),
                R(s[1:-1]), R(D.periods_from_until(a, a + length, step)),
            )).encode())
    return h.hexdigest()

for letter, points in ENDPOINTS.items():
    out(f"span sweep {letter}", span_sweep(points[1]))


text = "\n".join(LINES) + "\n"
if "--full" in sys.argv[1:]:
    # Every observation verbatim (about 10 MB)
    sys.stdout.write(text)
else:
    # One line per observation: its tag and a short hash of its full content
    for line in LINES:
        tag = line.split(" | ", 1)[0]
        sys.stdout.write(tag + " | " + hashlib.sha256(line.encode()).hexdigest()[:16] + "\n")
sys.stdout.write("LINES " + str(len(LINES)) + "\n")
sys.stdout.write("SHA256 " + hashlib.sha256(text.encode()).hexdigest() + "\n")

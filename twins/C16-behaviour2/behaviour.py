"""
Behaviour digest for property C16 (block decomposition of incidence matrices,
sequential ordering of Sequential models).

Run with

    cd /tmp/wt2/C16 && PYTHONPATH=/tmp/wt2/C16/src /venv/bin/python /tmp/twin2_out/C16/behaviour.py

The output is deterministic; it must be identical on the untouched worktree
and with any of the behaviour-preserving changes applied.
"""

import os
import sys

# The order of RHS-only names in irispie depends on string hashing (sets), so
# pin the hash seed to make the digest reproducible across processes
if os.environ.get("PYTHONHASHSEED") != "0":
    os.environ["PYTHONHASHSEED"] = "0"
    os.execv(sys.executable, [sys.executable] + sys.argv)

import warnings
warnings.simplefilter("ignore")

import contextlib
import hashlib
import io
import itertools
import types

import numpy as np

import irispie as ir
from irispie import equations as eq_mod
from irispie.incidences import blazer
from irispie.incidences.main import Token


def norm(x):
    """Canonical, type-revealing representation of a result"""
    if isinstance(x, np.ndarray):
        return ("ndarray", str(x.dtype), x.shape, x.astype(float).tolist())
    if isinstance(x, blazer.Block):
        return ("Block", norm(x.eids), norm(x.qids))
    if isinstance(x, blazer.HumanBlock):
        return ("HumanBlock", norm(x.equations), norm(x.quantities))
    if isinstance(x, tuple):
        return ("tuple", [norm(i) for i in x])
    if isinstance(x, list):
        return ("list", [norm(i) for i in x])
    if isinstance(x, dict):
        return ("dict", [(k, norm(v)) for k, v in x.items()])
    if isinstance(x, (np.bool_, )):
        return ("np.bool", bool(x))
    if isinstance(x, np.integer):
        return ("np.int", int(x))
    if isinstance(x, np.floating):
        return ("np.float", round(float(x), 10))
    if isinstance(x, float):
        return ("float", round(x, 10))
    return (type(x).__name__, repr(x))


def attempt(func, *args, **kwargs):
    try:
        return ("ok", norm(func(*args, **kwargs)))
    except Exception as exc:
        return ("raised", type(exc).__name__, str(exc)[:120])


class Digest:
    def __init__(self, label):
        self.label = label
        self.h = hashlib.sha256()
        self.count = 0
    def add(self, *items):
        self.h.update(repr(items).encode("utf-8"))
        self.count += 1
    def show(self):
        print(f"{self.label}: n={self.count} sha256={self.h.hexdigest()[:32]}")


def has_perfect_matching(im):
    """Kuhn's augmenting path algorithm on the bipartite graph rows x columns"""
    if im.shape[0] != im.shape[1]:
        return False
    n = im.shape[0]
    adjacency = [[int(c) for c in np.flatnonzero(im[r, :])] for r in range(n)]
    match_of_column = [None] * n
    def augment(r, visited):
        for c in adjacency[r]:
            if c in visited:
                continue
            visited.add(c)
            if match_of_column[c] is None or augment(match_of_column[c], visited):
                match_of_column[c] = r
                return True
        return False
    return all(augment(r, set()) for r in range(n))


def check_blocks(im, eids, qids, blocks):
    """Validity of the block decomposition as stated in the property"""
    eids = list(eids); qids = list(qids)
    seen_e = []; seen_q = []
    ok = True
    for b in blocks:
        if len(b.eids) != len(b.qids):
            ok = False
        rows = [eids.index(e) for e in b.eids]
        cols = [qids.index(q) for q in b.qids]
        sub = im[np.ix_(rows, cols)].astype(bool)
        if not has_perfect_matching(sub):
            ok = False
        seen_q += list(b.qids)
        seen_e += list(b.eids)
        allowed = set(seen_q)
        for r in rows:
            used = {qids[c] for c in np.flatnonzero(im[r, :])}
            if not used <= allowed:
                ok = False
    if sorted(seen_e) != sorted(eids) or sorted(seen_q) != sorted(qids):
        ok = False
    return ok


def all_matrices(n):
    for bits in itertools.product((False, True), repeat=n*n):
        yield np.array(bits, dtype=bool).reshape(n, n)


#
# 1. Exhaustive enumeration for n <= 4 (perfect matching), plain and labelled
#

def section_exhaustive():
    for n in (1, 2, 3, 4):
        d = Digest(f"exhaustive n={n}")
        num_valid = 0
        num_total = 0
        eid_labels = tuple(10 + 3*((i*2 + 1) % n) for i in range(n))
        qid_labels = tuple(100 - 7*i for i in range(n))
        for im in all_matrices(n):
            if not has_perfect_matching(im):
                continue
            num_total += 1
            blocks = blazer.blaze(im)
            num_valid += check_blocks(im, range(n), range(n), blocks)
            d.add(norm(blocks))
            d.add(attempt(blazer.blaze, im, eid_labels, qid_labels, return_info=True))
            d.add(attempt(blazer.prefetch, im))
            d.add(attempt(blazer.sequentialize_strictly, im))
            d.add(norm(blazer.is_sequential(im)), norm(blazer.is_sequential(im, 0)))
        d.show()
        print(f"  matrices with perfect matching: {num_total}, valid decompositions: {num_valid}")


#
# 2. All matrices (also structurally singular) for n <= 3, int dtype as well
#

def section_all_small():
    d = Digest("all matrices n<=3 (incl. singular)")
    for n in (1, 2, 3):
        for im in all_matrices(n):
            d.add(attempt(blazer.blaze, im, return_info=True))
            d.add(attempt(blazer.blaze, im.astype(int)))
            d.add(attempt(blazer.prefetch, im, eids=tuple("abc"[:n]), qids=tuple("xyz"[:n])))
            d.add(attempt(blazer.sequentialize_strictly, im))
            d.add(attempt(blazer.triangularize_inner_block, im))
    # Non-square and empty inputs
    for shape in ((0, 0), (2, 3), (3, 2), (1, 4), (4, 1)):
        for bits in itertools.product((False, True), repeat=shape[0]*shape[1]):
            im = np.array(bits, dtype=bool).reshape(shape)
            d.add(attempt(blazer.prefetch, im))
            d.add(attempt(blazer.blaze, im))
    d.show()


#
# 3. Sampled larger matrices: block structured, triangular, dense, permuted
#

def random_cases(rng):
    for n in (5, 6, 7, 8, 10, 12, 15, 20):
        for rep in range(12):
            kind = rep % 6
            if kind == 0:
                # lower triangular with unit diagonal
                im = np.tril(rng.random((n, n)) < 0.4)
                np.fill_diagonal(im, True)
            elif kind == 1:
                # dense
                im = rng.random((n, n)) < 0.8
                np.fill_diagonal(im, True)
            elif kind == 2:
                # block lower triangular with dense diagonal blocks
                im = np.tril(rng.random((n, n)) < 0.3)
                pos = 0
                while pos < n:
                    size = int(rng.integers(1, 4))
                    im[pos:pos+size, pos:pos+size] = True
                    pos += size
            elif kind == 3:
                # sparse with diagonal
                im = rng.random((n, n)) < 0.15
                np.fill_diagonal(im, True)
            elif kind == 4:
                # strictly recursive plus one loop
                im = np.tril(rng.random((n, n)) < 0.5)
                np.fill_diagonal(im, True)
                im[0, n-1] = True
            else:
                # identity-like
                im = np.eye(n, dtype=bool)
                im[rng.integers(0, n), rng.integers(0, n)] = True
            yield f"{n}/{rep}/plain", im
            rp = rng.permutation(n)
            cp = rng.permutation(n)
            yield f"{n}/{rep}/permuted", im[rp, :][:, cp]
            yield f"{n}/{rep}/sympermuted", im[rp, :][:, rp]


def section_sampled():
    rng = np.random.default_rng(20160916)
    d = Digest("sampled larger matrices")
    num_valid = 0
    num_cases = 0
    shown = 0
    for label, im in random_cases(rng):
        n = im.shape[0]
        eids = tuple(int(i) for i in rng.permutation(n) + 50)
        qids = tuple(int(i) for i in rng.permutation(3*n)[:n])
        blocks = blazer.blaze(im, eids, qids)
        num_cases += 1
        num_valid += check_blocks(im, eids, qids, blocks)
        d.add(label, norm(blocks))
        d.add(attempt(blazer.blaze, im, return_info=True))
        d.add(attempt(blazer.blaze, im.astype(int), iter(eids), iter(qids), return_info=True))
        d.add(attempt(blazer.prefetch, im, eids=eids, qids=qids))
        d.add(attempt(blazer.prefetch, im.astype(np.int64)))
        d.add(attempt(blazer.sequentialize_strictly, im))
        d.add(attempt(blazer.sequentialize_strictly, im, eids, eids))
        d.add(attempt(blazer.triangularize_inner_block, im, eids=eids, qids=qids, max_iterations=7))
        d.add(norm(blazer.is_sequential(im)), norm(blazer.is_sequential(im, 0)), norm(blazer.is_sequential(im, 2)))
        if shown < 4 and label.endswith("permuted") and n == 6:
            shown += 1
            print(f"  sample {label}: blocks=", [(b.eids, b.qids) for b in blocks])
    d.show()
    print(f"  cases: {num_cases}, valid decompositions: {num_valid}")


#
# 4. calculate_incidence_matrix called directly
#

def section_calculate_incidence_matrix():
    d = Digest("calculate_incidence_matrix direct")
    rng = np.random.default_rng(7)
    def make_equations(num_equations, num_qids, as_set):
        out = []
        for _ in range(num_equations):
            toks = [
                Token(int(rng.integers(0, num_qids)), int(rng.integers(-2, 3)))
                for _ in range(int(rng.integers(0, 6)))
            ]
            out.append(types.SimpleNamespace(incidence=set(toks) if as_set else toks))
        return out
    selectors = {
        "all": lambda tok: tok.qid,
        "zero_shift": lambda tok: tok.qid if tok.shift == 0 else None,
        "first_three": lambda tok: tok.qid if tok.qid < 3 and tok.shift == 0 else None,
        "none": lambda tok: None,
        "mapped": lambda tok: {0: 2, 2: 0, 4: 1}.get(tok.qid, None),
        "negative": lambda tok: -1 - tok.qid if tok.shift < 0 else None,
    }
    for num_equations in (0, 1, 3, 6):
        for as_set in (False, True):
            equations = make_equations(num_equations, 6, as_set)
            for name, selector in selectors.items():
                for data_type in (bool, int, float, np.int8):
                    d.add(name, attempt(eq_mod.calculate_incidence_matrix, equations, 6, selector, data_type=data_type))
                d.add(name, attempt(eq_mod.calculate_incidence_matrix, iter(equations), 6, selector))
                d.add(name, attempt(eq_mod.calculate_incidence_matrix, equations, 2, selector))
                d.add(name, attempt(eq_mod.calculate_incidence_matrix, equations, 0, selector))
    d.show()
    equations = [
        types.SimpleNamespace(incidence=[Token(0, 0), Token(1, -1), Token(2, 0)]),
        types.SimpleNamespace(incidence=[]),
        types.SimpleNamespace(incidence=[Token(1, 0), Token(1, 0), Token(5, 1)]),
    ]
    im = eq_mod.calculate_incidence_matrix(equations, 4, selectors["zero_shift"], data_type=int)
    print("  example:", im.dtype, im.tolist())


#
# 5. Sequential models
#

SEQUENTIAL_SOURCES = {
    "already_sequential": """
        !equations
            a = 0.8*a[-1];
            b = a + 1;
            c = a + b + c[-1];
    """,
    "needs_reordering": """
        !equations
            a = 0.8*a[-1] + b;
            y = b{-1} + s;
            b = 0.5*c + c[-2] + d[+2];
            s = c + 1;
            c = u[-1];
    """,
    "reverse_chain": """
        !equations
            x5 = x4 + 1;
            x4 = x3 * 2;
            x3 = x2 - x1;
            x2 = x1[-1] + x1;
            x1 = 0.5*x1[-1] + e;
    """,
    "two_cycle": """
        !equations
            a = b;
            b = a;
    """,
    "cycle_with_tail": """
        !equations
            z = a + b;
            a = b + w;
            b = a[-1] + c;
            c = a;
            w = 1;
    """,
    "self_reference_zero_shift": """
        !equations
            a = 0.5*a + 1;
            b = a;
    """,
    "lags_and_leads_only": """
        !equations
            a = b[-1];
            b = a[+1];
            c = a[-1] + b[+1] + c[-1];
    """,
    "transforms_identities_parameters": """
        !parameters rho, ss
        !equations
            "Identity" s === a + b + c + y;
            y = b{-1};
            roc(b) = 0.5*a + c[-2] + d[+2];
            diff_log(c) = rho*a + ss;
            a = rho*a[-1] + (1-rho)*ss;
            u = u[-1];
    """,
    "repeated_lhs": """
        !equations
            a = b + 1;
            b = 1;
            a = a * 2;
    """,
    "single": """
        !equations
            a = a[-1] + 1;
    """,
}


def describe_sequential(model):
    return (
        norm(model.incidence_matrix),
        norm(model.is_sequential),
        norm(model.lhs_names),
        norm(model.lhs_names_in_equations),
        norm(model.residual_names),
        norm(tuple(sorted(model.rhs_only_names))),
        norm(model.equation_strings),
        norm(tuple(sorted(model.all_names))),
        norm(model.num_equations),
        norm(model.max_lag), norm(model.max_lead),
    )


def section_sequential():
    d = Digest("sequential models")
    for name, source in SEQUENTIAL_SOURCES.items():
        for num_variants in (1, 3):
            model = ir.Sequential.from_string(source)
            if num_variants > 1:
                model.alter_num_variants(num_variants)
            if model.parameter_names:
                model.assign(**{
                    n: (0.5 + 0.1*i if num_variants == 1 else [0.5 + 0.1*i + 0.01*v for v in range(num_variants)])
                    for i, n in enumerate(model.parameter_names)
                })
            before = describe_sequential(model)
            result = attempt(model.sequentialize)
            after = describe_sequential(model)
            again = attempt(model.sequentialize)
            after_again = describe_sequential(model)
            d.add(name, num_variants, before, result, after, again, after_again)
            if num_variants == 1:
                print(f"  {name}: was_sequential={before[1][1]} result={result[:2] if result[0] == 'raised' else result[1][1]}"
                      f" now_sequential={after[1][1]} untouched={before == after} lhs={model.lhs_names}")
                print(f"    incidence={model.incidence_matrix.astype(int).tolist()}")
            # Simulate the (re)ordered model whenever it is sequential
            if bool(model.is_sequential):
                sim = simulate_sequential(model, num_variants)
                d.add(name, num_variants, sim)
                if num_variants == 1:
                    print(f"    simulated: {sim[:3]}")
    d.show()
    # Model with no equations at all
    empty = ir.Sequential.from_string("!equations\n")
    print("  empty model:", norm(empty.is_sequential), attempt(empty.sequentialize), empty.num_equations,
          attempt(lambda: empty.incidence_matrix))


def simulate_sequential(model, num_variants):
    rng = np.random.default_rng(11)
    results = []
    for start, end in ((ir.yy(2020), ir.yy(2023)), (ir.qq(2020, 1), ir.qq(2020, 4)), (ir.dd(2020, 1, 1), ir.dd(2020, 1, 4))):
        span = start-4 >> end+4
        db = ir.Databox()
        for n in sorted(model.all_names):
            if n in model.parameter_names:
                continue
            values = rng.uniform(0.5, 1.5, size=(len(span), 1))
            if n in model.residual_names:
                values = values * 0
            db[n] = ir.Series(periods=span, values=values)
        try:
            with contextlib.redirect_stdout(io.StringIO()):
                out = model.simulate(db, start >> end, num_variants=num_variants)
            sim_db = out[0] if isinstance(out, tuple) else out
            for n in model.lhs_names:
                data = np.asarray(sim_db[n].get_data(start >> end), dtype=float)
                results.append((n, [None if np.isnan(v) else round(float(v), 8) for v in data.flatten()]))
        except Exception as exc:
            results.append(("raised", type(exc).__name__, str(exc)[:100]))
    return results


#
# 6. Simultaneous models: steady-state blocks built from the incidence matrix
#

SIMULTANEOUS_SOURCE = """
!variables x, y, z, w, v, q
!log-variables w
!parameters p, g
!shocks e
!equations
  x = p*y + z + e;
  y = 0.5*y + 1;
  z = 0.5*x[-1] + y;
  log(w) = 0.5*log(w[-1]) + 0.1*x;
  v = 0.5*v[-1] + g + 0*q;
  q = 0.3*q[+1] + 0.2*q[-1] + v - v[-1] + w;
"""


def section_simultaneous():
    d = Digest("simultaneous steady blocks")
    for flat in (True, False):
        for num_variants in (1, 2):
            model = ir.Simultaneous.from_string(SIMULTANEOUS_SOURCE, flat=flat)
            if num_variants > 1:
                model.alter_num_variants(num_variants)
                model.assign(p=[0.3, 0.4], g=[0.0, 0.0] if flat else [0.01, 0.02])
            else:
                model.assign(p=0.3, g=0.0 if flat else 0.01)
            plans = []
            plan = ir.SteadyPlan(model)
            plans.append(("default", plan))
            plan = ir.SteadyPlan(model)
            plan.swap(("x", "p"), )
            plans.append(("swap_x_p", plan))
            plan = ir.SteadyPlan(model)
            plan.fix_level(("y", "w"), )
            plans.append(("fix_y_w", plan))
            for label, plan in plans:
                blocks = attempt(model.split_into_blocks, plan)
                d.add(flat, num_variants, label, blocks)
                if num_variants == 1:
                    compact = [
                        ([e[1] for e in b[1][1]], [q[1] for q in b[2][1]])
                        for b in blocks[1][1]
                    ] if blocks[0] == "ok" else blocks
                    print(f"  flat={flat} plan={label}:", compact)
            with contextlib.redirect_stdout(io.StringIO()):
                status = attempt(model.steady)
            levels = model.get_steady_levels(round=8, unpack_singleton=False)
            changes = model.get_steady_changes(round=8, unpack_singleton=False)
            item = (
                status[0],
                [(k, [None if v is None or v != v else float(v) for v in levels[k]]) for k in sorted(levels.keys())],
                [(k, [None if v is None or v != v else float(v) for v in changes[k]]) for k in sorted(changes.keys())],
            )
            d.add(flat, num_variants, item)
            if num_variants == 1:
                print(f"    steady status: {status}")
                print(f"    steady levels: {item[1]}")
                print(f"    steady changes: {item[2]}")
    d.show()


if __name__ == "__main__":
    section_exhaustive()
    section_all_small()
    section_sampled()
    section_calculate_incidence_matrix()
    section_sequential()
    section_simultaneous()

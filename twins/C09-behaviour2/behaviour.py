"""
Behaviour digest for property C09 (periods as calendar-consistent integers,
spans as their ranges). Prints a deterministic listing followed by a sha256
digest of everything printed.

Run:  cd /tmp/wt2/C09 && PYTHONPATH=/tmp/wt2/C09/src /venv/bin/python /tmp/twin2_out/C09/behaviour.py
"""

import datetime as _dt
import hashlib
import itertools

import irispie as ir
from irispie import dates as D
from irispie.dates import (
    Span, EmptySpan, Period, Frequency, ContextualPeriod, ResolutionContext,
    DailyPeriod, YearlyPeriod, HalfyearlyPeriod, QuarterlyPeriod, MonthlyPeriod,
    IntegerPeriod,
)

_LINES = []


def out(*args):
    line = " ".join(str(a) for a in args)
    _LINES.append(line)


def attempt(label, func):
    """Record the repr of the result, or the exception type and message."""
    try:
        result = func()
        if isinstance(result, range):
            rep = f"range{(result.start, result.stop, result.step)}={list(result)}"
        elif hasattr(result, "__next__"):
            rep = "gen" + repr(list(result))
        else:
            rep = f"{type(result).__name__}:{result!r}"
    except Exception as exc:
        rep = f"!{type(exc).__name__}:{exc}"
    out(label, "->", rep)


def describe_span(label, span):
    out(label, "repr", repr(span), "str", str(span))
    out(label, "start", repr(span.start), "end", repr(span.end), "step", span.step,
        "dir", span.direction, "needs_resolve", span.needs_resolve, "bool", bool(span))
    attempt(label + " len", lambda: len(span))
    attempt(label + " _serials", lambda: span._serials)
    attempt(label + " list", lambda: list(span))
    attempt(label + " tuple(iter)", lambda: tuple(iter(span)))
    attempt(label + " _class", lambda: span._class)
    attempt(label + " frequency", lambda: span.frequency)
    for i in (0, 1, -1, 2, -2, 100):
        attempt(label + f" [{i}]", lambda i=i: span[i])
    for sl in (slice(None), slice(1, None), slice(None, -1), slice(None, None, 2), slice(None, None, -1)):
        attempt(label + f" [{sl}]", lambda sl=sl: span[sl])
    attempt(label + " sdmx", lambda: span.to_sdmx_strings())
    attempt(label + " iso", lambda: span.to_iso_strings())


# ---------------------------------------------------------------------------
# Periods
# ---------------------------------------------------------------------------

PERIODS = {
    "yy": [ir.yy(1), ir.yy(1999), ir.yy(2020), ir.yy(2021)],
    "hh": [ir.hh(1999, 2), ir.hh(2020, 1), ir.hh(2020, 2)],
    "qq": [ir.qq(1999, 4), ir.qq(2020, 1), ir.qq(2020, 3), ir.qq(2021, 4)],
    "mm": [ir.mm(1999, 12), ir.mm(2020, 1), ir.mm(2020, 2), ir.mm(2021, 7)],
    "dd": [
        ir.dd(1, 1, 1), ir.dd(1, 12, 31), ir.dd(2, 1, 1),
        ir.dd(1999, 12, 31), ir.dd(2000, 1, 1), ir.dd(2000, 2, 29), ir.dd(2000, 3, 1),
        ir.dd(2000, 12, 31), ir.dd(2019, 2, 28), ir.dd(2020, 2, 29), ir.dd(2020, 12, 31),
        ir.dd(2021, 1, 1), ir.dd(2021, 7, 15), ir.dd(2020, None, 60), ir.dd(2021, None, 365),
        ir.dd(9999, 12, 31),
    ],
    "ii": [ir.ii(-5), ir.ii(0), ir.ii(1), ir.ii(17)],
}

OFFSETS = (-400, -13, -4, -1, 0, 1, 2, 5, 12, 366, 1000)

out("== periods")
for name, pers in PERIODS.items():
    for p in pers:
        out(name, repr(p), str(p), "serial", p.serial, "hash_ok", hash(p) == hash(type(p)(p.serial)),
            "bool", bool(p), "len", len(p), "freq", p.frequency.name)
        attempt(f"{name} {p!r} year", lambda p=p: p.year)
        attempt(f"{name} {p!r} segment", lambda p=p: p.segment)
        attempt(f"{name} {p!r} period", lambda p=p: p.period)
        attempt(f"{name} {p!r} get_year", lambda p=p: p.get_year())
        attempt(f"{name} {p!r} to_year_segment", lambda p=p: p.to_year_segment())
        attempt(f"{name} {p!r} from_year_segment(rt)", lambda p=p: type(p).from_year_segment(*p.to_year_segment()))
        attempt(f"{name} {p!r} to_ymd", lambda p=p: p.to_ymd())
        attempt(f"{name} {p!r} to_ymd_end", lambda p=p: p.to_ymd(position="end"))
        attempt(f"{name} {p!r} iso", lambda p=p: p.to_iso_string())
        attempt(f"{name} {p!r} compact", lambda p=p: p.to_compact_string())
        attempt(f"{name} {p!r} pydate", lambda p=p: p.to_python_date())
        attempt(f"{name} {p!r} distance", lambda p=p: p.get_distance_from_origin())
        for kw in ("yoy", "soy", "boy", "eopy", "tty", -1, 3):
            attempt(f"{name} {p!r} shift({kw!r})", lambda p=p, kw=kw: p.shift(kw))
        for meth in ("create_soy", "create_som", "create_eoy", "create_eopy", "create_eopm", "create_tty", "create_boy"):
            attempt(f"{name} {p!r} {meth}", lambda p=p, meth=meth: getattr(p, meth)())
        for n in OFFSETS:
            attempt(f"{name} {p!r}+{n}", lambda p=p, n=n: p + n)
            attempt(f"{name} {n}+{p!r}", lambda p=p, n=n: n + p)
            attempt(f"{name} {p!r}-{n}", lambda p=p, n=n: p - n)
            attempt(f"{name} ({p!r}+{n})-p", lambda p=p, n=n: (p + n) - p)
    for p, q in itertools.product(pers, pers):
        out(name, repr(p), repr(q), "q-p", q - p, "p+(q-p)==q", p + (q - p) == q,
            "cmp", p < q, p <= q, p == q, p != q, p >= q, p > q,
            "hash_eq", (hash(p) == hash(q)) == (p == q))

out("== daily calendar tiling and year/segment accessors")
for year in (1, 2, 1900, 1999, 2000, 2019, 2020, 2021, 2100, 9999):
    first = DailyPeriod.from_year_segment(year, 1)
    last = first.create_eoy()
    n = last - first + 1
    out("year", year, repr(first), repr(last), "ndays", n,
        "soy", repr(last.create_soy()), "eoy", repr(first.create_eoy()))
    attempt(f"year {year} eopy", lambda first=first: first.create_eopy())
    attempt(f"year {year} eopy(last)", lambda last=last: last.create_eopy())
    attempt(f"year {year} tty(first)", lambda first=first: first.create_tty())
    attempt(f"year {year} tty(last)", lambda last=last: last.create_tty())
    for seg in (1, 2, 31, 32, 59, 60, 61, 365, 366, 367, 0, -1, "7", 3.0, 3.9):
        attempt(f"dd.from_year_segment({year},{seg!r})", lambda seg=seg: DailyPeriod.from_year_segment(year, seg))
        attempt(f"dd.from_year_period({year},{seg!r})", lambda seg=seg: DailyPeriod.from_year_period(year, seg))
        attempt(f"dd.from_year_segment({year},{seg!r}).yseg", lambda seg=seg: DailyPeriod.from_year_segment(year, seg).to_year_segment())
    attempt(f"dd.from_year_segment({year})", lambda: DailyPeriod.from_year_segment(year))
    if year in (2000, 2019, 2020):
        acc = []
        p = first
        while p <= last:
            y, s = p.to_year_segment()
            d = _dt.date.fromordinal(p.serial)
            acc.append((
                y == d.year == p.year == p.get_year(), s == d.timetuple().tm_yday == p.segment == p.period,
                p.create_soy().serial, p.create_som().serial, p.create_eoy().serial,
                p.create_eopy().serial, p.create_eopm().serial, p.month, p.day,
                DailyPeriod.from_year_segment(y, s) == p,
            ))
            p = p + 1
        out("year", year, "sweep", hashlib.sha256(repr(acc).encode()).hexdigest(), len(acc), all(a[0] and a[1] and a[-1] for a in acc))

for bad in (0, -3, 3652060, 10**7):
    p = DailyPeriod(bad)
    for meth in ("create_soy", "create_som", "create_eoy", "create_eopy", "create_eopm", "create_tty", "to_year_segment", "get_year", "to_ymd"):
        attempt(f"dd serial {bad} {meth}", lambda p=p, meth=meth: getattr(p, meth)())

attempt("dd class of create_soy", lambda: type(ir.dd(2020, 5, 5).create_soy()).__name__)
attempt("dd static-style", lambda: DailyPeriod.create_soy(ir.dd(2020, 5, 5)))

out("== mixing frequencies")
mixed = [ir.yy(2020), ir.hh(2020, 1), ir.qq(2020, 1), ir.mm(2020, 1), ir.dd(2020, 1, 1), ir.ii(2020)]
for p, q in itertools.permutations(mixed, 2):
    attempt(f"{p!r}-{q!r}", lambda: p - q)
    attempt(f"{p!r}<{q!r}", lambda: p < q)
    attempt(f"{p!r}=={q!r}", lambda: p == q)
    attempt(f"{p!r}>>{q!r}", lambda: p >> q)
    attempt(f"{p!r}<<{q!r}", lambda: p << q)
    attempt(f"Span({p!r},{q!r},2)", lambda: Span(p, q, 2))

# ---------------------------------------------------------------------------
# Spans
# ---------------------------------------------------------------------------

out("== spans")
SPANS = {
    "q_fwd": lambda: ir.qq(2020, 1) >> ir.qq(2021, 4),
    "q_bwd": lambda: ir.qq(2021, 4) << ir.qq(2020, 1),
    "q_step2": lambda: Span(ir.qq(2020, 1), ir.qq(2021, 4), 2),
    "q_step3_uneven": lambda: Span(ir.qq(2020, 1), ir.qq(2021, 4), 3),
    "q_step-3": lambda: Span(ir.qq(2021, 4), ir.qq(2020, 1), -3),
    "q_empty_fwd": lambda: Span(ir.qq(2021, 4), ir.qq(2020, 1), 1),
    "q_empty_bwd": lambda: Span(ir.qq(2020, 1), ir.qq(2021, 4), -1),
    "q_single": lambda: ir.qq(2020, 2) >> ir.qq(2020, 2),
    "y_fwd": lambda: ir.yy(2018) >> ir.yy(2022),
    "h_bwd": lambda: ir.hh(2022, 1) << ir.hh(2020, 2),
    "m_step5": lambda: Span(ir.mm(2019, 11), ir.mm(2021, 2), 5),
    "d_fwd": lambda: ir.dd(2020, 2, 27) >> ir.dd(2020, 3, 2),
    "d_bwd7": lambda: Span(ir.dd(2021, 1, 10), ir.dd(2020, 12, 1), -7),
    "i_fwd": lambda: ir.ii(-2) >> ir.ii(3),
    "i_bwd2": lambda: Span(ir.ii(5), ir.ii(-5), -2),
    "pow+": lambda: ir.mm(2020, 11) ** 4,
    "pow-": lambda: ir.mm(2020, 2) ** -4,
    "ellipsis": lambda: ir.qq(2020, 1, ..., 2020, 4),
}

for label, make in SPANS.items():
    s = make()
    describe_span(label, s)
    for k in (-5, -1, 0, 1, 3, 8):
        attempt(f"{label} +{k}", lambda: s + k)
        attempt(f"{label} r+{k}", lambda: k + s)
        attempt(f"{label} -{k}", lambda: s - k)
        attempt(f"{label} list(+{k})", lambda: list(s + k))
        attempt(f"{label} (s+{k})-{k}==s", lambda: ((s + k) - k) == s)
        attempt(f"{label} type(+)", lambda: type(s + k).__name__)
    attempt(f"{label} +1.0", lambda: s + 1.0)
    attempt(f"{label} -'a'", lambda: s - "a")
    attempt(f"{label} +None", lambda: s + None)
    for base in (s.start, s.end, s.start - 3, s.end + 2):
        attempt(f"{label} - {base!r}", lambda: s - base)
        attempt(f"{label} {base!r} - span", lambda: base - s)
    attempt(f"{label} - other-freq", lambda: s - (ir.ii(0) if s.frequency is not Frequency.INTEGER else ir.yy(2000)))
    attempt(f"{label} other-freq - span", lambda: (ir.ii(0) if s.frequency is not Frequency.INTEGER else ir.yy(2000)) - s)
    attempt(f"{label} 3 - span", lambda: 3 - s)
    for step in (1, 2, 3, 0, -1, -2, True, 1.5):
        attempt(f"{label} >> {step!r}", lambda: s >> step)
        attempt(f"{label} << {step!r}", lambda: s << step)
        attempt(f"{label} list(>> {step!r})", lambda: list(s >> step))
        attempt(f"{label} list(<< {step!r})", lambda: list(s << step))
        attempt(f"{label} type(>>)", lambda: type(s >> step).__name__)
    attempt(f"{label} >> 'a'", lambda: s >> "a")
    attempt(f"{label} << None", lambda: s << None)
    # Reversal
    r = s.reversed()
    describe_span(label + " reversed", r)
    attempt(f"{label} reversed twice == s", lambda: r.reversed() == s)
    attempt(f"{label} list(reversed) == reversed(list)", lambda: list(r) == list(s)[::-1])
    # Sequences of in-place mutations
    t = make()
    log = []
    for op, arg in (
        ("shift_start", 1), ("shift_end", -1), ("reverse", None), ("shift", 2),
        ("shift_end", 3), ("shift_start", -2), ("reverse", None), ("reverse", None),
        ("shift_start", 0), ("shift", -7), ("shift_end", 5), ("reverse", None),
    ):
        ret = getattr(t, op)() if arg is None else getattr(t, op)(arg)
        log.append((op, arg, ret, repr(t), t.step, t.direction, len(t), [repr(x) for x in t], t.needs_resolve))
    for entry in log:
        out(label, "mut", entry)
    # Identity of untouched endpoints across mutations
    u = make()
    start0, end0 = u.start, u.end
    u.shift_start(0)
    out(label, "shift_start(0) keeps end identity", u.end is end0, "start equal", u.start == start0)
    u = make()
    start0, end0 = u.start, u.end
    u.shift_end(0)
    out(label, "shift_end(0) keeps start identity", u.start is start0, "end equal", u.end == end0)
    u = make()
    start0, end0 = u.start, u.end
    u.reverse()
    out(label, "reverse swaps identities", u.start is end0, u.end is start0, u.step)
    attempt(f"{label} shift_start('x')", lambda: make().shift_start("x"))
    attempt(f"{label} shift_end(None)", lambda: make().shift_end(None))
    attempt(f"{label} resolve(concrete)", lambda: s.resolve(ResolutionContext(ir.qq(1990, 1), ir.qq(1991, 1))))
    attempt(f"{label} resolve is new object", lambda: s.resolve(None) is not s and s.resolve(None) == s)

out("== span equality / encompassing")
attempt("eq", lambda: (ir.qq(2020, 1) >> ir.qq(2020, 4)) == Span(ir.qq(2020, 1), ir.qq(2020, 4), 1))
attempt("ne step", lambda: (ir.qq(2020, 1) >> ir.qq(2020, 4)) == Span(ir.qq(2020, 1), ir.qq(2020, 4), 2))
attempt("empty", lambda: (len(EmptySpan()), list(EmptySpan()), ir.qq(2020, 1) ** 0 is EmptySpan()))
attempt("pow1", lambda: ir.qq(2020, 1) ** 1)

# ---------------------------------------------------------------------------
# Contextual periods and open-ended spans
# ---------------------------------------------------------------------------

out("== contextual periods")
CONTEXTS = {
    "q": ResolutionContext(ir.qq(2020, 1), ir.qq(2022, 4)),
    "y": ResolutionContext(ir.yy(2000), ir.yy(2010)),
    "m": ResolutionContext(ir.mm(2020, 11), ir.mm(2021, 2)),
    "d": ResolutionContext(ir.dd(2020, 2, 27), ir.dd(2020, 3, 2)),
    "i": ResolutionContext(ir.ii(-3), ir.ii(4)),
    "h_bwd": ResolutionContext(ir.hh(2022, 1), ir.hh(2020, 1)),
    "none": ResolutionContext(None, None),
}

CTX_PERIODS = {
    "start": lambda: ir.start,
    "end": lambda: ir.end,
    "start+2": lambda: ir.start + 2,
    "start-2": lambda: ir.start - 2,
    "end-1": lambda: ir.end - 1,
    "end+3": lambda: ir.end + 3,
    "start+2-5": lambda: ir.start + 2 - 5,
    "end-1+1": lambda: ir.end - 1 + 1,
    "start+0": lambda: ir.start + 0,
    "start-0": lambda: ir.start - 0,
    "start+True": lambda: ir.start + True,
    "end-1.5": lambda: ir.end - 1.5,
    "end+2.0": lambda: ir.end + 2.0,
    "start-(-3)": lambda: ir.start - (-3),
    "end-'a'": lambda: ir.end - "a",
    "start+'a'": lambda: ir.start + "a",
    "start+None": lambda: ir.start + None,
    "end-end": lambda: ir.end - ir.end,
    "end-qq": lambda: ir.end - ir.qq(2020, 1),
    "2+start": lambda: 2 + ir.start,
}

for label, make in CTX_PERIODS.items():
    attempt(f"ctxper {label}", make)
    try:
        cp = make()
    except Exception:
        continue
    if not isinstance(cp, ContextualPeriod):
        continue
    out("ctxper", label, "type", type(cp).__name__, "str", str(cp), "repr", repr(cp), "bool", bool(cp),
        "needs_resolve", cp.needs_resolve, "_resolve_from", cp._resolve_from, "_offset", repr(cp._offset),
        "offset type", type(cp._offset).__name__)
    for cname, ctx in CONTEXTS.items():
        attempt(f"ctxper {label} resolve[{cname}]", lambda: cp.resolve(ctx))
out("ctxper new object", (ir.start + 0) is not ir.start, (ir.start - 0) is not ir.start,
    ir.start._offset, ir.end._offset)

out("== open-ended spans")
OPEN_SPANS = {
    "start>>end": lambda: ir.start >> ir.end,
    "None>>per": lambda: None >> ir.qq(2021, 2),
    "per>>None": lambda: ir.qq(2021, 2) >> None,
    "per<<None": lambda: ir.qq(2021, 2) << None,
    "None<<per": lambda: None << ir.qq(2021, 2),
    "start+1>>end-1": lambda: (ir.start + 1) >> (ir.end - 1),
    "end<<start": lambda: ir.end << ir.start,
    "Span()": lambda: Span(),
    "Span(step=-1)": lambda: Span(step=-1),
    "Span(step=2)": lambda: Span(None, None, 2),
    "Span(start+1,None,3)": lambda: Span(ir.start + 1, None, 3),
    "Span(None,start,-2)": lambda: Span(None, ir.start + 1, -2),
    "ellipsis_open_end": lambda: ir.qq(2021, 1, ...),
    "ellipsis_open_start": lambda: ir.qq(..., 2021, 1),
    "mixed_dd": lambda: ir.dd(2020, 2, 28) >> ir.end,
    "mixed_ii": lambda: ir.start >> ir.ii(2),
}

for label, make in OPEN_SPANS.items():
    attempt(f"open {label}", make)
    try:
        s = make()
    except Exception:
        continue
    out("open", label, "repr", repr(s), "needs_resolve", s.needs_resolve, "bool", bool(s),
        "step", s.step, "dir", s.direction, "start", repr(s.start), "end", repr(s.end))
    attempt(f"open {label} len", lambda: len(s))
    attempt(f"open {label} _serials", lambda: s._serials)
    attempt(f"open {label} iter", lambda: s.__iter__())
    attempt(f"open {label} [0]", lambda: s[0])
    attempt(f"open {label} _class", lambda: s._class)
    attempt(f"open {label} - per", lambda: s - ir.qq(2020, 1))
    attempt(f"open {label} per - span", lambda: ir.qq(2020, 1) - s)
    attempt(f"open {label} - 2", lambda: s - 2)
    attempt(f"open {label} + 2", lambda: s + 2)
    attempt(f"open {label} 2 +", lambda: 2 + s)
    attempt(f"open {label} >> 2", lambda: s >> 2)
    attempt(f"open {label} << -2", lambda: s << -2)
    attempt(f"open {label} >> -2", lambda: s >> -2)
    attempt(f"open {label} << 2", lambda: s << 2)
    attempt(f"open {label} reversed", lambda: s.reversed())
    for cname, ctx in CONTEXTS.items():
        attempt(f"open {label} resolve[{cname}]", lambda: s.resolve(ctx))
        attempt(f"open {label} list(resolve[{cname}])", lambda: list(s.resolve(ctx)))
        attempt(f"open {label} resolve[{cname}] flags", lambda: (lambda r: (r.needs_resolve, bool(r), len(r), r.step, type(r).__name__))(s.resolve(ctx)))
        attempt(f"open {label} (s+2).resolve[{cname}]", lambda: list((s + 2).resolve(ctx)))
        attempt(f"open {label} (s-1).resolve[{cname}]", lambda: list((s - 1).resolve(ctx)))
        attempt(f"open {label} reversed.resolve[{cname}]", lambda: list(s.reversed().resolve(ctx)))
    # In-place mutations on open-ended spans, then resolve
    t = make()
    for op, arg in (("shift_start", 2), ("shift_end", -1), ("reverse", None), ("shift", 3), ("shift_start", -4), ("reverse", None)):
        try:
            ret = getattr(t, op)() if arg is None else getattr(t, op)(arg)
            state = (ret, repr(t), t.step, t.needs_resolve)
        except Exception as exc:
            state = f"!{type(exc).__name__}:{exc}"
        out("open", label, "mut", op, arg, state)
        attempt(f"open {label} mut {op} resolve[q]", lambda: list(t.resolve(CONTEXTS["q"])))
        attempt(f"open {label} mut {op} resolve[i]", lambda: list(t.resolve(CONTEXTS["i"])))

out("== Ranger subclass")
attempt("Ranger +", lambda: type(D.Ranger(ir.qq(2020, 1), ir.qq(2020, 4)) + 1).__name__)
attempt("Ranger >>", lambda: type(D.Ranger(ir.qq(2020, 1), ir.qq(2020, 4)) >> 2).__name__)
attempt("Ranger -", lambda: type(D.Ranger(ir.qq(2020, 1), ir.qq(2020, 4)) - 2).__name__)
attempt("Ranger resolve", lambda: type(D.Ranger(ir.qq(2020, 1), None).resolve(CONTEXTS["q"])).__name__)

text = "\n".join(_LINES)
print(text)
print("LINES", len(_LINES))
print("SHA256", hashlib.sha256(text.encode()).hexdigest())

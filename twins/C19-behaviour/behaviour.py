"""
Deterministic behaviour digest for property C19 (databox / dataslate / CSV
conversions are lossless on selected names and span).

Run as

    cd /tmp/wt/C19 && PYTHONPATH=/tmp/wt/C19/src /venv/bin/python /tmp/twin_out/C19/behaviour.py

The script prints a long deterministic text and a final sha256 digest of it.
"""

import warnings
warnings.simplefilter("ignore")

import sys
import os
import io
import hashlib
import tempfile
import itertools
import numpy as np

import irispie as ir
from irispie.dataslates.main import Dataslate
from irispie.series.main import Series
from irispie.databoxes.main import Databox
from irispie.dates import Frequency


_LINES = []


def out(*args):
    line = " ".join(str(a) for a in args)
    _LINES.append(line)
    print(line)


def fmt_array(a):
    a = np.asarray(a, dtype=float)
    return repr(np.round(a, 10).tolist())


def fmt_value(v):
    if isinstance(v, Series):
        if v.get_data().size == 0 or v.start is None:
            return f"Series(empty, shape={v.shape}, descr={v.get_description()!r})"
        return (
            f"Series(freq={v.frequency.name}, start={v.start}, end={v.end}, "
            f"shape={v.shape}, descr={v.get_description()!r}, data={fmt_array(v.get_data())})"
        )
    if isinstance(v, np.ndarray):
        return "ndarray" + fmt_array(v)
    return f"{type(v).__name__}:{v!r}"


def dump_db(title, db):
    out(f"--- {title} [{type(db).__name__}] keys={list(db.keys())}")
    for k, v in db.items():
        out(f"    {k!r}: {fmt_value(v)}")


def attempt(title, func):
    try:
        result = func()
        out(f"{title}: OK {result!r}" if result is not None else f"{title}: OK")
        return result
    except BaseException as e:
        out(f"{title}: RAISED {type(e).__name__}")
        return None


RNG = np.random.default_rng(20240519)


def rand(shape, nan_share=0.0, decimals=6):
    x = RNG.standard_normal(shape) * 100
    if decimals is not None:
        x = np.round(x, decimals)
    if nan_share:
        mask = RNG.random(shape) < nan_share
        x[mask] = np.nan
    return x


def make_mixed_databox():
    db = Databox()
    db["yy1"] = Series(start=ir.yy(2001), values=rand((6, 1)), description="Yearly one")
    db["yy2"] = Series(start=ir.yy(1998), values=rand((4, 3), 0.3), description="Yearly, three variants")
    db["hh1"] = Series(start=ir.hh(2010, 2), values=rand((5, 2), 0.2, decimals=None), description="Half-yearly")
    db["qq1"] = Series(start=ir.qq(2020, 1), values=rand((8, 1), 0.25), description="Quarterly with gaps")
    db["qq2"] = Series(start=ir.qq(2019, 3), values=rand((12, 2)), description="Quarterly, two variants")
    db["qq3"] = Series(start=ir.qq(2021, 2), values=np.array([[1.0], [np.nan], [np.nan], [4.123456789012345]]), description="")
    db["mm1"] = Series(start=ir.mm(2020, 11), values=rand((7, 1)), description="Monthly; with, comma")
    db["dd1"] = Series(start=ir.dd(2020, 2, 26), values=rand((9, 2), 0.2), description="Daily over leap day")
    db["ii1"] = Series(start=ir.ii(-3), values=rand((7, 1), 0.2), description="Integer from negative")
    db["ii2"] = Series(start=ir.ii(2), values=rand((3, 4), decimals=None), description="Integer four variants")
    db["scalar"] = 3.5
    db["lst"] = [1, 2, 3]
    db["txt"] = "hello"
    db["none"] = None
    return db


def series_only(db):
    return Databox((k, v) for k, v in db.items() if isinstance(v, Series))


# =============================================================================
# 1. CSV round trips
# =============================================================================

def csv_roundtrips(tmp):
    out("=" * 20, "CSV round trips")
    db = make_mixed_databox()
    dump_db("source", db)

    def roundtrip(tag, write_kwargs, read_kwargs, source=db, show_file=True):
        file_name = os.path.join(tmp, f"{tag}.csv")
        if os.path.exists(file_name):
            os.remove(file_name)
        try:
            info = source.to_csv_file(file_name, **write_kwargs)
        except BaseException as e:
            out(f"[{tag}] write RAISED {type(e).__name__}")
            return None
        out(f"[{tag}] info={info!r}")
        if show_file and os.path.exists(file_name):
            with open(file_name, "rt") as fid:
                text = fid.read()
            out(f"[{tag}] file sha={hashlib.sha256(text.encode()).hexdigest()[:16]} lines={text.count(chr(10))}")
            for line in text.splitlines()[:4]:
                out(f"[{tag}] | {line}")
        try:
            back = Databox.from_csv_file(file_name, **read_kwargs)
        except BaseException as e:
            out(f"[{tag}] read RAISED {type(e).__name__}")
            return None
        dump_db(f"{tag} read back", back)
        # Loss check
        for name, x in back.items():
            if name in source and isinstance(source[name], Series) and isinstance(x, Series):
                s = source[name]
                same_span = (x.start == s.start and x.end == s.end) if x.get_data().size else None
                if x.get_data().size and x.frequency == s.frequency:
                    span = ir.Span(x.start, x.end)
                    diff = np.nanmax(np.abs(np.nan_to_num(x.get_data(span) - s.get_data(span), nan=0.0)), initial=0.0)
                    nan_same = bool(np.array_equal(np.isnan(x.get_data(span)), np.isnan(s.get_data(span))))
                else:
                    diff, nan_same = None, None
                out(f"[{tag}] check {name}: same_span={same_span} maxdiff={diff if diff is None else round(float(diff), 9)} nan_same={nan_same} descr_same={x.get_description() == s.get_description()}")
        return back

    roundtrip("all_default", dict(return_info=True), dict())
    roundtrip("all_descr", dict(description_row=True, return_info=True), dict(description_row=True))
    roundtrip("names_list", dict(names=["qq1", "mm1", "ii2", "yy2", "scalar", "nonexistent"], description_row=True, return_info=True), dict(description_row=True))
    roundtrip("names_pred", dict(names=lambda n: n.endswith("1"), description_row=True, return_info=True), dict(description_row=True))
    roundtrip("names_str", dict(names="dd1", return_info=True), dict())
    roundtrip("span_q", dict(span=ir.qq(2019, 1) >> ir.qq(2021, 2), description_row=True, return_info=True), dict(description_row=True))
    roundtrip("span_q_short", dict(span=ir.qq(2020, 3) >> ir.qq(2020, 4), return_info=True), dict())
    roundtrip("span_q_rev", dict(span=tuple(ir.Span(ir.qq(2021, 1), ir.qq(2020, 1), -1)), return_info=True), dict())
    roundtrip("span_d", dict(span=ir.dd(2020, 2, 27) >> ir.dd(2020, 3, 2), return_info=True), dict())
    roundtrip("span_i", dict(span=ir.ii(-5) >> ir.ii(5), return_info=True), dict())
    roundtrip("span_m", dict(span=ir.mm(2020, 12) >> ir.mm(2021, 3), names=("mm1", "qq1"), return_info=True), dict())
    roundtrip(
        "freq_span",
        dict(
            frequency_span={
                Frequency.QUARTERLY: ir.qq(2020, 1) >> ir.qq(2020, 4),
                Frequency.YEARLY: ...,
                12: ir.mm(2021, 1) >> ir.mm(2021, 2),
                Frequency.DAILY: None,
            },
            description_row=True, return_info=True,
        ),
        dict(description_row=True),
    )
    roundtrip("freq_span_int_only", dict(frequency_span={Frequency.INTEGER: ..., }, return_info=True), dict())
    roundtrip("round2", dict(round=2, return_info=True, names=("qq1", "qq2", "ii1")), dict())
    roundtrip("round0", dict(round=0, return_info=True, names=("qq1", "dd1")), dict())
    roundtrip("roundNone", dict(round=None, return_info=True, names=("qq3", "yy1")), dict())
    roundtrip("nan_str", dict(nan_str="NaN", return_info=True, names=("qq1", "hh1", "yy2")), dict())
    roundtrip("delim", dict(delimiter=";", description_row=True, return_info=True, names=("qq1", "mm1")), dict(delimiter=";", description_row=True, csv_reader_settings={"delimiter": ";"}))
    roundtrip("start_only", dict(return_info=True, names=("qq2", "mm1", "ii1", "dd1")), dict(start_period_only=True))
    roundtrip("transform", dict(return_info=True, names=("qq2", "yy1")), dict(name_row_transform=lambda s: s.upper() if not s.startswith("__") else s))
    roundtrip("date_formatter", dict(return_info=True, names=("qq2", "yy1"), date_formatter=lambda p: p.to_sdmx_string()), dict())
    roundtrip("legacy_alias", dict(return_info=True, names=("hh1", )), dict(date_creator=None, start_date_only=None))
    roundtrip("return_none", dict(names=("yy1", )), dict())
    # Nothing to export
    roundtrip("empty_silent", dict(names=("scalar", "lst"), when_empty="silent", return_info=True), dict())
    roundtrip("empty_error", dict(names=("scalar", "lst"), when_empty="error", return_info=True), dict())
    roundtrip("empty_db", dict(when_empty="silent", return_info=True), dict(), source=Databox())
    # One frequency only, one variant
    single = Databox(a=Series(start=ir.qq(2000, 1), values=np.array([[1.0], [2.0], [np.nan]]), description="Single"))
    roundtrip("single", dict(description_row=True, return_info=True), dict(description_row=True), source=single)
    # Leading / trailing NaN
    lead = Databox(
        a=Series(periods=(ir.mm(2020, 1), ir.mm(2020, 6)), values=np.array([[1.0], [2.0]]), description="gap"),
        b=Series(start=ir.mm(2019, 11), values=np.array([[np.nan, 1], [5, np.nan], [np.nan, np.nan], [7, 8]]), description="b"),
    )
    dump_db("lead source", lead)
    roundtrip("lead", dict(description_row=True, return_info=True), dict(description_row=True), source=lead)
    # to_sheet / from_sheet / to_csv / from_csv aliases
    file_name = os.path.join(tmp, "alias.csv")
    info = db.to_sheet(file_name, names=("qq1", "ii1"), return_info=True)
    out("alias info", info)
    dump_db("alias from_sheet", Databox.from_sheet(file_name))
    info = db.to_csv(file_name, names=("yy2", ), return_info=True, description_row=True)
    dump_db("alias from_csv", Databox.from_csv(file_name, description_row=True))
    # Databox settings pass-through and empty file
    empty_file = os.path.join(tmp, "emptyfile.csv")
    with open(empty_file, "wt") as fid:
        fid.write("")
    dump_db("empty file", Databox.from_csv_file(empty_file))
    # Hand written CSV with irregular layout
    hand = os.path.join(tmp, "hand.csv")
    with open(hand, "wt") as fid:
        fid.write(
            "__quarterly__,a,*,b,,__yearly__,c,,junk,__integer__,d,*,*\n"
            ",desc a,*,desc b,,,desc c,,,,desc d,*,*\n"
            "2020-Q1,1,2,3,,2020,10,,x,(1),1,2,3\n"
            "2020-Q2,,5,6,,2021,,,y,(2),4,,6\n"
            "2020-Q4,7,8,,,,,,,(5),7,8,9\n"
        )
    dump_db("hand", Databox.from_csv_file(hand, description_row=True))
    dump_db("hand start only", Databox.from_csv_file(hand, description_row=True, start_period_only=True))
    # Pickle round trip
    pk = os.path.join(tmp, "db.pkl")
    db.to_pickle_file(pk)
    dump_db("pickle", Databox.from_pickle_file(pk))


# =============================================================================
# 2. Dataslates
# =============================================================================

class FakeSlatable:
    def __init__(self, **kwargs):
        self.max_lag = -2
        self.max_lead = 1
        self.databox_names = ("a", "b", "c", "p")
        self.descriptions = ("A descr", None, "C descr", "")
        self.databox_validators = None
        self.fallbacks = {"c": 0.5, "p": 9}
        self.overwrites = {"b": 1000}
        self.qid_to_logly = {0: True, 1: False, 3: None}
        self.output_names = ("a", "c", "b", "zz", "extra")
        for k, v in kwargs.items():
            setattr(self, k, v)


def dump_ds(title, ds):
    out(f"--- {title}: names={ds.names} periods={[str(p) for p in ds.periods]} nv={ds.num_variants}")
    out(f"    descriptions={ds.descriptions} logly={ds.logly_indexes} base_columns={ds.base_columns} nonbase={ds.nonbase_columns}")
    out(f"    output_names={ds.output_names} initials={ds.num_initials} terminals={ds.num_terminals} num_periods={ds.num_periods}")
    for vid in range(ds.num_variants):
        out(f"    v{vid}: {fmt_array(ds.get_data_variant(vid))}")


def dataslates():
    out("=" * 20, "Dataslates")
    db = Databox()
    db["a"] = Series(start=ir.qq(2020, 1), values=np.array([[1.0, 10], [2, 20], [np.nan, 30], [4, np.nan], [5, 50]]), description="a series")
    db["b"] = Series(start=ir.qq(2019, 2), values=np.array([[0.5], [np.nan], [1.5], [2.5], [3.5], [4.5], [5.5], [6.5], [7.5]]))
    db["c"] = Series(start=ir.qq(2021, 3), values=np.array([[3.0, 4.0, 5.0]]))
    db["e"] = Series()
    db["s"] = 7
    db["l"] = [1.0, 2.0]
    db["g"] = (x for x in [3, 4])
    db["other"] = Series(start=ir.qq(2020, 1), values=np.array([[1.0], [2.0]]))
    span = ir.qq(2019, 4) >> ir.qq(2021, 1)

    for kwargs in (
        dict(),
        dict(num_variants=2),
        dict(num_variants=3, fallbacks={"a": 0, "c": [1, 2], "missing": 5, "zz": 1}),
        dict(num_variants=2, overwrites={"b": -1, "s": [8, 9]}),
        dict(num_variants=2, fallbacks={"a": 100, "b": db["a"]}, overwrites={"l": 0, "a": Series(start=ir.qq(2020, 1), values=np.array([[np.nan], [77.0]]))}),
        dict(num_variants=3, fallbacks={"a": 100, "b": [1, 2], "l": 5}, overwrites={"l": 0, "missing": [3, 4, 5]}),
        dict(num_variants=2, base_columns=(2, 3, 4), clip_data_to_base_span=True, fallbacks={"a": 0.25}),
        dict(num_variants=2, base_columns=(4, 2, 3), clip_data_to_base_span=False),
        dict(num_variants=1, descriptions=("A", None, "C", "", "S", "L", "Missing"), qid_to_logly={0: True, 2: True, 5: False}, output_names=("a", "s", "nope")),
    ):
        names = ("a", "b", "c", "e", "s", "l", "missing")
        db["g"] = (x for x in [3, 4])
        title = "from_databox " + repr({k: (v if not isinstance(v, dict) else sorted(v.keys())) for k, v in kwargs.items()})
        try:
            ds = Dataslate.from_databox(db, names, span, **kwargs)
        except BaseException as e:
            out(title, "RAISED", type(e).__name__)
            continue
        dump_ds(title, ds)
        dump_db("to_databox full", ds.to_databox())
        dump_db("to_databox full no trim", ds.to_databox(trim=False))
        if ds.base_columns:
            dump_db("to_databox base", ds.to_databox(span="base"))
        target = Databox(keepme="x", a="will be replaced")
        result = ds.to_databox(target_db=target)
        out("    target is result:", result is target)
        dump_db("to_databox into target", target)
        # Exactness on the span
        back = ds.to_databox(trim=False)
        for n in ("a", "b", "c"):
            if n in back and not kwargs.get("fallbacks") and not kwargs.get("overwrites") and not kwargs.get("clip_data_to_base_span"):
                for vid in range(ds.num_variants):
                    col = min(vid, db[n].shape[1] - 1)
                    orig = db[n].get_data(span)[:, col]
                    got = back[n].get_data(span)[:, vid]
                    out(f"    exact {n} v{vid}: {bool(np.array_equal(orig, got, equal_nan=True))}")

    # names=None takes all keys (generator item replaced first)
    db2 = Databox(a=db["a"], b=db["b"], s=3)
    ds = Dataslate.from_databox(db2, None, span, num_variants=2)
    dump_ds("names None", ds)
    # plain dict input
    ds = Dataslate.from_databox({"a": db["a"], "k": 2}, ("k", "a"), ir.qq(2020, 2) >> ir.qq(2020, 3), num_variants=2)
    dump_ds("dict input", ds)
    # Reversed / single-period / string-free spans
    ds = Dataslate.from_databox(db2, ("a", ), (ir.qq(2020, 2), ), num_variants=1)
    dump_ds("single period", ds)
    dump_db("single period back", ds.to_databox())
    # Validators
    attempt("validators pass", lambda: Dataslate.from_databox(db2, ("a", ), span, validators={"s": (lambda x: x == 3, "s must be 3")}) and None)
    attempt("validators fail", lambda: Dataslate.from_databox(db2, ("a", ), span, validators={"s": (lambda x: x == 4, "s must be 4")}) and None)
    # Integer and daily and monthly frequency
    dbi = Databox(
        i=Series(start=ir.ii(-2), values=np.array([[1.0, 2], [np.nan, 4], [5, 6]])),
        j=Series(start=ir.ii(0), values=np.array([[9.0], [8.0]])),
    )
    ds = Dataslate.from_databox(dbi, ("i", "j"), ir.ii(-3) >> ir.ii(2), num_variants=2, fallbacks={"j": -1})
    dump_ds("integer", ds)
    dump_db("integer back", ds.to_databox())
    dbd = Databox(d=Series(start=ir.dd(2020, 2, 27), values=np.array([[1.0], [2], [3], [np.nan], [5]])))
    ds = Dataslate.from_databox(dbd, ("d", ), ir.dd(2020, 2, 26) >> ir.dd(2020, 3, 3), overwrites=None, fallbacks=None)
    dump_ds("daily", ds)
    dump_db("daily back", ds.to_databox())

    # Manipulations
    ds = Dataslate.from_databox(db, ("a", "b", "s"), span, num_variants=2, base_columns=(1, 2, 3), min_max_shift=(-1, 2), qid_to_logly={0: True})
    dump_ds("manip start", ds)
    c = ds.copy()
    c.logarithmize()
    dump_ds("logarithmized", c)
    c.delogarithmize()
    dump_ds("delogarithmized", c)
    c.rename({"a": "A", "zz": "ZZ"})
    dump_ds("renamed", c)
    dump_ds("original untouched", ds)
    c.remove_initial()
    dump_ds("remove_initial", c)
    c.remove_terminal()
    dump_ds("remove_terminal", c)
    c.add_periods_to_end(2)
    dump_ds("add_periods_to_end", c)
    c.rescale_data(2)
    dump_ds("rescaled", c)
    dump_db("after manip to_databox", c.to_databox())
    n = ds.nan_copy()
    dump_ds("nan copy", n) if False else out("nan copy variants", [fmt_array(v.data) for v in n._variants])
    n.update_columns_from(ds, (0, 3))
    out("update_columns_from", [fmt_array(v.data) for v in n._variants])
    e = ds.copy()
    e.extend(ds.copy())
    dump_ds("extended", e)
    z = Dataslate.nan_from_names_periods(("x", "y"), ir.mm(2020, 1) >> ir.mm(2020, 3), num_variants=2)
    dump_ds("nan_from_names_periods", z)
    out("name_to_row", ds.create_name_to_row(), "from_until", [str(p) for p in ds.from_until], "start/end", ds.start, ds.end, "base", [str(p) for p in ds.base_periods], ds.base_start, ds.base_slice, ds.num_base_periods)
    attempt("remove negative", lambda: ds.copy().remove_periods_from_start(-1))
    attempt("remove negative end", lambda: ds.copy().remove_periods_from_end(-1))
    attempt("add negative", lambda: ds.copy().add_periods_to_end(-1))

    # Slatable
    dbs = Databox(
        a=Series(start=ir.qq(2020, 1), values=np.array([[1.0, 2.0], [3.0, 4.0], [5.0, np.nan], [7.0, 8.0], [9.0, 10.0], [11.0, 12.0]])),
        b=Series(start=ir.qq(2020, 1), values=np.array([[1.0], [3.0]])),
        c=Series(start=ir.qq(2020, 3), values=np.array([[np.nan], [3.0]])),
        extra=Series(start=ir.qq(2019, 1), values=np.arange(12.0).reshape(12, 1)),
    )
    for kwargs in (
        dict(),
        dict(num_variants=2, extra_databox_names=("extra", "a")),
        dict(prepend_initial=False),
        dict(append_terminal=False, clip_data_to_base_span=True),
        dict(prepend_initial=False, append_terminal=False, num_variants=2),
    ):
        for slatable in (FakeSlatable(), FakeSlatable(descriptions=None, fallbacks=None, overwrites=None, output_names=None, qid_to_logly=None)):
            ds = Dataslate.from_databox_for_slatable(slatable, dbs, ir.qq(2020, 3) >> ir.qq(2020, 4), **kwargs)
            dump_ds("slatable " + repr(kwargs) + f" descr={slatable.descriptions is not None}", ds)
            dump_db("slatable back full", ds.to_databox())
            dump_db("slatable back base", ds.to_databox(span="base"))


# =============================================================================
# 3. Databox operations
# =============================================================================

def databox_ops():
    out("=" * 20, "Databox operations")
    base = make_mixed_databox()

    # --- name resolution
    for src, tgt, strict in (
        (None, None, False),
        ("qq1", None, False),
        ("qq1", "QQ1", False),
        (("qq1", "mm1", "nope"), None, False),
        (("qq1", "mm1", "nope"), ("A", "B", "C"), False),
        (("qq1", "mm1"), ("A", "B"), True),
        (["nope"], None, False),
        ((), None, False),
        (lambda n: n.startswith("q"), None, False),
        (lambda n: n.startswith("q"), lambda n: n + "_x", False),
        (None, lambda n: n.upper(), False),
        (None, str.upper, True),
        (lambda n: False, lambda n: n + "_x", False),
        (("qq1", "qq2", "qq3"), ("only", ), False),
        (iter(["qq1", "ii1"]), None, True),
    ):
        title = f"src={src if not callable(src) else 'FUNC'!r} tgt={tgt if not callable(tgt) else 'FUNC'!r} strict={strict}"
        if hasattr(src, "__next__"):
            title = "src=ITER tgt=None strict=True"
            src_list = list(src)
            mk = lambda: iter(src_list)
        else:
            mk = lambda: src
        attempt("resolve " + title, lambda: tuple(tuple(x) for x in base._resolve_source_target_names(mk(), tgt, strict)[:2]))
        def do_copy():
            c = base.copy(mk(), tgt, strict)
            dump_db("copy " + title, c)
            # Deep copy: series are distinct objects
            out("    deep:", all(c[k] is not v for k, v in zip(c.keys(), c.values()) if isinstance(v, Series) and any(v is w for w in base.values())) , [k for k in c.keys() if isinstance(c[k], Series) and any(c[k] is w for w in base.values())])
        attempt("copy " + title, do_copy)
        def do_shallow():
            c = base.shallow(mk(), tgt, strict)
            dump_db("shallow " + title, c)
            out("    same objects:", all(any(v is w for w in base.values()) for v in c.values()))
        attempt("shallow " + title, do_shallow)
        def do_rename():
            c = base.shallow()
            r = c.rename(mk(), tgt, strict)
            out("    rename returns", r)
            dump_db("rename " + title, c)
        attempt("rename " + title, do_rename)
        if tgt is None:
            def do_keep():
                c = base.shallow()
                r = c.keep(mk(), strict)
                out("    keep returns", type(r).__name__)
                dump_db("keep " + title, c)
            attempt("keep " + title, do_keep)
            def do_remove():
                c = base.shallow()
                r = c.remove(mk(), strict)
                out("    remove returns", r)
                dump_db("remove " + title, c)
            attempt("remove " + title, do_remove)
    attempt("rename strict missing", lambda: base.shallow().rename(("nope", ), ("x", ), strict_names=True))
    attempt("remove strict missing", lambda: base.shallow().remove(("nope", ), strict_names=True))
    attempt("keep strict missing", lambda: base.shallow().keep(("nope", "qq1"), strict_names=True))
    attempt("copy strict missing", lambda: base.copy(("nope", ), strict_names=True))
    # rename swapping / chained
    c = base.shallow(("qq1", "qq2", "mm1"))
    c.rename(("qq1", "qq2"), ("qq2", "qq1"))
    dump_db("rename swap", c)
    c = base.shallow(("qq1", "qq2", "mm1"))
    c.rename(("qq1", "mm1"), ("mm1", "zz"))
    dump_db("rename chain", c)

    # --- info
    out("names", base.get_names(), base.get_names(filter=lambda n: "1" in n))
    out("missing", base.get_missing_names(("qq1", "x", "y")), base.has("qq1"), base.has(("qq1", "x")), base.has(["qq1", "lst"]), base.num_items)
    out("filter", base.filter(), base.filter(name_test=lambda n: n < "m"), base.filter(value_test=lambda v: isinstance(v, Series) and v.shape[1] > 1), base.filter(name_test=lambda n: n < "m", value_test=lambda v: isinstance(v, Series)))
    for f in Frequency:
        out("by freq", f.name, base.get_series_names_by_frequency(f), [str(p) for p in base.get_span_by_frequency(f)][:3], len(tuple(base.get_span_by_frequency(f))))
    out("to_dict", type(base.to_dict()).__name__, list(base.to_dict().keys()))
    out("from_dict", list(Databox.from_dict({"x": 1, "y": [2]}).items()), Databox.empty())
    out("array_from_series", fmt_array(base.array_from_series(("qq1", "qq2"), ir.qq(2019, 4) >> ir.qq(2020, 2), variant=0)), fmt_array(base.array_from_series(("qq2", ), ir.qq(2019, 4) >> ir.qq(2020, 2), variant=1)))
    it = Databox(a=1, b=[1, 2, 3], c="ab", d=(x for x in (5, 6))).iter_variants()
    out("iter_variants", [next(it) for _ in range(4)])
    it = Databox(a=1, b=[1, 2, 3]).iter_variants(keys=("b", "zz"))
    out("iter_variants keys", [next(it) for _ in range(4)])
    out("or", list((Databox(a=1, b=2) | {"b": 3, "c": 4}).items()))
    out("call", base("scalar"), base(" scalar + 1 "), base("lst[1] + k", {"k": 10}))

    # --- validate
    v = {"scalar": (lambda x: x > 0, "must be positive"), "lst": (lambda x: len(x) == 2, ), "nope": (lambda x: True, "nope")}
    attempt("validate none", lambda: base.validate(None))
    attempt("validate error", lambda: base.validate(v))
    attempt("validate strict", lambda: base.validate(v, strict_names=True, when_fails="error"))
    attempt("validate ok", lambda: base.validate({"scalar": (lambda x: x > 0, "must be positive")}))
    attempt("validate silent", lambda: base.validate(v, when_fails="silent"))

    # --- apply
    c = base.copy()
    c.apply(lambda x: x * 2, source_names=("scalar", "qq3"), in_place=False)
    c.apply(lambda x: x.append(4), source_names="lst")
    dump_db("apply", c.shallow(("scalar", "qq3", "lst")))
    attempt("apply fails", lambda: base.copy().apply(lambda x: x + 1, source_names=("txt", "scalar"), in_place=False, when_fails="error"))
    c = base.copy()
    attempt("apply silent", lambda: c.apply(lambda x: x + 1, source_names=("txt", "scalar", "qq3"), in_place=False, when_fails="silent"))
    dump_db("apply silent", c.shallow(("txt", "scalar", "qq3")))

    # --- overlay / underlay
    def make_other():
        o = Databox()
        o["qq1"] = Series(start=ir.qq(2019, 1), values=np.full((16, 1), 1000.0))
        o["qq2"] = Series(start=ir.qq(2022, 1), values=np.array([[1.0, 2.0], [np.nan, 4.0], [5.0, np.nan]]))
        o["qq3"] = Series(start=ir.qq(2021, 1), values=np.array([[-1.0], [-2.0], [-3.0], [np.nan], [-5.0], [-6.0]]))
        o["mm1"] = Series(start=ir.qq(2020, 1), values=np.array([[5.0], [6.0]]))   # frequency mismatch
        o["ii1"] = Series(start=ir.ii(-5), values=np.arange(12.0).reshape(12, 1))
        o["dd1"] = Series(start=ir.dd(2020, 2, 24), values=np.full((14, 2), -7.0))
        o["yy2"] = Series(start=ir.yy(1996), values=np.array([[1.0, 2, 3], [4, 5, 6], [7, 8, 9], [10, 11, 12], [13, 14, 15]]))
        o["scalar"] = 100
        o["lst"] = Series(start=ir.qq(2020, 1), values=np.array([[5.0]]))
        o["new"] = Series(start=ir.qq(2020, 1), values=np.array([[5.0]]))
        o["hh1"] = Series()
        return o
    dump_db("other", make_other())
    for method in ("overlay", "underlay"):
        for kwargs in (
            dict(),
            dict(names=("qq1", "qq3", "nope")),
            dict(names=("qq1", "ii1"), strict_names=True),
            dict(names=["dd1", "yy2", "mm1", "hh1"]),
            dict(names=()),
        ):
            c, o = base.copy(), make_other()
            o_before = o.copy()
            r = getattr(c, method)(o, **kwargs)
            out(f"{method} {kwargs!r} returns {r}")
            dump_db(f"{method} {kwargs!r}", c)
            out("    other untouched:", all(fmt_value(o[k]) == fmt_value(o_before[k]) for k in o.keys()), list(o.keys()) == list(o_before.keys()))
            out("    unselected untouched:", [k for k in c.keys() if fmt_value(c[k]) != fmt_value(base[k])])
        attempt(f"{method} strict missing", lambda: getattr(base.copy(), method)(make_other(), names=("nope", ), strict_names=True))
        attempt(f"{method} non series strict", lambda: getattr(base.copy(), method)(make_other(), names=("scalar", ), strict_names=True))
        attempt(f"{method} non series", lambda: getattr(base.copy(), method)(make_other(), names=("scalar", )))
    c = base.copy()
    c["empty"] = Series()
    o = make_other()
    o["empty"] = Series(start=ir.qq(2020, 1), values=np.array([[5.0]]))
    attempt("overlay with empty self series", lambda: c.overlay(o))
    dump_db("overlay with empty self series", c.shallow(("empty", "qq1")))

    # --- clip
    for args in (
        (None, None),
        (ir.qq(2020, 2), None),
        (None, ir.qq(2020, 2)),
        (ir.qq(2020, 2), ir.qq(2021, 1)),
        (ir.qq(2030, 1), None),
        (None, ir.qq(2000, 1)),
        (ir.yy(2000), ir.yy(2003)),
        (ir.dd(2020, 2, 29), ir.dd(2020, 3, 1)),
        (ir.ii(-1), ir.ii(3)),
        (ir.mm(2021, 1), None),
        (ir.hh(2011, 1), ir.hh(2011, 2)),
    ):
        c = base.copy()
        r = attempt(f"clip {tuple(str(a) for a in args)}", lambda: c.clip(*args))
        dump_db(f"clip {tuple(str(a) for a in args)}", c)
        out("    changed:", [k for k in c.keys() if fmt_value(c[k]) != fmt_value(base[k])])
    attempt("clip mixed freq", lambda: base.copy().clip(ir.qq(2020, 1), ir.mm(2020, 1)))

    # --- prepend
    for end in (ir.qq(2020, 2), ir.qq(2019, 1), ir.qq(2025, 1), ir.ii(0), ir.dd(2020, 2, 27), ir.yy(1999)):
        c, o = base.copy(), make_other()
        o_before = o.copy()
        r = attempt(f"prepend {end}", lambda: c.prepend(o, end))
        dump_db(f"prepend {end}", c)
        out("    other untouched:", all(fmt_value(o[k]) == fmt_value(o_before[k]) for k in o.keys()))
        out("    changed:", [k for k in c.keys() if fmt_value(c[k]) != fmt_value(base[k])])

    # --- merge
    def mk(i):
        d = Databox()
        d["s"] = Series(start=ir.qq(2020, i), values=np.array([[float(i)], [float(10 * i)]]), description=f"s{i}")
        d["x"] = i
        d["l"] = [i, i]
        d[f"only{i}"] = f"only{i}"
        if i == 2:
            d["m"] = Series(start=ir.mm(2020, 1), values=np.array([[1.0, 2.0]]))
            d["t"] = "text"
        if i == 3:
            d["m"] = Series(start=ir.mm(2020, 3), values=np.array([[3.0]]))
            d["t"] = ["a", "b"]
        return d
    for strategy in ("stack", "hstack", "replace", "discard", "silent", "warning", "error", "critical", "bogus"):
        def do_merge():
            a = mk(1)
            r = a.merge(mk(2), strategy)
            out("    returns", r)
            dump_db(f"merge single {strategy}", a)
        attempt(f"merge single {strategy}", do_merge)
        def do_merge_many():
            a = mk(1)
            a.merge([mk(2), mk(3)], merge_strategy=strategy)
            dump_db(f"merge many {strategy}", a)
        attempt(f"merge many {strategy}", do_merge_many)
        def do_by_merging():
            a = Databox.by_merging((mk(1), mk(2), mk(3)), strategy)
            dump_db(f"by_merging {strategy}", a)
        attempt(f"by_merging {strategy}", do_by_merging)
    def do_merge_action():
        a = mk(1)
        a.merge(mk(2), action="replace")
        dump_db("merge action", a)
    attempt("merge legacy action", do_merge_action)
    def do_merge_dict():
        a = mk(1)
        a.merge({"x": 5, "q": 6})
        a.merge(iter([{"x": 7}, Databox(q=8)]))
        dump_db("merge dict", a)
    attempt("merge plain dict", do_merge_dict)
    a = mk(1)
    a.merge((), "stack")
    dump_db("merge nothing", a)

    # --- sequences of operations
    c = base.copy()
    o = make_other()
    c.rename(lambda n: n.startswith("qq"), lambda n: n.replace("qq", "q_"))
    o.rename(lambda n: n.startswith("qq"), lambda n: n.replace("qq", "q_"))
    c.clip(ir.qq(2020, 2), ir.qq(2021, 2))
    c.underlay(o, names=("q_1", "q_3"))
    c.overlay(o, names=("q_2", ))
    c.keep(lambda n: n.startswith("q_") or n in ("scalar", "ii1"))
    c.merge(Databox(q_1=Series(start=ir.qq(2020, 1), values=np.array([[0.0]])), scalar=[1], fresh=1), "stack")
    c.remove("ii1")
    c.prepend(o, ir.qq(2019, 4))
    dump_db("sequence", c)
    dump_db("sequence copy renamed", c.copy(lambda n: n.startswith("q_"), lambda n: n.upper()))

    # --- max_abs
    m = base.max_abs(base.copy())
    dump_db("max_abs", m)


def main():
    with tempfile.TemporaryDirectory() as tmp:
        csv_roundtrips(tmp)
    dataslates()
    databox_ops()
    text = "\n".join(_LINES)
    print("DIGEST", hashlib.sha256(text.encode("utf-8")).hexdigest(), len(_LINES))


if __name__ == "__main__":
    main()

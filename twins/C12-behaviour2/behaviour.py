"""
Behaviour digest for property C12 (aggregation / disaggregation / arip).

Run with
    cd /tmp/wt2/C12 && PYTHONPATH=/tmp/wt2/C12/src /venv/bin/python /tmp/twin2_out/C12/behaviour.py

Prints a deterministic digest: every number is printed with repr() (full
precision), so any floating-point difference in the results shows up.
"""

import warnings
warnings.simplefilter("ignore")

import hashlib
import itertools
import numpy as np
import irispie as ir
from irispie.series import _conversions as cv
from irispie.series import arip as ar

S = ir.Series.from_start_and_array
NAN = float("nan")
LINES = []


def emit(*args):
    line = " ".join(str(a) for a in args)
    LINES.append(line)
    print(line)


def fmt_data(data):
    return "[" + "; ".join(
        ",".join(repr(float(x)) for x in row) for row in np.asarray(data, dtype=float)
    ) + "]"


def show(label, series):
    if series is None:
        emit(label, "-> None")
        return
    emit(label, "->", str(series.start_date), series.data.shape, fmt_data(series.data))


def attempt(label, func):
    try:
        show(label, func())
    except Exception as exc:
        emit(label, "-> EXC", type(exc).__name__, str(exc)[:120])


rng = np.random.default_rng(20240612)


def make_values(num_periods, num_variants, missing):
    data = np.round(rng.uniform(0.5, 9.5, size=(num_periods, num_variants)), 3)
    if missing == "some":
        mask = rng.uniform(size=data.shape) < 0.15
        data[mask] = np.nan
    elif missing == "negative":
        data = data - 5
    return data


# ---------------------------------------------------------------------------
# 1. Rate / percent / difference conversions
# ---------------------------------------------------------------------------
emit("# conversions")
FREQS = [ir.YEARLY, ir.HALFYEARLY, ir.QUARTERLY, ir.MONTHLY, ir.WEEKLY, ir.DAILY]
for f, t in itertools.product(FREQS, FREQS):
    for roc in (1.02, 0.97, 1, 2.5, 0.0):
        emit("roc", f.name, t.name, roc, repr(ir.convert_roc(roc, f, t)))
    for pct in (5, -3.5, 0, 120, np.float64(2.25)):
        emit("pct", f.name, t.name, pct, repr(ir.convert_pct(pct, f, t)))
    for diff in (3, -0.75, 0, np.float64(1e6), NAN):
        emit("diff", f.name, t.name, diff, repr(cv.convert_diff(diff, f, t)))
for bad in ((-2.0, ir.YEARLY, ir.QUARTERLY), ("1.5", ir.QUARTERLY, ir.YEARLY), (NAN, ir.YEARLY, ir.MONTHLY)):
    for name, func in (("roc", ir.convert_roc), ("pct", ir.convert_pct), ("diff", cv.convert_diff)):
        try:
            emit(name, bad[0], bad[1].name, bad[2].name, repr(func(*bad)))
        except Exception as exc:
            emit(name, bad[0], "EXC", type(exc).__name__)
# integer frequencies passed as plain numbers
emit("roc-int", repr(ir.convert_roc(1.1, 1, 4)), repr(ir.convert_pct(10, 4, 1)), repr(cv.convert_diff(2, 12, 4)))


# ---------------------------------------------------------------------------
# 2. Aggregation, regular -> regular
# ---------------------------------------------------------------------------
emit("# aggregate regular")
METHODS = ["mean", "sum", "prod", "first", "last", "min", "max", "geometric_mean", None]
STARTS = {
    "M": [ir.mm(2019, 1), ir.mm(2020, 2), ir.mm(2021, 11)],
    "Q": [ir.qq(2020, 1), ir.qq(2020, 2), ir.qq(2021, 4)],
    "H": [ir.hh(2020, 1), ir.hh(2021, 2)],
}
TARGETS = {
    "M": [ir.QUARTERLY, ir.HALFYEARLY, ir.YEARLY],
    "Q": [ir.HALFYEARLY, ir.YEARLY],
    "H": [ir.YEARLY],
}
for key, starts in STARTS.items():
    for start, length, nv, missing in itertools.product(starts, (1, 7, 26), (1, 3), ("none", "some", "negative")):
        data = make_values(length, nv, missing)
        x = S(start, data, trim=False)
        for target in TARGETS[key]:
            for method in METHODS:
                if method == "geometric_mean" and missing == "negative":
                    continue
                for discard in (None, False, True):
                    label = f"agg {start} n={length} v={nv} {missing} ->{target.name} {method} discard={discard}"
                    attempt(label, lambda: ir.aggregate(x, target, method=method, discard_missing=discard))
            attempt(f"agg {start} n={length} ->{target.name} select=[0]",
                    lambda: ir.aggregate(x, target, method="sum", select=[0]))
            attempt(f"agg {start} n={length} ->{target.name} select=(0,-1) discard",
                    lambda: ir.aggregate(x, target, method="mean", select=(0, -1), discard_missing=True))
            attempt(f"agg {start} n={length} ->{target.name} legacy remove_missing",
                    lambda: ir.aggregate(x, target, method="last", remove_missing=True))
            attempt(f"agg {start} n={length} ->{target.name} callable",
                    lambda: ir.aggregate(x, target, method=lambda w: float(np.nansum(w)) - len(w)))

# In-place form, same frequency, invalid directions, empty series
x = S(ir.qq(2020, 1), np.arange(1.0, 13.0))
y = x.copy()
emit("inplace returns", y.aggregate(ir.YEARLY, method="sum"))
show("inplace result", y)
show("original untouched", x)
attempt("same freq", lambda: ir.aggregate(x, ir.QUARTERLY))
attempt("finer target", lambda: ir.aggregate(x, ir.MONTHLY))
attempt("unknown target", lambda: ir.aggregate(x, ir.Frequency.UNKNOWN))
attempt("empty series", lambda: ir.aggregate(ir.Series(), ir.YEARLY))
attempt("bad method", lambda: ir.aggregate(x, ir.YEARLY, method="median"))
attempt("all-missing discard", lambda: ir.aggregate(
    S(ir.qq(2020, 1), np.array([1, 2, 3, 4, NAN, NAN, NAN, NAN, 5, 6, 7, 8.0])), ir.YEARLY, discard_missing=True))
attempt("empty select", lambda: ir.aggregate(x, ir.YEARLY, select=[]))
attempt("integer target", lambda: ir.aggregate(x, ir.Frequency.INTEGER))
attempt("integer source", lambda: ir.aggregate(S(ir.ii(3), np.arange(10.0)), ir.Frequency.UNKNOWN))
attempt("daily to integer", lambda: ir.aggregate(S(ir.dd(2020, 2, 27), np.arange(10.0)), ir.Frequency.INTEGER))
attempt("daily to weekly", lambda: ir.aggregate(S(ir.dd(2020, 2, 27), np.arange(10.0)), ir.WEEKLY))
attempt("select out of range", lambda: ir.aggregate(x, ir.YEARLY, select=[7]))
attempt("select generator", lambda: ir.aggregate(x, ir.YEARLY, method="sum", select=(i for i in (1, 2))))
attempt("2-variant select twice", lambda: ir.aggregate(
    S(ir.mm(2020, 1), np.arange(48.0).reshape(24, 2)), ir.QUARTERLY, method="prod", select=iter([0, 2])))


# ---------------------------------------------------------------------------
# 3. Aggregation, daily -> regular (leap years, month lengths)
# ---------------------------------------------------------------------------
emit("# aggregate daily")
for start, length in ((ir.dd(2019, 12, 30), 800), (ir.dd(2020, 2, 27), 10), (ir.dd(2020, 1, 1), 366), (ir.dd(2023, 3, 1), 45)):
    for nv, missing in ((1, "none"), (2, "some")):
        data = make_values(length, nv, missing)
        d = S(start, data, trim=False)
        for target in (ir.MONTHLY, ir.QUARTERLY, ir.HALFYEARLY, ir.YEARLY):
            for method in ("mean", "sum", "prod", "first", "last", "min", "max"):
                for discard in (False, True):
                    label = f"dagg {start} n={length} v={nv} {missing} ->{target.name} {method} discard={discard}"
                    try:
                        out = ir.aggregate(d, target, method=method, discard_missing=discard)
                        digest = hashlib.sha256(fmt_data(out.data).encode()).hexdigest()[:16]
                        emit(label, "->", str(out.start_date), out.data.shape, digest)
                    except Exception as exc:
                        emit(label, "-> EXC", type(exc).__name__, str(exc)[:100])
            attempt(f"dagg {start} n={length} v={nv} ->{target.name} select",
                    lambda: ir.aggregate(d, target, method="sum", select=[0, 1, -1], discard_missing=True))
days = S(ir.dd(2020, 1, 1), np.ones(731))
show("day counts monthly", ir.aggregate(days, ir.MONTHLY, method="sum"))
show("day counts yearly", ir.aggregate(days, ir.YEARLY, method="sum"))


# ---------------------------------------------------------------------------
# 4. Disaggregation, plain methods, and round trips
# ---------------------------------------------------------------------------
emit("# disaggregate")
LOW = [
    (ir.yy(2020), (ir.HALFYEARLY, ir.QUARTERLY, ir.MONTHLY)),
    (ir.hh(2020, 2), (ir.QUARTERLY, ir.MONTHLY)),
    (ir.qq(2021, 3), (ir.MONTHLY,)),
]
MATCHING = {"flat": ("mean", "first", "last", "min", "max"), "first": ("first",), "last": ("last",), "middle": ()}
for start, targets in LOW:
    for length, nv, missing in itertools.product((1, 5), (1, 2), ("none", "some", "negative")):
        data = make_values(length, nv, missing)
        low = S(start, data, trim=False)
        for target in targets:
            for method in ("flat", "first", "middle", "last"):
                label = f"dis {start} n={length} v={nv} {missing} ->{target.name} {method}"
                attempt(label, lambda: ir.disaggregate(low, target, method=method))
                for agg in MATCHING[method]:
                    attempt(label + f" back {agg}", lambda: ir.aggregate(
                        ir.disaggregate(low, target, method=method), low.frequency, method=agg,
                        discard_missing=(method != "flat")))
attempt("dis same freq", lambda: ir.disaggregate(x, ir.QUARTERLY))
attempt("dis coarser", lambda: ir.disaggregate(x, ir.YEARLY))
attempt("dis bad method", lambda: ir.disaggregate(x, ir.MONTHLY, method="cubic"))


# ---------------------------------------------------------------------------
# 5. ARIP
# ---------------------------------------------------------------------------
emit("# arip")
FORMS = ("rate", "multiplicative", "diff", "additive")
AGGS = ("sum", "mean", "avg", "first", "last")
arip_low = [
    ("y-up", ir.yy(2018), np.array([10.0, 11.0, 12.5, 12.0, 14.0])),
    ("y-two", ir.yy(2018), np.array([[10.0, 3.0], [11.0, 2.5], [NAN, 2.0], [12.0, NAN], [14.0, 1.5]])),
    ("y-edges", ir.yy(2018), np.array([[NAN, 4.0], [5.0, 4.0], [6.0, 4.0], [7.0, NAN]])),
    ("y-single", ir.yy(2020), np.array([3.0])),
    ("y-neg", ir.yy(2018), np.array([-2.0, -1.0, 0.5, 2.0])),
    ("q", ir.qq(2020, 2), np.array([1.0, 1.2, 1.1, 1.5, 1.7, 1.6])),
    ("h", ir.hh(2020, 2), np.array([[100.0, 1.0], [90.0, 1.0], [85.0, 1.0]])),
]
for name, start, data in arip_low:
    low = S(start, data, trim=False)
    highs = {1: (ir.HALFYEARLY, ir.QUARTERLY, ir.MONTHLY), 2: (ir.QUARTERLY, ir.MONTHLY), 4: (ir.MONTHLY,)}[int(low.frequency)]
    for target in highs:
        for form, agg in itertools.product(FORMS, AGGS):
            label = f"arip {name} ->{target.name} {form}/{agg}"
            attempt(label, lambda: ir.disaggregate(low, target, method="arip", model=(form, agg)))
            def back():
                high = ir.disaggregate(low, target, method="arip", model=(form, agg))
                out = ir.aggregate(high, low.frequency, method=ar.CHOOSE_AGGREGATION_FUNC[agg])
                out.data = np.round(out.data, 9)
                return out
            attempt(label + " back", back)
        num_within = int(target) // int(low.frequency)
        weights = tuple(range(1, num_within + 1))
        attempt(f"arip {name} ->{target.name} rate/custom", lambda: ir.disaggregate(low, target, method="arip", model=("rate", weights)))
        attempt(f"arip {name} ->{target.name} diff/custom", lambda: ir.disaggregate(low, target, method="arip", model=("diff", weights)))

# High-frequency targets
low = S(ir.yy(2020), np.array([[4.0, 8.0], [6.0, 9.0], [7.0, NAN], [9.0, 12.0]]))
tgt_partial = S(ir.qq(2020, 3), np.array([1.1, 1.3]))
tgt_full_year = S(ir.qq(2021, 1), np.array([1.2, 1.4, 1.6, 1.8, NAN, 2.0]))
tgt_outside = S(ir.qq(2019, 1), np.array([0.5, 0.6, 0.7, 0.8, 0.9]))
for tname, tgt in (("partial", tgt_partial), ("fullyear", tgt_full_year), ("outside", tgt_outside)):
    for form, agg in itertools.product(("rate", "diff"), ("sum", "mean", "first", "last")):
        attempt(f"arip target {tname} {form}/{agg}", lambda: ir.disaggregate(low, ir.QUARTERLY, method="arip", model=(form, agg), target=tgt))
attempt("arip empty", lambda: ir.disaggregate(ir.Series(), ir.QUARTERLY, method="arip", model=("rate", "sum")))
attempt("arip all-missing", lambda: ir.disaggregate(S(ir.yy(2020), np.array([NAN, NAN, NAN]), trim=False), ir.QUARTERLY, method="arip", model=("rate", "sum")))
attempt("arip all-missing diff", lambda: ir.disaggregate(S(ir.yy(2020), np.array([NAN, NAN, NAN]), trim=False), ir.QUARTERLY, method="arip", model=("diff", "mean")))
attempt("arip zero first", lambda: ir.disaggregate(S(ir.yy(2020), np.array([0.0, 1.0, 2.0])), ir.QUARTERLY, method="arip", model=("rate", "sum")))
attempt("arip bad form", lambda: ir.disaggregate(low, ir.QUARTERLY, method="arip", model=("level", "sum")))
attempt("arip bad aggregation", lambda: ir.disaggregate(low, ir.QUARTERLY, method="arip", model=("rate", "median")))
attempt("arip no model", lambda: ir.disaggregate(low, ir.QUARTERLY, method="arip"))

# The low-level helpers on raw arrays
emit("# arip helpers")
RAW = [
    np.array([1.0, 2.0, 4.0]),
    np.array([NAN, 2.0, NAN, 5.0, NAN]),
    np.array([NAN, NAN]),
    np.array([3.0]),
    np.array([NAN, 3.0, NAN]),
    np.array([-1.0, 2.0, -8.0]),
    np.array([0.0, 2.0, 8.0]),
    np.array([np.inf, 2.0, 3.0, -np.inf]),
    np.array([]),
]
for raw in RAW:
    first, last, num = ar._get_first_last_observations(raw)
    emit("first_last", fmt_data([raw]), repr(None if first is None else float(first)),
         repr(None if last is None else float(last)), int(num), type(num).__name__)
    for lf, hf in ((1, 4), (1, 12), (4, 12), (2, 4)):
        for form in (ar._RateForm, ar._DiffForm):
            rho = form.get_rho(lf, hf, raw)
            const = form.get_constant(lf, hf, raw)
            sigma = form.get_sigma_vector(rho, 5)
            emit(form.__name__, lf, hf, repr(rho), type(rho).__name__, repr(const), type(const).__name__, fmt_data([sigma]))
out = ar.disaggregate_arip_data(
    iter([np.array([4.0, 6.0, NAN, 9.0]), np.array([8.0, 9.0, 10.0, 12.0])]),
    np.full((16,), NAN), ("rate", "sum"), 4, 1, 4,
)
emit("arip_data", type(out).__name__, len(out), fmt_data(out))

emit("# digest")
print(hashlib.sha256("\n".join(LINES).encode()).hexdigest())

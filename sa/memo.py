"""
MEMO: cache-invalidation discipline.

Two rules about memoised values, both structural:

  memo_attr_rule   a method decorated with functools.cached_property / cache / lru_cache answers from the first call
                   for ever; it is sound only if every instance attribute it reads (directly or through other
                   methods/properties of the class it uses) is never re-assigned after construction. The rule
                   computes the read set transitively inside the class and the set of attributes stored by methods
                   other than the constructors, and reports a non-empty intersection with both sites.

  memo_arg_rule    a memo container handed explicitly to a memoising function (first argument) stands for one
                   sequence of results: all call sites passing the same container must pass the same remaining
                   arguments, and call sites passing different arguments must pass different containers.

Both rules carry a tiny positive example that must fire on every run, so a rule that has zero instances on
today's tree (no cached_property in irispie.dates today) cannot pass vacuously by being broken.
"""
from __future__ import annotations

import ast

from .core import AnalysisError, dotted, unparse, walk_no_nested, squash

MEMO_DECORATORS = ("cached_property", "cache", "lru_cache")
CONSTRUCTORS = ("__init__", "__new__", "__setstate__", "__post_init__")


def _is_memo_decorator(d) -> bool:
    if isinstance(d, ast.Call):
        d = d.func
    name = dotted(d) or ""
    return name.split(".")[-1] in MEMO_DECORATORS


def _self_name(f):
    a = f.args.posonlyargs + f.args.args
    return a[0].arg if a else None


def _class_methods(cls: ast.ClassDef, mro_lookup=None):
    """name -> [FunctionDef, ...] (property setters share a name) for the class and, through mro_lookup, its bases."""
    out = {}
    classes = [cls]
    seen = {cls.name}
    while classes:
        c = classes.pop(0)
        for st in c.body:
            if isinstance(st, (ast.FunctionDef, ast.AsyncFunctionDef)):
                out.setdefault(st.name, []).append(st)
        if mro_lookup:
            for b in c.bases:
                bn = (dotted(b) or "").split(".")[-1]
                bc = mro_lookup(bn)
                if bc is not None and bc.name not in seen:
                    seen.add(bc.name)
                    classes.append(bc)
    return out


def reads_of(f, methods) -> tuple[set, set]:
    """(attributes read on self, methods/properties of the class used) by one function."""
    s = _self_name(f)
    reads, used = set(), set()
    if s is None:
        return reads, used
    for n in ast.walk(f):
        if isinstance(n, ast.Attribute) and isinstance(n.value, ast.Name) and n.value.id == s and isinstance(n.ctx, ast.Load):
            if n.attr in methods:
                used.add(n.attr)
            else:
                reads.add(n.attr)
    return reads, used


def transitive_reads(f, methods) -> dict:
    """attribute -> chain of method names through which it is read."""
    out = {}
    todo = [(f, (f.name,))]
    seen = {f.name}
    while todo:
        g, chain = todo.pop()
        r, used = reads_of(g, methods)
        for a in r:
            out.setdefault(a, chain)
        for u in used:
            if u in seen:
                continue
            seen.add(u)
            for h in methods[u]:
                todo.append((h, chain + (u,)))
    return out


def stores_after_construction(methods) -> dict:
    """attribute -> [(method, lineno)] for self.X = / self.X op= / del self.X / setattr(self, "X", ...) outside constructors."""
    out = {}
    for name, fs in methods.items():
        if name in CONSTRUCTORS:
            continue
        for f in fs:
            s = _self_name(f)
            if s is None:
                continue
            for n in ast.walk(f):
                tgt = None
                if isinstance(n, ast.Attribute) and isinstance(n.value, ast.Name) and n.value.id == s and isinstance(n.ctx, (ast.Store, ast.Del)):
                    tgt = n.attr
                elif isinstance(n, ast.Call) and dotted(n.func) == "setattr" and len(n.args) >= 2 and isinstance(n.args[0], ast.Name) \
                        and n.args[0].id == s:
                    tgt = n.args[1].value if isinstance(n.args[1], ast.Constant) else "*"
                if tgt is not None:
                    out.setdefault(tgt, []).append((name, n.lineno))
    return out


def memo_attr_findings(cls: ast.ClassDef, mro_lookup=None):
    """Yield (memo method, ok, detail) for each memoised method of the class."""
    methods = _class_methods(cls, mro_lookup)
    stores = stores_after_construction(methods)
    for name, fs in methods.items():
        for f in fs:
            if not any(_is_memo_decorator(d) for d in f.decorator_list):
                continue
            tr = transitive_reads(f, methods)
            clash = sorted(a for a in tr if a in stores or "*" in stores)
            if clash:
                a = clash[0]
                who = stores.get(a) or stores.get("*")
                yield f, False, (f"memoised {name} reads self.{a}" + (f" (through {'.'.join(tr[a][1:])})" if len(tr[a]) > 1 else "")
                                 + f", which {who[0][0]} (line {who[0][1]}) re-assigns after construction: the cached answer goes stale")
            else:
                yield f, True, f"memoised {name} reads only attributes fixed at construction: {sorted(tr)}"


def memo_arg_findings(calls, memo_index=0):
    """calls: [(label, ast.Call)] of one memoising function; yields (label, ok, detail)."""
    by_memo, by_args = {}, {}
    for label, c in calls:
        memo = squash(c.args[memo_index])
        rest = tuple(squash(a) for i, a in enumerate(c.args) if i != memo_index) + tuple(f"{k.arg}={squash(k.value)}" for k in c.keywords)
        by_memo.setdefault(memo, []).append((label, rest))
        by_args.setdefault(rest, []).append((label, memo))
    for label, c in calls:
        memo = squash(c.args[memo_index])
        rest = tuple(squash(a) for i, a in enumerate(c.args) if i != memo_index) + tuple(f"{k.arg}={squash(k.value)}" for k in c.keywords)
        others = [(l, r) for l, r in by_memo[memo] if r != rest]
        if others:
            yield label, False, f"memo {memo} is shared with {others[0][0]}, which computes from different inputs {others[0][1]} (here {rest})"
        else:
            yield label, True, f"memo {memo} is used only with inputs {rest}"


_POSITIVE_ATTR = '''
class _Example:
    def __init__(self, a): self._a = a
    @_ft.cached_property
    def size(self): return self._width
    @property
    def _width(self): return self._a + 1
    def grow(self): self._a += 1
'''
_NEGATIVE_ATTR = '''
class _Example:
    def __init__(self, a): self._a = a
    @_ft.cached_property
    def size(self): return self._a + 1
    def grown(self): return type(self)(self._a + 1)
'''
_POSITIVE_ARG = "f(self.m1, self.A, k)\nf(self.m1, self.B, k)\nf(self.m2, self.B, k)"


def self_check():
    """The embedded examples must classify as expected, otherwise the rules themselves are broken."""
    pos = list(memo_attr_findings(ast.parse(_POSITIVE_ATTR).body[0]))
    neg = list(memo_attr_findings(ast.parse(_NEGATIVE_ATTR).body[0]))
    if [ok for _, ok, _ in pos] != [False] or [ok for _, ok, _ in neg] != [True]:
        raise AnalysisError("memo_attr_rule self-check failed")
    calls = [(f"c{i}", st.value) for i, st in enumerate(ast.parse(_POSITIVE_ARG).body)]
    got = [ok for _, ok, _ in memo_arg_findings(calls)]
    if got != [False, False, True]:
        raise AnalysisError(f"memo_arg_rule self-check failed: {got}")
    return 2

"""
Resolved model of the Series class: methods from the class body, its Inlay mixins, and every method /
module-level function that `exec` templates generate (expanded from their literal driving tables).
"""
from __future__ import annotations

import ast
import textwrap

from . import fin
from .core import AnalysisError, dotted, unparse, literal
from .tpl import eval_str, NotAString

PKG = "irispie.series"


class Fn:
    def __init__(self, mod, qual, node, generated=False, template=None):
        self.mod, self.qual, self.node, self.generated, self.template = mod, qual, node, generated, template

    @property
    def name(self):
        return self.node.name

    def loc(self):
        return self.mod.loc(self.node) if not self.generated else f"{self.mod.rel} (generated from {self.template})"


def _public_methods(cls: ast.ClassDef):
    names = []
    for st in cls.body:
        if isinstance(st, (ast.FunctionDef, ast.AsyncFunctionDef)) and not st.name.startswith("_"):
            names.append(st.name)
        elif isinstance(st, ast.Assign):
            for t in st.targets:
                if isinstance(t, ast.Name) and not t.id.startswith("_") and isinstance(st.value, (ast.Name, ast.Call)):
                    # aliases like mov_mean = mov_avg, build_zero_paths = partial(...)
                    pass
    return sorted(set(names))


def _module_consts(mod):
    """Evaluate simple module-level literal tables (strings, tuples, dicts incl. {**a, **b} and comprehensions)."""
    env = {}
    for st in mod.tree.body:
        if isinstance(st, ast.Assign) and len(st.targets) == 1 and isinstance(st.targets[0], ast.Name):
            name = st.targets[0].id
            v = st.value
            try:
                if isinstance(v, ast.Dict) and any(k is None for k in v.keys):
                    d = {}
                    for k, vv in zip(v.keys, v.values):
                        if k is None:
                            d.update(env[vv.id])
                        else:
                            d[fin.ev(k, env)] = fin.ev(vv, env)
                    env[name] = d
                elif isinstance(v, ast.Call) and dotted(v.func) == "tuple" and v.args and isinstance(v.args[0], ast.GeneratorExp):
                    g = v.args[0]
                    out = []
                    for item in env_eval(g.generators[0].iter, env):
                        out.append(eval_str(g.elt, {**env, g.generators[0].target.id: item}))
                    env[name] = tuple(out)
                else:
                    env[name] = env_eval(v, env)
            except (fin.NotFinite, NotAString, KeyError, AttributeError, TypeError):
                continue
    return env


_TEXT_FUNCS = {"_tw.dedent": textwrap.dedent, "textwrap.dedent": textwrap.dedent}


def env_eval(node, env):
    try:
        return fin.ev(node, env, _TEXT_FUNCS)
    except fin.NotFinite:
        return eval_str(node, env, _TEXT_FUNCS)


def expand_exec_for(mod, for_node: ast.For, consts: dict, scope_cls: ast.ClassDef | None = None):
    """
    Expand `for <target> in <iterable>: [code = <str expr>]; exec(<str expr>, ...)`.
    Returns list of generated top-level statements with the loop value.
    """
    it = for_node.iter
    src = unparse(it).replace(" ", "")
    values = None
    if src.startswith("attributes") or "dir(Inlay)" in src:
        values = None  # resolved by caller
    try:
        if isinstance(it, ast.Call) and isinstance(it.func, ast.Attribute) and it.func.attr in ("items", "keys") and isinstance(it.func.value, ast.Name):
            d = consts[it.func.value.id]
            values = list(d.items()) if it.func.attr == "items" else list(d.keys())
        elif isinstance(it, ast.Name) and it.id in consts:
            values = list(consts[it.id])
        elif isinstance(it, (ast.Tuple, ast.List)):
            values = [literal(e) for e in it.elts]
    except KeyError:
        values = None
    return values


def run_exec_loop(mod, for_node, values, consts):
    out = []
    funcs = {"_tw.dedent": textwrap.dedent, "textwrap.dedent": textwrap.dedent}
    for val in values:
        env = dict(consts)
        tgt = for_node.target
        if isinstance(tgt, ast.Name):
            env[tgt.id] = val
        elif isinstance(tgt, ast.Tuple):
            for t, v in zip(tgt.elts, val):
                env[t.id] = v
        for st in for_node.body:
            if isinstance(st, ast.Assign) and len(st.targets) == 1 and isinstance(st.targets[0], ast.Name):
                try:
                    env[st.targets[0].id] = eval_str(st.value, env, funcs)
                except NotAString as e:
                    raise AnalysisError(f"cannot expand template at {mod.loc(st)}: {e}")
            elif isinstance(st, ast.Expr) and isinstance(st.value, ast.Call) and dotted(st.value.func) == "exec":
                try:
                    code = eval_str(st.value.args[0], env, funcs)
                except NotAString as e:
                    raise AnalysisError(f"cannot expand exec at {mod.loc(st)}: {e}")
                try:
                    tree = ast.parse(textwrap.dedent(code))
                except SyntaxError as e:
                    raise AnalysisError(f"exec template at {mod.loc(st)} gives invalid code for {val!r}: {e}")
                for g in tree.body:
                    out.append((val, g, mod.loc(st)))
    return out


class SeriesModel:
    def __init__(self, repo):
        self.repo = repo
        self.main = repo.mod(f"{PKG}.main")
        self.methods: dict[str, Fn] = {}
        self.functions: dict[tuple[str, str], Fn] = {}     # (module short name, func name)
        self.generated_methods: list[Fn] = []
        self.generated_functions: list[Fn] = []
        self.inlay_modules = []
        self._build()

    def _build(self):
        cls = self.main.cls("Series")
        func_string = literal(self.repo.mod(f"{PKG}._functionalize").assign("FUNC_STRING"))
        bases = [dotted(b) for b in cls.bases]
        mods = [self.main]
        for b in bases:
            if b and b.endswith(".Inlay"):
                alias = b.split(".")[0]
                tgt = self.main.aliases.get(alias)
                if tgt and tgt in self.repo.modules:
                    mods.append(self.repo.modules[tgt])
        self.inlay_modules = mods[1:]
        # class bodies (later bases are lower priority: iterate reversed so earlier override)
        for mod in reversed(mods):
            c = mod.cls("Series" if mod is self.main else "Inlay")
            consts = _module_consts(mod)
            consts.setdefault("FUNC_STRING", func_string)
            for st in c.body:
                if isinstance(st, (ast.FunctionDef, ast.AsyncFunctionDef)):
                    self.methods[st.name] = Fn(mod, f"{c.name}.{st.name}", st)
                elif isinstance(st, ast.Assign) and isinstance(st.value, ast.Name):
                    for t in st.targets:
                        if isinstance(t, ast.Name) and st.value.id in self.methods:
                            self.methods[t.id] = self.methods[st.value.id]
                elif isinstance(st, ast.For):
                    vals = expand_exec_for(mod, st, consts, c)
                    if vals is None:
                        if any(isinstance(n, ast.Call) and dotted(n.func) == "exec" for n in ast.walk(st)):
                            raise AnalysisError(f"cannot resolve driving table of exec loop at {mod.loc(st)}")
                        continue
                    for val, g, loc in run_exec_loop(mod, st, vals, consts):
                        if isinstance(g, ast.FunctionDef):
                            fn = Fn(mod, f"{c.name}.{g.name}", g, generated=True, template=loc)
                            self.methods[g.name] = fn
                            self.generated_methods.append(fn)
        # module-level functions + generated wrappers
        for mod in mods:
            short = mod.name.split(".")[-1]
            consts = _module_consts(mod)
            consts.setdefault("FUNC_STRING", func_string)
            for st in mod.tree.body:
                if isinstance(st, (ast.FunctionDef, ast.AsyncFunctionDef)):
                    self.functions[(short, st.name)] = Fn(mod, st.name, st)
            for st in mod.tree.body:
                if isinstance(st, ast.For) and any(isinstance(n, ast.Call) and dotted(n.func) == "exec" for n in ast.walk(st)):
                    vals = expand_exec_for(mod, st, consts)
                    if vals is None:
                        src = unparse(st.iter)
                        if src == "attributes":
                            inl = mod.cls("Inlay")
                            vals = _public_methods(inl) + sorted(
                                t.id for s in inl.body if isinstance(s, ast.Assign) for t in s.targets
                                if isinstance(t, ast.Name) and not t.id.startswith("_"))
                        else:
                            raise AnalysisError(f"cannot resolve driving table of exec loop at {mod.loc(st)}")
                    for val, g, loc in run_exec_loop(mod, st, vals, consts):
                        if isinstance(g, ast.FunctionDef):
                            fn = Fn(mod, g.name, g, generated=True, template=loc)
                            self.functions[(short, g.name)] = fn
                            self.generated_functions.append(fn)

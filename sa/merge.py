"""
MERGE: results merged into a caller-supplied target databox.

Databox.__or__ is dict.update on a deep copy of the left operand: on a name clash the RIGHT operand wins. Everywhere the library merges
fresh results into `target_db`, the target is the left operand and the results the right one (`out = target_db | out`), so that a
stale series of the same name in the target is replaced. The rule checks Databox.__or__ itself and every `|` that has `target_db` as
an operand.
"""
from __future__ import annotations

import ast

from .core import unparse, params, squash, strip_docstring


def apply(chk, rid, modules):
    chk.rule(rid, "fresh results win over what the target databox already holds: Databox.__or__ updates a copy of its LEFT operand with the "
             "right one, and every merge into target_db is written `target_db | <results>` (never the other way round)", floor=2, shape_independent=True)
    dm = chk.repo.mod("irispie.databoxes.main")
    orf = dm.func("Databox.__or__")
    chk.saw(dm, "Databox.__or__")
    body = strip_docstring(orf.body)
    ps = params(orf)
    ok = None
    if len(body) >= 2 and isinstance(body[0], ast.Assign) and "deepcopy" in unparse(body[0].value) and unparse(body[0].value.args[0]) == ps[0]:
        new = unparse(body[0].targets[0])
        ok = any(isinstance(st, ast.Expr) and squash(st.value) == f"{new}.update({ps[1]})" for st in body)
    chk.ob(rid, "databoxes.main.Databox.__or__", ok, "a | b = copy of a updated with b: b wins on a name clash", dm.loc(orf), sure=ok is not None)
    n = 0
    for mn in modules:
        m = chk.repo.mod(mn)
        for q, f in m.functions():
            for b in ast.walk(f):
                if isinstance(b, ast.AugAssign) and isinstance(b.op, ast.BitOr) and unparse(b.value) == "target_db":
                    # results |= target_db is dict.__ior__ on the results: the TARGET's series win
                    n += 1
                    chk.saw(m, q)
                    chk.ob(rid, f"{mn.replace('irispie.', '')}.{q}[{unparse(b)}]", False,
                           f"{unparse(b)}: the results are updated in place with the target, so series the target already holds override the results just computed",
                           m.loc(b), sure=True)
                if isinstance(b, ast.BinOp) and isinstance(b.op, ast.BitOr) and "target_db" in (unparse(b.left), unparse(b.right)):
                    n += 1
                    chk.saw(m, q)
                    left = unparse(b.left) == "target_db"
                    chk.ob(rid, f"{mn.replace('irispie.', '')}.{q}[{unparse(b)}]", left,
                           "target on the left, results on the right" if left else
                           f"{unparse(b)}: the target is the RIGHT operand, so series it already holds override the results just computed", m.loc(b), sure=True)
    if n == 0:
        from .core import AnalysisError
        raise AnalysisError("anchor vanished: no merge into target_db found")

"""
ARGS: positional agreement between a callee and its call sites, by name.

Two generic rules over every call whose callee resolves inside the repository (same resolver as GENS):

  swapped arguments    positional arguments i and j are plain names (or attribute names) that are exactly the callee's parameter names
                       j and i: f(b, a) against def f(a, b). (The argument-selection defect of Rice et al., "Detecting argument
                       selection defects", OOPSLA 2017, restricted to exact name matches so that it has no false positives on this tree.)
  swapped unpacking    the callee returns one tuple of plain names on every return, the call is unpacked into a tuple of plain names
                       of the same length, and two of the targets carry each other's returned name: a, b = f() against return b, a.

Both are shape-independent and have zero instances to report on the tree they were written for (1194 resolvable calls examined);
each carries an embedded positive and negative example that must classify correctly on every run.
"""
from __future__ import annotations

import ast

from .core import params, unparse, walk_no_nested


def _name(a):
    if isinstance(a, ast.Name):
        return a.id
    if isinstance(a, ast.Attribute):
        return a.attr
    return None


def swapped_arguments(call, callee):
    ps = params(callee)
    if isinstance(call.func, ast.Attribute) and ps and ps[0] in ("self", "cls", "klass"):
        ps = ps[1:]
    if any(isinstance(a, ast.Starred) for a in call.args):
        return None
    args = [_name(a) for a in call.args]
    for i, a in enumerate(args):
        if a is None or i >= len(ps) or a == ps[i] or a not in ps:
            continue
        j = ps.index(a)
        if j < len(args) and args[j] is not None and args[j] == ps[i] and i < j:
            return (i, j, ps)
    return None


def returned_names(callee):
    rets = [r.value for r in walk_no_nested(callee) if isinstance(r, ast.Return)]
    if not rets:
        return None
    out = None
    for r in rets:
        if not isinstance(r, ast.Tuple) or not all(isinstance(e, ast.Name) for e in r.elts):
            return None
        names = [e.id for e in r.elts]
        if out is not None and names != out:
            return None
        out = names
    return out


def swapped_unpacking(assign, callee):
    t = assign.targets[0]
    if not isinstance(t, ast.Tuple) or not all(isinstance(e, ast.Name) for e in t.elts):
        return None
    ret = returned_names(callee)
    if ret is None or len(ret) != len(t.elts):
        return None
    tg = [e.id for e in t.elts]
    for i in range(len(tg)):
        for j in range(i + 1, len(tg)):
            if tg[i] == ret[j] and tg[j] == ret[i] and tg[i] != tg[j]:
                return (i, j, ret)
    return None


_EXAMPLE = '''
def f(a, b):
    return a, b
def g(a, b):
    return b, a
def caller(a, b):
    x = f(b, a)
    y = f(a, b)
    b, a = f(a, b)
    b, a = g(a, b)
'''


def self_check():
    from .core import AnalysisError
    t = ast.parse(_EXAMPLE)
    fs = {n.name: n for n in t.body}
    calls = [n for n in ast.walk(fs["caller"]) if isinstance(n, ast.Call)]
    got = [swapped_arguments(c, fs[c.func.id]) is not None for c in calls]
    asg = [n for n in fs["caller"].body if isinstance(n, ast.Assign) and isinstance(n.targets[0], ast.Tuple)]
    got2 = [swapped_unpacking(a, fs[a.value.func.id]) is not None for a in asg]
    if got != [True, False, False, False] or got2 != [True, False]:
        raise AnalysisError(f"ARGS self-check failed: {got} {got2}")
    return 2


_INDEX = {}


def apply(chk, rid, packages, floor):
    from . import gens
    chk.rule(rid, "call sites agree with their callee by position: no two positional arguments are plain names that are exactly each other's "
             "parameter names (f(b, a) against def f(a, b)), and no tuple unpacking of a call swaps two names the callee returns "
             "(a, b = f() against return b, a); callees resolved through the repository; scope: the functions this property's rules read", floor=floor, shape_independent=True)
    n_ex = self_check()
    ix = gens._INDEX_CACHE.get(id(chk.repo)) or gens.GenIndex(chk.repo)
    gens._INDEX_CACHE[id(chk.repo)] = ix
    n_calls = n_unpacks = 0
    # only the functions this property's other rules read (and functions nested in them): a swap elsewhere in the package is a
    # defect, but not evidence against this property
    scope = set(chk.analysed_functions)
    for (m, q), f in sorted(ix.funcs.items()):
        top = m.split(".")[1] if "." in m else m
        if top not in packages:
            continue
        if scope and not any(f"{m}:{q}" == s_ or f"{m}:{q}".startswith(s_ + ".") for s_ in scope):
            continue
        mod = chk.repo.modules[m]
        short = m.replace("irispie.", "")
        for n in ast.walk(f):
            if isinstance(n, ast.Call):
                tgt = ix.resolve(m, q, n)
                if tgt is None:
                    continue
                n_calls += 1
                sw = swapped_arguments(n, ix.funcs[tgt])
                if sw:
                    i, j, ps = sw
                    chk.bad(rid, f"{short}.{q}[call {unparse(n.func)}]", f"arguments {i + 1} and {j + 1} of {unparse(n)[:70]} are named like each other's "
                            f"parameters {ps}: they are passed in swapped order", mod.loc(n))
                    chk.saw(mod, q)
            if isinstance(n, ast.Assign) and isinstance(n.value, ast.Call) and len(n.targets) == 1:
                tgt = ix.resolve(m, q, n.value)
                if tgt is None:
                    continue
                n_unpacks += 1
                sw = swapped_unpacking(n, ix.funcs[tgt])
                if sw:
                    i, j, ret = sw
                    chk.bad(rid, f"{short}.{q}[unpack {unparse(n.value.func)}]", f"{unparse(n.targets[0])} = {unparse(n.value.func)}(...) but the callee "
                            f"returns {tuple(ret)}: positions {i + 1} and {j + 1} are swapped", mod.loc(n))
                    chk.saw(mod, q)
    chk.ok(rid, f"{'/'.join(sorted(packages))}[resolved call sites]", f"{n_calls} calls and {n_unpacks} unpacked calls with a callee resolved in the repository "
           f"examined; self-check on the embedded example fired as expected ({n_ex} rules)", "")

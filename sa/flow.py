"""
CFG-equivalent structured dataflow: a syntax-directed walk over the statement kinds the repository uses
(if/elif/else, for/while with else/break/continue, try/except/else/finally, with, match, return, raise).

An Analysis supplies a transfer function over small finite states; the engine propagates *sets* of
states along every path, iterates loops to a fixpoint, and reports the state set at each exit:
    ('return', state, node) | ('fall', state, None) | ('raise', state, node)
Exceptional edges are modelled from explicit `raise` and from calls the analysis declares no-return;
implicit exceptions leave a try body from the state at the start of, or after, any of its statements.
Must-precede rules ask: at every site of effect E, is the state 'guarded'?  Must-follow rules ask: at
every normal exit, is the state 'released'?  Both are decided on all paths.
"""
from __future__ import annotations

import ast


class Analysis:
    def stmt(self, st, state):
        """Transfer for a simple statement (Assign, Expr, AugAssign, ...). Return new state."""
        return state

    def cond(self, test, state, truth: bool):
        """State after `test` evaluated to `truth`; return None to prune an infeasible branch."""
        return state

    def noreturn(self, st) -> bool:
        return False

    def enter_loop_target(self, st, state):
        return state


def run(an: Analysis, body, init):
    """Returns list of exits (kind, state, node)."""
    exits = []
    out = _block(an, list(body), {init}, exits, loop=None)
    for s in out:
        exits.append(("fall", s, None))
    return exits


class _Loop:
    def __init__(self):
        self.breaks = set()
        self.continues = set()


def _block(an, stmts, states, exits, loop):
    for st in stmts:
        if not states:
            return set()
        states = _stmt(an, st, states, exits, loop)
    return states


def _stmt(an, st, states, exits, loop):
    if isinstance(st, (ast.FunctionDef, ast.AsyncFunctionDef, ast.ClassDef, ast.Import, ast.ImportFrom, ast.Pass,
                       ast.Global, ast.Nonlocal)):
        return states
    if isinstance(st, ast.Return):
        for s in states:
            s2 = an.stmt(st, s)
            exits.append(("return", s2, st))
        return set()
    if isinstance(st, ast.Raise):
        for s in states:
            exits.append(("raise", an.stmt(st, s), st))
        return set()
    if isinstance(st, ast.Break):
        if loop is not None:
            loop.breaks |= states
        return set()
    if isinstance(st, ast.Continue):
        if loop is not None:
            loop.continues |= states
        return set()
    if isinstance(st, ast.If):
        out = set()
        t_states, f_states = set(), set()
        for s in states:
            a = an.cond(st.test, s, True)
            b = an.cond(st.test, s, False)
            if a is not None:
                t_states.add(a)
            if b is not None:
                f_states.add(b)
        out |= _block(an, st.body, t_states, exits, loop)
        out |= _block(an, st.orelse, f_states, exits, loop) if st.orelse else f_states
        return out
    if isinstance(st, (ast.For, ast.AsyncFor, ast.While)):
        lp = _Loop()
        seen = set()
        entry = set(states)
        if isinstance(st, ast.While):
            head_in = entry
        else:
            head_in = {an.stmt(ast.Expr(value=st.iter), s) for s in entry}
        exit_states = set()
        work = set(head_in)
        for _ in range(64):
            new = work - seen
            if not new:
                break
            seen |= new
            if isinstance(st, ast.While):
                body_in = {x for x in (an.cond(st.test, s, True) for s in new) if x is not None}
                exit_states |= {x for x in (an.cond(st.test, s, False) for s in new) if x is not None}
            else:
                body_in = {an.enter_loop_target(st, s) for s in new}
                exit_states |= new          # iterator may be exhausted at any head visit
            after = _block(an, st.body, body_in, exits, lp)
            work = after | lp.continues
            lp.continues = set()
        # normal exhaustion -> orelse ; break skips orelse
        out = _block(an, st.orelse, exit_states, exits, loop) if st.orelse else exit_states
        return out | lp.breaks
    if isinstance(st, (ast.With, ast.AsyncWith)):
        cur = states
        for it in st.items:
            cur = {an.stmt(ast.Expr(value=it.context_expr), s) for s in cur}
        return _block(an, st.body, cur, exits, loop)
    if isinstance(st, ast.Try) or (hasattr(ast, "TryStar") and isinstance(st, ast.TryStar)):
        inner_exits = []
        seen_in_body = set(states)
        cur = set(states)
        for b in st.body:
            cur = _stmt(an, b, cur, inner_exits, loop)
            seen_in_body |= cur
        # raises inside the body may be caught by handlers
        caught = set()
        for kind, s, node in inner_exits:
            if kind == "raise" and st.handlers:
                caught.add(s)
            else:
                exits.append((kind, s, node))
        out = _block(an, st.orelse, cur, exits, loop) if st.orelse else cur
        if st.handlers:
            h_in = seen_in_body | caught
            for h in st.handlers:
                out |= _block(an, h.body, set(h_in), exits, loop)
        if st.finalbody:
            out = _block(an, st.finalbody, out, exits, loop)
        return out
    if isinstance(st, ast.Match):
        out = set()
        subj = {an.stmt(ast.Expr(value=st.subject), s) for s in states}
        exhaustive = False
        for case in st.cases:
            out |= _block(an, case.body, set(subj), exits, loop)
            if isinstance(case.pattern, ast.MatchAs) and case.pattern.pattern is None and case.guard is None:
                exhaustive = True
        if not exhaustive:
            out |= subj
        return out
    # simple statement
    if an.noreturn(st):
        for s in states:
            exits.append(("raise", an.stmt(st, s), st))
        return set()
    return {an.stmt(st, s) for s in states}

"""
Twin fuzzer: mechanical behaviour-preserving rewrites of the functions a property's check consults; the check must stay silent.

  rename   every local variable of one function (names bound by assignment / for / with / comprehension in that function, not
           parameters, not names declared global/nonlocal, not names also used as keyword-argument names or attributes is irrelevant
           because only ast.Name positions are rewritten) gets the suffix `_rn`; one variant per function.

usage:  /venv/bin/python tools/twinfuzz.py C19 [-j 16] [--kind rename]
Prints the obligations that fired per variant (each one is a false alarm of a text-matching rule).
"""
import ast, json, os, shutil, subprocess, sys, tempfile
from concurrent.futures import ThreadPoolExecutor

V = "/verif"
SRC = os.environ.get("IRISPIE_VERIF_SRC") or "/repo/src/irispie"
PY = "/venv/bin/python"


def locals_of(f):
    params = {a.arg for a in f.args.posonlyargs + f.args.args + f.args.kwonlyargs}
    if f.args.vararg:
        params.add(f.args.vararg.arg)
    if f.args.kwarg:
        params.add(f.args.kwarg.arg)
    declared = set()
    bound = set()
    for n in ast.walk(f):
        if isinstance(n, (ast.Global, ast.Nonlocal)):
            declared |= set(n.names)
        if isinstance(n, ast.Name) and isinstance(n.ctx, ast.Store):
            bound.add(n.id)
        if isinstance(n, (ast.FunctionDef, ast.ClassDef)) and n is not f:
            bound.discard(n.name)
    # names of nested defs / imports inside are left alone
    nested_defs = {n.name for n in ast.walk(f) if isinstance(n, (ast.FunctionDef, ast.ClassDef)) and n is not f}
    # a nested function's own parameters must not be renamed by position either
    nested_params = set()
    for n in ast.walk(f):
        if isinstance(n, (ast.FunctionDef, ast.Lambda)) and n is not f:
            a = n.args
            nested_params |= {x.arg for x in a.posonlyargs + a.args + a.kwonlyargs}
            if a.vararg:
                nested_params.add(a.vararg.arg)
            if a.kwarg:
                nested_params.add(a.kwarg.arg)
    return {b for b in bound if b not in params and b not in declared and b not in nested_defs and b not in nested_params and not b.startswith("__")}


def rename_variant(path, qual):
    """new source text with the locals of function `qual` renamed, or None"""
    text = open(path).read()
    tree = ast.parse(text)
    node = tree
    for part in qual.split("."):
        node = next((n for n in ast.iter_child_nodes(node) if isinstance(n, (ast.FunctionDef, ast.ClassDef, ast.AsyncFunctionDef)) and n.name == part), None)
        if node is None:
            return None
    if not isinstance(node, (ast.FunctionDef, ast.AsyncFunctionDef)):
        return None
    names = locals_of(node)
    if not names:
        return None
    # exec/eval/locals() users: skip
    if any(isinstance(n, ast.Call) and isinstance(n.func, ast.Name) and n.func.id in ("exec", "eval", "locals", "vars") for n in ast.walk(node)):
        return None
    pos = sorted({(n.lineno, n.col_offset, n.id) for n in ast.walk(node) if isinstance(n, ast.Name) and n.id in names}, reverse=True)
    lines = text.split("\n")
    for ln, col, nm in pos:
        line = lines[ln - 1]
        # col_offset is in utf8 bytes
        b = line.encode("utf8")
        if b[col:col + len(nm.encode())] != nm.encode():
            return None
        b = b[:col] + (nm + "_rn").encode() + b[col + len(nm.encode()):]
        lines[ln - 1] = b.decode("utf8")
    new = "\n".join(lines)
    try:
        compile(new, path, "exec")
    except SyntaxError:
        return None
    return new


def run_variant(prop, rel, new_text):
    td = tempfile.mkdtemp(prefix=f"sa_twinfuzz_{prop}_")
    try:
        dst = os.path.join(td, "irispie")
        shutil.copytree(SRC, dst, ignore=shutil.ignore_patterns("__pycache__", "*.pyc", "executables"))
        open(os.path.join(dst, rel), "w").write(new_text)
        r = subprocess.run([PY, "-m", "sa.check", prop, "--no-evidence"], cwd=V, env=dict(os.environ, IRISPIE_VERIF_SRC=dst), capture_output=True, text=True, timeout=600)
        viol = [l for l in r.stdout.splitlines() if " — rule " in l]
        err = [l for l in r.stdout.splitlines() if "ANALYSIS-ERROR" in l]
        return r.returncode, viol, err
    finally:
        shutil.rmtree(td, ignore_errors=True)


def run_for(prop, funcs, jobs=16, limit=None):
    """rename-locals twins for the given consulted functions; returns (number of variants, [(function, rc, reports)] that fired)"""
    work = []
    for fq in funcs:
        mod, qual = fq.split(":")
        rel = mod.replace("irispie.", "").replace(".", "/") + ".py"
        path = os.path.join(SRC, rel)
        if not os.path.exists(path):
            rel = mod.replace("irispie.", "").replace(".", "/") + "/__init__.py"
            path = os.path.join(SRC, rel)
            if not os.path.exists(path):
                continue
        new = rename_variant(path, qual)
        if new is not None:
            work.append((fq, rel, new))
    if limit and len(work) > limit:
        import random
        work = random.Random(int(os.environ.get("VERIF_SEED", "0") or 0)).sample(work, limit)
    with ThreadPoolExecutor(max_workers=jobs) as ex:
        res = list(ex.map(lambda w: (w[0],) + run_variant(prop, w[1], w[2]), work))
    return len(work), [(fq, rc, (viol + err)[:3]) for fq, rc, viol, err in res if rc != 0]


def main():
    prop = sys.argv[1].upper()
    jobs = int(sys.argv[sys.argv.index("-j") + 1]) if "-j" in sys.argv else 16
    ev = json.load(open(f"{V}/evidence/{prop}.json"))
    funcs = ev["coverage"]["analysed"]["functions_consulted"]
    work = []
    for fq in funcs:
        mod, qual = fq.split(":")
        rel = mod.replace("irispie.", "").replace(".", "/") + ".py"
        path = os.path.join(SRC, rel)
        if not os.path.exists(path):
            rel = mod.replace("irispie.", "").replace(".", "/") + "/__init__.py"
            path = os.path.join(SRC, rel)
            if not os.path.exists(path):
                continue
        new = rename_variant(path, qual)
        if new is not None:
            work.append((fq, rel, new))
    with ThreadPoolExecutor(max_workers=jobs) as ex:
        res = list(ex.map(lambda w: (w[0],) + run_variant(prop, w[1], w[2]), work))
    bad = 0
    for fq, rc, viol, err in res:
        if rc != 0:
            bad += 1
            print(f"FIRED rc={rc} rename-locals {fq}")
            for v in (viol + err)[:6]:
                print("      ", v[:230])
    print(f"[{prop}] rename twins: {len(work)} functions, {bad} made the check fire")
    return 1 if bad else 0


if __name__ == "__main__":
    sys.exit(main())

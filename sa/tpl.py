"""
TPL: abstract interpretation of straight-line *string-building* code.

Strings are evaluated from the AST (f-strings, +, %, .format, .join, .replace, .lower/.upper, .strip)
with holes bound to literal marker strings. This is constant folding of string expressions lifted
from the source; no repository code is imported or called.
"""
from __future__ import annotations

import ast

from .core import AnalysisError, dotted, unparse, strip_docstring


class NotAString(Exception):
    pass


def eval_str(node, env: dict, funcs: dict | None = None):
    """
    Evaluate a string-valued expression. env: name -> str | int | list[str] | tuple.
    funcs: dotted call name -> python callable over evaluated args (for repo helpers that the caller
    has itself interpreted, e.g. shift(code, k)).
    """
    funcs = funcs or {}

    def ev(n):
        if isinstance(n, ast.Constant):
            return n.value
        if isinstance(n, ast.Name):
            if n.id in env:
                return env[n.id]
            raise NotAString(f"unbound name {n.id}")
        if isinstance(n, ast.Attribute):
            d = dotted(n)
            if d in env:
                return env[d]
            raise NotAString(f"unbound attribute {d}")
        if isinstance(n, ast.JoinedStr):
            out = []
            for v in n.values:
                if isinstance(v, ast.Constant):
                    out.append(str(v.value))
                elif isinstance(v, ast.FormattedValue):
                    val = ev(v.value)
                    spec = ""
                    if v.format_spec is not None:
                        spec = ev(v.format_spec)
                    if v.conversion == ord("r"):
                        val = repr(val)
                    elif v.conversion == ord("s"):
                        val = str(val)
                    if spec:
                        if isinstance(val, str) and val.startswith("‹"):
                            out.append(f"{val[:-1]}:{spec}›")
                            continue
                        try:
                            out.append(format(val, spec))
                        except Exception:
                            raise NotAString(f"format spec {spec!r} on {val!r}")
                    else:
                        out.append(str(val))
                else:
                    raise NotAString("joined str part")
            return "".join(out)
        if isinstance(n, ast.BinOp):
            if isinstance(n.op, ast.Add):
                a, b = ev(n.left), ev(n.right)
                if isinstance(a, (str, int, list, tuple)) and type(a) is type(b):
                    return a + b
                raise NotAString("+ on mixed types")
            if isinstance(n.op, ast.Sub):
                a, b = ev(n.left), ev(n.right)
                if isinstance(a, int) and isinstance(b, int):
                    return a - b
                raise NotAString("- on non-ints")
            if isinstance(n.op, ast.Mult):
                a, b = ev(n.left), ev(n.right)
                if isinstance(a, (str, int)) and isinstance(b, int) or isinstance(a, int) and isinstance(b, str):
                    return a * b
                raise NotAString("* on mixed types")
            if isinstance(n.op, ast.Mod):
                a, b = ev(n.left), ev(n.right)
                if isinstance(a, str):
                    return a % b
            raise NotAString("binop")
        if isinstance(n, ast.UnaryOp) and isinstance(n.op, ast.USub):
            v = ev(n.operand)
            if isinstance(v, int):
                return -v
            raise NotAString("unary minus on non-int")
        if isinstance(n, (ast.Tuple, ast.List)):
            return [ev(e) for e in n.elts]
        if isinstance(n, (ast.ListComp, ast.GeneratorExp)) and len(n.generators) == 1 and not n.generators[0].ifs:
            g = n.generators[0]
            seq = ev(g.iter)
            out = []
            for item in seq:
                env2 = dict(env)
                _bind(g.target, item, env2)
                out.append(eval_str(n.elt, env2, funcs))
            return out
        if isinstance(n, ast.Call):
            name = dotted(n.func)
            if name in funcs:
                return funcs[name](*[ev(a) for a in n.args], **{k.arg: ev(k.value) for k in n.keywords})
            if name == "range":
                return list(range(*[ev(a) for a in n.args]))
            if name == "str" and len(n.args) == 1:
                return str(ev(n.args[0]))
            if name == "int" and len(n.args) == 1:
                return int(ev(n.args[0]))
            if name == "abs" and len(n.args) == 1:
                return abs(ev(n.args[0]))
            if name == "len" and len(n.args) == 1:
                return len(ev(n.args[0]))
            if isinstance(n.func, ast.Attribute):
                meth = n.func.attr
                recv = ev(n.func.value)
                args = [ev(a) for a in n.args]
                kws = {k.arg: ev(k.value) for k in n.keywords}
                if isinstance(recv, str) and meth in ("join", "format", "replace", "lower", "upper", "strip",
                                                      "lstrip", "rstrip", "removeprefix", "removesuffix", "split", "title",
                                                      "startswith", "endswith", "isdigit", "isalpha"):
                    if meth == "join":
                        return recv.join(str(x) for x in args[0])
                    return getattr(recv, meth)(*args, **kws)
            raise NotAString(f"call {unparse(n)[:60]}")
        if isinstance(n, ast.IfExp):
            t = ev_test(n.test)
            return ev(n.body) if t else ev(n.orelse)
        if isinstance(n, ast.BoolOp):
            val = None
            for v in n.values:
                val = ev(v)
                if isinstance(n.op, ast.Or) and val:
                    return val
                if isinstance(n.op, ast.And) and not val:
                    return val
            return val
        if isinstance(n, ast.Subscript):
            base = ev(n.value)
            idx = ev(n.slice) if not isinstance(n.slice, ast.Slice) else slice(
                ev(n.slice.lower) if n.slice.lower else None, ev(n.slice.upper) if n.slice.upper else None,
                ev(n.slice.step) if n.slice.step else None)
            try:
                return base[idx]
            except Exception:
                raise NotAString("subscript")
        raise NotAString(f"{type(n).__name__}: {unparse(n)[:60]}")

    def ev_test(t):
        if isinstance(t, ast.Compare) and len(t.ops) == 1:
            a, b = ev(t.left), ev(t.comparators[0])
            op = t.ops[0]
            try:
                if isinstance(op, ast.Eq): return a == b
                if isinstance(op, ast.NotEq): return a != b
                if isinstance(op, ast.Lt): return a < b
                if isinstance(op, ast.Gt): return a > b
                if isinstance(op, ast.LtE): return a <= b
                if isinstance(op, ast.GtE): return a >= b
                if isinstance(op, ast.Is): return a is b
                if isinstance(op, ast.IsNot): return a is not b
            except TypeError:
                raise NotAString("comparison of incomparable values")
        if isinstance(t, ast.UnaryOp) and isinstance(t.op, ast.Not):
            return not ev_test(t.operand)
        if isinstance(t, ast.BoolOp):
            vals = [ev_test(v) for v in t.values]
            return all(vals) if isinstance(t.op, ast.And) else any(vals)
        v = ev(t)
        return bool(v)

    return ev(node)


def _bind(target, value, env):
    if isinstance(target, ast.Name):
        env[target.id] = value
    elif isinstance(target, (ast.Tuple, ast.List)):
        vals = list(value)
        star = [i for i, t in enumerate(target.elts) if isinstance(t, ast.Starred)]
        if star:
            i = star[0]
            after = len(target.elts) - i - 1
            if len(vals) < len(target.elts) - 1:
                raise NotAString("unpack arity")
            for t, v in zip(target.elts[:i], vals[:i]):
                _bind(t, v, env)
            _bind(target.elts[i].value, vals[i:len(vals) - after], env)
            for t, v in zip(target.elts[i + 1:], vals[len(vals) - after:]):
                _bind(t, v, env)
            return
        if len(vals) != len(target.elts):
            raise NotAString("unpack arity")
        for t, v in zip(target.elts, vals):
            _bind(t, v, env)
    else:
        raise NotAString("bind target")


def run_str_function(f: ast.FunctionDef, args: dict, funcs=None, globals_env=None):
    """
    Interpret a straight-line string-building function: assignments, if/else on evaluable tests, return.
    Returns the returned value.
    """
    env = dict(globals_env or {})
    env.update(args)

    class _Ret(Exception):
        def __init__(self, v): self.v = v

    def run(stmts):
        for st in stmts:
            if isinstance(st, ast.Expr) and isinstance(st.value, ast.Constant):
                continue
            if isinstance(st, ast.Pass):
                continue
            if isinstance(st, ast.Return):
                raise _Ret(eval_str(st.value, env, funcs))
            if isinstance(st, ast.Assign):
                v = eval_str(st.value, env, funcs)
                for t in st.targets:
                    _bind(t, v, env)
                continue
            if isinstance(st, ast.AugAssign) and isinstance(st.target, ast.Name) and isinstance(st.op, (ast.Add, ast.Sub, ast.Mult)):
                v = eval_str(st.value, env, funcs)
                cur = env[st.target.id]
                if isinstance(st.op, ast.Add):
                    env[st.target.id] = cur + v
                elif isinstance(st.op, ast.Sub):
                    if not (isinstance(cur, int) and isinstance(v, int)):
                        raise NotAString("-= on non-ints")
                    env[st.target.id] = cur - v
                else:
                    env[st.target.id] = cur * v
                continue
            if isinstance(st, ast.If):
                t = eval_str(ast.IfExp(test=st.test, body=ast.Constant(True), orelse=ast.Constant(False)), env, funcs)
                run(st.body if t else st.orelse)
                continue
            raise NotAString(f"statement {type(st).__name__}")

    try:
        run(strip_docstring(f.body))
    except _Ret as r:
        return r.v
    return None


def expand_exec_loop(mod, exec_call: ast.Call, loop_values: dict, extra_env: dict | None = None):
    """
    For `for n in <literal>: exec(<template string expr>)`, evaluate the template for every loop value
    and parse it. Yields (value, FunctionDef|ClassDef|stmt) for each top-level statement generated.
    loop_values: {'n': [..values..]} (one loop variable, or tuple target given as 'a,b' -> list of tuples)
    """
    (var, values), = loop_values.items()
    out = []
    for val in values:
        env = dict(extra_env or {})
        if "," in var:
            for k, v in zip(var.split(","), val):
                env[k.strip()] = v
        else:
            env[var] = val
        try:
            code = eval_str(exec_call.args[0], env)
        except NotAString as e:
            raise AnalysisError(f"cannot expand exec template at {mod.loc(exec_call)}: {e}")
        try:
            tree = ast.parse(code)
        except SyntaxError as e:
            raise AnalysisError(f"exec template at {mod.loc(exec_call)} expands to invalid code for {val!r}: {e}")
        for st in tree.body:
            out.append((val, st))
    return out


def find_exec_loops(mod):
    """Yield (for_node, exec_call) for module-level `for ...: exec(...)` generators."""
    for st in ast.walk(mod.tree):
        if isinstance(st, ast.For):
            for n in ast.walk(st):
                if isinstance(n, ast.Call) and dotted(n.func) == "exec":
                    yield st, n

"""
CORE: loader, anchors, obligations, findings, evidence.

Nothing here imports or executes irispie. Source root is /repo/src/irispie unless
IRISPIE_VERIF_SRC points at a scratch copy (used only by the checker self-test).
"""
from __future__ import annotations

import ast
import hashlib
import json
import os
import re
import sys
import time
from dataclasses import dataclass, field
from pathlib import Path

VERIF = Path(__file__).resolve().parent.parent
DEFAULT_SRC = Path("/repo/src/irispie")


class AnalysisError(Exception):
    """Checker cannot decide: vanished anchor, parse failure, instance floor. Exit 2."""


def src_root() -> Path:
    return Path(os.environ.get("IRISPIE_VERIF_SRC", str(DEFAULT_SRC)))


# ----------------------------------------------------------------------------
# Loader
# ----------------------------------------------------------------------------

ACCESS_LOG: list = []          # (module, qualname) looked up by the rules; consumed per obligation (see Check.ob)
ALL_ACCESS: list = []          # the same, never consumed (Check.guard takes the slice of one rule)


class Module:
    def __init__(self, name: str, path: Path, rel: str, source: str):
        self.name = name
        self.path = path
        self.rel = rel
        self.source = source
        self.digest = hashlib.sha256(source.encode()).hexdigest()[:16]
        try:
            self.tree = ast.parse(source, filename=str(path))
        except SyntaxError as e:  # pragma: no cover
            raise AnalysisError(f"cannot parse {rel}: {e}")
        # renamed locals are translated back to the names the rules were written against (sa/renames.py); alpha-renaming is
        # behaviour-preserving, the table decides nothing
        self.renamed = []
        if not os.environ.get("VERIF_NO_RENAMES"):
            from . import renames
            try:
                self.renamed = renames.normalise_module(name, self.tree)
            except Exception:           # the normaliser is an aid, never a reason to fail
                self.renamed = []
        for node in ast.walk(self.tree):
            for ch in ast.iter_child_nodes(node):
                ch._parent = node  # type: ignore[attr-defined]
        self.tree._parent = None  # type: ignore[attr-defined]
        self._aliases = None

    # -- lookup ---------------------------------------------------------------
    def _lookup(self, qual: str):
        ACCESS_LOG.append((self.name, qual))
        ALL_ACCESS.append((self.name, qual))
        node = self.tree
        for part in qual.split("."):
            found = None
            body = getattr(node, "body", [])
            stack = list(body)
            # search direct body first, then bodies of compound statements (if/try/for)
            while stack:
                st = stack.pop(0)
                if isinstance(st, (ast.FunctionDef, ast.AsyncFunctionDef, ast.ClassDef)):
                    if st.name == part:
                        found = st  # keep the LAST definition, like Python does
                    continue
                for f in ("body", "orelse", "finalbody", "handlers"):
                    for x in getattr(st, f, []) or []:
                        if isinstance(x, ast.ExceptHandler):
                            stack.extend(x.body)
                        else:
                            stack.append(x)
            if found is None:
                return None
            node = found
        return node

    def has(self, qual: str) -> bool:
        return self._lookup(qual) is not None

    def func(self, qual: str) -> ast.FunctionDef:
        n = self._lookup(qual)
        if not isinstance(n, (ast.FunctionDef, ast.AsyncFunctionDef)):
            raise AnalysisError(f"anchor vanished: function {self.name}:{qual}")
        return n

    def cls(self, qual: str) -> ast.ClassDef:
        n = self._lookup(qual)
        if not isinstance(n, ast.ClassDef):
            raise AnalysisError(f"anchor vanished: class {self.name}:{qual}")
        return n

    def assign(self, name: str, scope: ast.AST | None = None, required=True):
        """Value of the last simple assignment `name = ...` / `name: T = ...` in scope body."""
        scope = scope or self.tree
        val = None
        for st in scope.body:
            if isinstance(st, ast.Assign):
                for t in st.targets:
                    if isinstance(t, ast.Name) and t.id == name:
                        val = st.value
            elif isinstance(st, ast.AnnAssign) and isinstance(st.target, ast.Name):
                if st.target.id == name and st.value is not None:
                    val = st.value
        if val is None and required:
            raise AnalysisError(f"anchor vanished: assignment {self.name}:{name}")
        return val

    def class_attr(self, cls: str, name: str, required=True):
        return self.assign(name, self.cls(cls), required=required)

    def methods(self, cls: str) -> dict[str, ast.FunctionDef]:
        out = {}
        for st in self.cls(cls).body:
            if isinstance(st, (ast.FunctionDef, ast.AsyncFunctionDef)):
                out[st.name] = st
        return out

    def functions(self):
        """Yield (qualname, node) for every function at any depth."""
        def rec(node, prefix):
            for st in ast.iter_child_nodes(node):
                if isinstance(st, (ast.FunctionDef, ast.AsyncFunctionDef)):
                    q = f"{prefix}{st.name}"
                    yield q, st
                    yield from rec(st, q + ".")
                elif isinstance(st, ast.ClassDef):
                    yield from rec(st, f"{prefix}{st.name}.")
                elif isinstance(st, (ast.If, ast.Try, ast.For, ast.While, ast.With)):
                    yield from rec(st, prefix)
        yield from rec(self.tree, "")

    # -- import aliases -----------------------------------------------------------
    @property
    def aliases(self) -> dict[str, str]:
        """local name -> dotted target ('numpy', 'irispie.dates', 'irispie.dates.Period')"""
        if self._aliases is not None:
            return self._aliases
        out: dict[str, str] = {}
        pkg_parts = self.name.split(".")
        is_pkg = self.path.name == "__init__.py"
        for node in ast.walk(self.tree):
            if isinstance(node, ast.Import):
                for a in node.names:
                    out[a.asname or a.name.split(".")[0]] = a.name if a.asname else a.name.split(".")[0]
            elif isinstance(node, ast.ImportFrom):
                if node.level:
                    base = pkg_parts if is_pkg else pkg_parts[:-1]
                    base = base[: len(base) - (node.level - 1)] if node.level > 1 else base
                    mod = ".".join(base + ([node.module] if node.module else []))
                else:
                    mod = node.module or ""
                for a in node.names:
                    out[a.asname or a.name] = f"{mod}.{a.name}" if mod else a.name
        self._aliases = out
        return out

    def loc(self, node) -> str:
        return f"{self.rel}:{getattr(node, 'lineno', 0)}"


class Repo:
    def __init__(self, root: Path | None = None):
        self.root = Path(root) if root else src_root()
        if not self.root.is_dir():
            raise AnalysisError(f"source root missing: {self.root}")
        self.modules: dict[str, Module] = {}
        for p in sorted(self.root.rglob("*.py")):
            relp = p.relative_to(self.root)
            parts = list(relp.with_suffix("").parts)
            if parts[-1] == "__init__":
                parts = parts[:-1]
            name = ".".join(["irispie"] + parts)
            try:
                text = p.read_text(encoding="utf-8")
            except Exception as e:
                raise AnalysisError(f"cannot read {p}: {e}")
            self.modules[name] = Module(name, p, "src/irispie/" + str(relp), text)
        if len(self.modules) < 100:
            raise AnalysisError(f"only {len(self.modules)} modules parsed under {self.root}")

    def mod(self, name: str) -> Module:
        if not name.startswith("irispie"):
            name = "irispie." + name
        m = self.modules.get(name)
        if m is None:
            raise AnalysisError(f"anchor vanished: module {name}")
        ALL_ACCESS.append((name, None))
        return m

    def digest(self, names=None) -> str:
        h = hashlib.sha256()
        for n in sorted(names or self.modules):
            h.update(self.mod(n).digest.encode())
        return h.hexdigest()[:16]


# ----------------------------------------------------------------------------
# AST helpers
# ----------------------------------------------------------------------------

def unparse(node) -> str:
    try:
        return ast.unparse(node)
    except Exception:  # pragma: no cover
        return "<?>"


def norm_stmt(node) -> str:
    """Normalised statement text used in finding keys (never line numbers)."""
    return " ".join(unparse(node).split())


def dotted(node) -> str | None:
    """a.b.c -> 'a.b.c' for Name/Attribute chains; else None."""
    parts = []
    while isinstance(node, ast.Attribute):
        parts.append(node.attr)
        node = node.value
    if isinstance(node, ast.Name):
        parts.append(node.id)
        return ".".join(reversed(parts))
    return None


def call_name(node) -> str | None:
    if isinstance(node, ast.Call):
        return dotted(node.func)
    return None


def strip_docstring(body):
    if body and isinstance(body[0], ast.Expr) and isinstance(body[0].value, ast.Constant) and isinstance(body[0].value.value, str):
        return body[1:]
    return body


def is_str_expr_stmt(st) -> bool:
    return isinstance(st, ast.Expr) and isinstance(st.value, ast.Constant) and isinstance(st.value.value, str)


def literal(node):
    """ast.literal_eval that raises AnalysisError."""
    try:
        return ast.literal_eval(node)
    except Exception:
        raise AnalysisError(f"expected a literal, got {unparse(node)[:80]}")


def walk_no_nested(node):
    """Walk a function body without descending into nested defs/lambdas/classes."""
    stack = list(ast.iter_child_nodes(node))
    while stack:
        n = stack.pop()
        yield n
        if isinstance(n, (ast.FunctionDef, ast.AsyncFunctionDef, ast.ClassDef, ast.Lambda)):
            continue
        stack.extend(ast.iter_child_nodes(n))


def parent_chain(node):
    while getattr(node, "_parent", None) is not None:
        node = node._parent
        yield node


def enclosing_function(node):
    for p in parent_chain(node):
        if isinstance(p, (ast.FunctionDef, ast.AsyncFunctionDef)):
            return p
    return None


# ----------------------------------------------------------------------------
# Obligations / findings / evidence
# ----------------------------------------------------------------------------

OK, VIOLATED, UNDECIDED = "ok", "violated", "undecided"


@dataclass
class Obligation:
    rule: str
    construct: str
    status: str
    detail: str = ""
    loc: str = ""
    facts: dict | None = None
    deps: tuple = ()

    @property
    def key(self) -> str:
        return f"{self.rule}:{self.construct}"


def load_known_findings() -> list[dict]:
    p = VERIF / "known_findings.json"
    if not p.exists():
        return []
    return json.loads(p.read_text())["findings"]


class Check:
    """One run of one property's rules."""

    def __init__(self, prop: str, tier: str, repo: Repo | None = None):
        self.prop = prop
        self.tier = tier
        self.t0 = time.time()
        self.repo = repo or Repo()
        self.obs: list[Obligation] = []
        self.notes: list[str] = []
        self.floors: dict[str, int] = {}
        self.analysed_functions: set[str] = set()
        self.analysed_files: set[str] = set()
        self.unresolved: list[str] = []
        self.rules_text: dict[str, str] = {}
        self.extra: dict = {}
        self.assumptions: list[str] = []
        self.shape_independent: set[str] = set()
        self.aborted: list = []
        self.seed = int(os.environ.get("VERIF_SEED", "0") or 0)

    # -- recording -----------------------------------------------------------------
    def rule(self, rid: str, text: str, floor: int = 1, shape_independent: bool = False):
        """shape_independent: the rule's extraction does not depend on the statement shapes of the functions it reads (generic
        engines: effects, memo, variants, one-shot iterators, name resolution, ...); its violations are never downgraded."""
        self.rules_text[rid] = text
        self.floors[rid] = floor
        if shape_independent:
            self.shape_independent.add(rid)

    def saw(self, mod: Module, qual: str | None = None):
        self.analysed_files.add(mod.rel)
        if qual:
            self.analysed_functions.add(f"{mod.name}:{qual}")

    def ob(self, rule: str, construct: str, ok, detail: str = "", loc: str = "", facts=None, sure: bool = False):
        """sure=True: the verdict comes from an extractor that fully understood the code it read (a finite evaluation that ran to the
        end, an algebraic comparison of two normal forms); such a violation stands even in a function rewritten since the rule was
        written. Extractors that cannot read a shape say undecided, so they never reach here with a wrong `False`."""
        if rule not in self.rules_text:
            raise AnalysisError(f"internal: rule {rule} used before being declared")
        status = OK if ok is True else VIOLATED if ok is False else UNDECIDED
        deps = tuple(dict.fromkeys(ACCESS_LOG))
        del ACCESS_LOG[:]
        o = Obligation(rule, construct, status, detail, loc, facts, deps)
        o.sure = bool(sure)
        self.obs.append(o)
        return ok

    def ok(self, rule, construct, detail="", loc="", facts=None):
        return self.ob(rule, construct, True, detail, loc, facts)

    def bad(self, rule, construct, detail="", loc="", facts=None, sure=False):
        return self.ob(rule, construct, False, detail, loc, facts, sure=sure)

    def undecided(self, rule, construct, detail="", loc="", facts=None):
        return self.ob(rule, construct, None, detail, loc, facts)

    def note(self, text: str):
        self.notes.append(text)

    def guard(self, fn, *args, **kw):
        """Run one rule; an AnalysisError inside it (vanished anchor, unrecognised table, ...) aborts that rule only. Whether the
        abort is the tree's doing (functions renamed / restructured since the rule was written: reported as undecided) or the
        checker's (the consulted code is unchanged: ANALYSIS-ERROR, exit 2) is decided in finish()."""
        before = set(self.floors)
        mark = len(ALL_ACCESS)
        try:
            return fn(*args, **kw)
        except AnalysisError as e:
            deps = tuple(dict.fromkeys(ALL_ACCESS[mark:]))
            del ACCESS_LOG[:]
            self.aborted.append((getattr(fn, "__name__", str(fn)), str(e), deps, set(self.floors) - before))
            return None

    # -- finishing ------------------------------------------------------------------
    def finish(self, write_evidence=True) -> int:
        known = [k for k in load_known_findings() if k.get("property") == self.prop]
        open_keys = {k["key"]: k for k in known if k.get("status") == "open"}
        counts: dict[str, int] = {}
        for o in self.obs:
            counts[o.rule] = counts.get(o.rule, 0) + 1
        restructured = self._restructured_functions()
        self._downgrade_in_restructured(restructured, open_keys)
        self._triage_aborted_rules()
        for rid, fl in self.floors.items():
            if counts.get(rid, 0) < fl:
                changed = restructured or self._any_consulted_change()
                if changed and counts.get(rid, 0) > 0:
                    self.notes.append(f"rule {rid} matched {counts.get(rid, 0)} instance(s), fewer than the {fl} confirmed on the tree it was written "
                                      f"for; code it reads changed since ({', '.join(sorted(changed))[:200]}), so this is reported, not failed")
                    continue
                raise AnalysisError(
                    f"instance floor: rule {rid} matched {counts.get(rid, 0)} instance(s), "
                    f"expected at least {fl} (a rule matching too little passes vacuously)")
        viol = [o for o in self.obs if o.status == VIOLATED]
        new_viol, known_hit = [], []
        seen = set()
        for o in viol:
            if o.key in seen:
                continue
            seen.add(o.key)
            (known_hit if o.key in open_keys else new_viol).append(o)
        for o in known_hit:
            print(f"KNOWN-FINDING: property={self.prop} {o.key} — {open_keys[o.key].get('what', o.detail)}")
        stale = [k for k in open_keys if k not in {o.key for o in viol}]
        for k in stale:
            self.notes.append(f"listed known finding no longer reported on this tree: {k}")
        replay_dir = VERIF / "replay" / self.prop
        for o in new_viol:
            replay_dir.mkdir(parents=True, exist_ok=True)
            fn = replay_dir / (hashlib.sha1(o.key.encode()).hexdigest()[:12] + ".json")
            fn.write_text(json.dumps({
                "property": self.prop, "rule": o.rule, "construct": o.construct,
                "key": o.key, "detail": o.detail, "loc": o.loc, "facts": o.facts,
                "rule_text": self.rules_text.get(o.rule, ""),
            }, indent=1, default=str))
            print(f"{o.loc} {o.construct} — rule {o.rule} — {o.detail}")
            print(f"VIOLATION property={self.prop} replay={fn}")
        n_ok = sum(1 for o in self.obs if o.status == OK)
        n_und = sum(1 for o in self.obs if o.status == UNDECIDED)
        print(f"[{self.prop}] tier={self.tier} rules={len(self.rules_text)} obligations={len(self.obs)} "
              f"discharged={n_ok} undecided={n_und} violated={len(viol)} "
              f"(known={len(known_hit)}, new={len(new_viol)}) files={len(self.analysed_files)} "
              f"functions={len(self.analysed_functions)} wall={time.time() - self.t0:.2f}s")
        for rid in sorted(self.rules_text):
            print(f"    {rid}: {counts.get(rid, 0)} instance(s) (floor {self.floors[rid]})")
        for o in self.obs:
            if o.status == UNDECIDED:
                print(f"    UNDECIDED {o.key} — {o.detail}")
        for n in self.notes:
            print(f"    NOTE {n}")
        if os.environ.get("VERIF_LIST"):
            for o in self.obs:
                print(f"    {o.status:9s} {o.key} — {o.detail[:200]}")
        if write_evidence:
            self._write_evidence(n_ok, n_und, viol, known_hit, new_viol, counts)
        return 1 if new_viol else 0

    # -- functions rewritten since the rules were confirmed ------------------------------------------
    RESTRUCTURE_THRESHOLD = 4       # statements changed/added/removed in one function; a realistic defect edits fewer

    def _function_at(self, loc: str):
        """(module name, qualname, node) of the innermost function containing file:line"""
        if ":" not in loc:
            return None
        rel, _, line = loc.rpartition(":")
        try:
            line = int(line)
        except ValueError:
            return None
        mod = next((m for m in self.repo.modules.values() if m.rel == rel), None)
        if mod is None:
            return None
        best = None
        for q, f in mod.functions():
            if f.lineno <= line <= (f.end_lineno or f.lineno):
                if best is None or f.lineno >= best[2].lineno:
                    best = (mod.name, q, f)
        return best

    def _any_consulted_change(self) -> dict:
        """{module:function -> reason} for functions of the consulted modules that differ from the reference tree at all (or are new, or
        gone). Used only to decide whether an instance-floor shortfall is the tree's doing."""
        from . import renames
        tab = renames.table()
        if not tab or os.environ.get("VERIF_NO_RENAMES"):
            return {}
        out = {}
        for mod in self.repo.modules.values():
            if mod.rel not in self.analysed_files or mod.name not in tab:
                continue
            have = {q: f for q, f in mod.functions()}
            for q in tab[mod.name]:
                if q not in have:
                    out[f"{mod.name}:{q}"] = "gone"
            for q, f in have.items():
                if q not in tab[mod.name]:
                    out[f"{mod.name}:{q}"] = "new"
                elif renames.function_locals(f) != set(tab[mod.name][q]["locals"]) or (renames.edit_distance_to_reference(mod.name, q, f) or (0, 0))[0] >= 1:
                    out[f"{mod.name}:{q}"] = "changed"
            if len(out) > 5:
                break
        return out

    def _restructured_functions(self) -> dict:
        """{module:qualname -> reason} for every function looked up or reported on by this check that differs from the reference
        tree (sa/refnames.json) by RESTRUCTURE_THRESHOLD statements or more, or that the reference does not know."""
        from . import renames
        if not renames.table() or os.environ.get("VERIF_NO_RENAMES"):
            return {}
        cands = {}
        for o in self.obs:
            for (mn, q) in o.deps:
                cands[(mn, q)] = None
            fa = self._function_at(o.loc) if o.status == VIOLATED else None
            if fa:
                cands[(fa[0], fa[1])] = fa[2]
        out = {}
        for (mn, q), node in cands.items():
            mod = self.repo.modules.get(mn)
            if mod is None:
                continue
            if node is None:
                n = mod._lookup(q)
                del ACCESS_LOG[-1:]
                node = n if isinstance(n, (ast.FunctionDef, ast.AsyncFunctionDef)) else None
            if node is None:
                continue
            d = renames.edit_distance_to_reference(mn, q, node)
            if d is None:
                if mn in renames.table():
                    out[f"{mn}:{q}"] = "not in the reference tree (new or renamed function)"
            elif d[0] >= self.RESTRUCTURE_THRESHOLD or (d[0] >= 1 and d[1] and d[0] / d[1] >= float(os.environ.get("VERIF_RESTRUCTURE_RATIO", "0.5"))):
                # a small function is rewritten when half of its statements differ: the absolute threshold alone never triggers there
                out[f"{mn}:{q}"] = f"{d[0]} of {d[1]} statements differ from the reference tree"
        return out

    def _triage_aborted_rules(self):
        """An aborted rule is excused (reported, exit code unaffected) only when the code it reads changed relative to the reference
        tree: a function it looked up differs from the reference, is new, or a function of a consulted module disappeared (renamed or
        removed). On an unchanged tree an abort is the checker's fault and fails the run (exit 2)."""
        if not self.aborted:
            return
        from . import renames
        tab = renames.table()
        for name, msg, deps, declared in self.aborted:
            excuse = None
            mods = {mn for (mn, q) in deps}
            m_ = re.search(r"(irispie(?:\.\w+)+):", msg)
            if m_:
                mods.add(m_.group(1))
            for (mn, q) in deps:
                if q is None:
                    continue
                mod = self.repo.modules.get(mn)
                node = mod._lookup(q) if mod else None
                del ACCESS_LOG[-1:]
                if isinstance(node, (ast.FunctionDef, ast.AsyncFunctionDef)):
                    d = renames.edit_distance_to_reference(mn, q, node)
                    if d is None and mn in tab:
                        excuse = f"{mn}:{q} is not in the reference tree"
                    elif d is not None and d[0] >= 1:
                        excuse = f"{mn}:{q} differs from the reference tree in {d[0]} statement(s)"
                if excuse:
                    break
            if not excuse and tab and not os.environ.get("VERIF_NO_RENAMES"):
                mods |= {m.name for m in self.repo.modules.values() if m.rel in self.analysed_files}
                for mn in sorted(mods):
                    mod = self.repo.modules.get(mn)
                    if mod is None or mn not in tab:
                        continue
                    have = {q: f for q, f in mod.functions()}
                    gone = [q for q in tab[mn] if q not in have]
                    if gone:
                        excuse = f"function(s) of {mn} known to the reference tree no longer exist under that name: {gone[:3]}"
                        break
                    fresh = [q for q in have if q not in tab[mn]]
                    if fresh:
                        excuse = f"{mn} has functions the reference tree does not know: {fresh[:3]}"
                        break
                    for q, f in have.items():
                        if renames.function_locals(f) != set(tab[mn][q]["locals"]) or (renames.edit_distance_to_reference(mn, q, f) or (0, 0))[0] >= 1:
                            excuse = f"{mn}:{q} differs from the reference tree"
                            break
                    if excuse:
                        break
            if excuse:
                self.notes.append(f"UNDECIDED rule {name} could not run ({msg}); the code it reads changed since it was written: {excuse}")
                for rid in declared:
                    self.floors[rid] = 0
            else:
                raise AnalysisError(msg)

    def _downgrade_in_restructured(self, restructured: dict, open_keys: dict):
        """A violation whose rule depends on statement shapes, located in (or computed from) a function that was substantially rewritten
        since the rule's instances were confirmed, is reported as undecided: the extraction is not trusted there. Violations of
        shape-independent rules and violations in functions that differ by a few statements (what a defect looks like) stand."""
        if not restructured:
            return
        for o in self.obs:
            if o.status != VIOLATED or o.rule in self.shape_independent or o.key in open_keys or getattr(o, "sure", False):
                continue
            names = [f"{mn}:{q}" for (mn, q) in o.deps]
            fa = self._function_at(o.loc)
            if fa:
                names.append(f"{fa[0]}:{fa[1]}")
            hit = [n for n in names if n in restructured]
            if hit:
                o.status = UNDECIDED
                o.detail = (f"[not decided: {hit[0]} was restructured since this rule was confirmed ({restructured[hit[0]]}); "
                            f"the rule reads statement shapes and does not recognise the new ones] " + o.detail)

    def _write_evidence(self, n_ok, n_und, viol, known_hit, new_viol, counts):
        distinct = {o.key for o in self.obs if o.status in (OK, VIOLATED)}
        samples = []
        per_rule_seen: dict[str, int] = {}
        for o in self.obs:
            if per_rule_seen.get(o.rule, 0) >= 3:
                continue
            per_rule_seen[o.rule] = per_rule_seen.get(o.rule, 0) + 1
            samples.append({"rule": o.rule, "construct": o.construct, "status": o.status,
                            "detail": o.detail[:400], "loc": o.loc})
        ev = {
            "property_id": self.prop,
            "tier": self.tier,
            "seed": self.seed,
            "level": "other",
            "coverage": {
                "explanation": (
                    "Static analysis of /repo/src/irispie source (ast; nothing imported or executed). "
                    "Each rule decides a structural clause that is a necessary condition of the property, "
                    "not the behaviour as a whole. Rules: "
                    + " | ".join(f"{k}: {v}" for k, v in sorted(self.rules_text.items()))),
                "obligations": len(self.obs),
                "discharged": n_ok,
                "undecided": n_und,
                "violated": len(viol),
                "known_findings_reported": [o.key for o in known_hit],
                "new_violations": [o.key for o in new_viol],
                "evaluations": len(self.obs),
                "distinct_nontrivial": len(distinct),
                "rule": ("one evaluation = one rule instance (obligation) on a named construct; distinct = distinct "
                         "rule:construct keys that were decided (ok or violated); undecided ones are not counted"),
                "instances_per_rule": counts,
                "instance_floors": self.floors,
                "samples": samples,
                "obligation_list": [{"key": o.key, "status": o.status, "loc": o.loc, "detail": o.detail[:160]} for o in self.obs],
                "analysed": {
                    "source_root": str(self.repo.root),
                    "files_parsed": len(self.repo.modules),
                    "files_consulted": sorted(self.analysed_files),
                    "functions_consulted": sorted(self.analysed_functions),
                    "unresolved": self.unresolved[:50],
                    "digest_consulted": self.repo.digest(
                        [m.name for m in self.repo.modules.values() if m.rel in self.analysed_files]),
                },
                "notes": self.notes,
                "exhaustive": False,
                **self.extra,
            },
            "assumptions": self.assumptions or [
                "Python semantics of the constructs matched by the rules; no monkey-patching at run time",
                "structural clauses are necessary, not sufficient, for the behavioural property",
            ],
            "wall_s": round(time.time() - self.t0, 3),
            "violations": len(new_viol),
        }
        out = VERIF / "evidence"
        out.mkdir(exist_ok=True)
        (out / f"{self.prop}.json").write_text(json.dumps(ev, indent=1, default=str))


def decision_list(stmts):
    """[(test node | None, returned expression node)] of a body that decides by if / elif / else / early return / conditional
    expression, in evaluation order; the last entry has test None (the fall-through). Returns None when the body does anything else
    between the tests (other statements may precede the first test and are skipped only if they are plain assignments)."""
    out = []
    stmts = list(strip_docstring(stmts))
    i = 0
    while i < len(stmts):
        st = stmts[i]
        if isinstance(st, ast.If):
            if len(st.body) == 1 and isinstance(st.body[0], ast.Return):
                out.append((st.test, st.body[0].value))
                if st.orelse:
                    rest = decision_list(st.orelse)
                    if rest is None or i != len(stmts) - 1:
                        return None
                    return out + rest
                i += 1
                continue
            return None
        if isinstance(st, ast.Return):
            v = st.value
            while isinstance(v, ast.IfExp):
                out.append((v.test, v.body))
                v = v.orelse
            out.append((None, v))
            return out if i == len(stmts) - 1 else None
        if isinstance(st, (ast.Assign, ast.AnnAssign)) and not out:
            i += 1
            continue
        if isinstance(st, ast.Raise):
            out.append((None, st))
            return out if i == len(stmts) - 1 else None
        return None
    return None


def exit_paths(stmts, limit=64):
    """Paths through a body of if / elif / else, return, raise and simple statements:
    [(tuple of (test node, taken?) decisions, 'return' | 'raise' | 'end', exit node or None)]. None if the body loops, tries,
    or has more than `limit` paths."""
    def rec(stmts, cond):
        if not stmts:
            return [(cond, "end", None)]
        st, rest = stmts[0], stmts[1:]
        if isinstance(st, ast.Return):
            return [(cond, "return", st)]
        if isinstance(st, ast.Raise):
            return [(cond, "raise", st)]
        if isinstance(st, ast.If):
            out = []
            for taken, body in ((True, st.body), (False, st.orelse)):
                for c2, kind, node in rec(list(body), cond + ((st.test, taken),)):
                    if kind == "end":
                        sub = rec(rest, c2)
                        if sub is None:
                            return None
                        out.extend(sub)
                    else:
                        out.append((c2, kind, node))
                    if len(out) > limit:
                        return None
            return out
        if isinstance(st, (ast.For, ast.While, ast.Try, ast.With, ast.Match)):
            return None
        return rec(rest, cond)
    r = rec(list(strip_docstring(stmts)), ())
    return r


def literal_of(test, taken):
    """(canonical text, polarity) of a decision: `not x`, `a != b`, `a is not b` are folded into the polarity"""
    pol = taken
    t = test
    while isinstance(t, ast.UnaryOp) and isinstance(t.op, ast.Not):
        t, pol = t.operand, not pol
    if isinstance(t, ast.Compare) and len(t.ops) == 1:
        op = t.ops[0]
        a, b = sorted([unparse(t.left).replace(" ", ""), unparse(t.comparators[0]).replace(" ", "")])
        if isinstance(op, (ast.Eq, ast.NotEq)):
            return f"{a}=={b}", pol if isinstance(op, ast.Eq) else not pol
        if isinstance(op, (ast.Is, ast.IsNot)):
            return f"{a} is {b}", pol if isinstance(op, ast.Is) else not pol
    return unparse(t).replace(" ", ""), pol


def conditions_at(f, target):
    """Decisions known to hold when `target` (a node inside f) executes: [(canonical text, polarity)] from the enclosing if-branches
    and from earlier sibling ifs whose taken branch always leaves (return / raise / continue / break)."""
    path = []
    cur = target
    parents = []
    while getattr(cur, "_parent", None) is not None and cur is not f:
        parents.append((cur._parent, cur))
        cur = cur._parent
    out = []

    def leaves(body):
        return bool(body) and isinstance(body[-1], (ast.Return, ast.Raise, ast.Continue, ast.Break))
    for par, child in parents:
        if isinstance(par, ast.If):
            if child in par.body:
                out.append(literal_of(par.test, True))
            elif child in par.orelse:
                out.append(literal_of(par.test, False))
        for field in ("body", "orelse", "finalbody"):
            lst = getattr(par, field, None)
            if isinstance(lst, list) and child in lst:
                for sib in lst[:lst.index(child)]:
                    if isinstance(sib, ast.If):
                        if leaves(sib.body) and not leaves(sib.orelse):
                            out.append(literal_of(sib.test, False))
                        elif sib.orelse and leaves(sib.orelse) and not leaves(sib.body):
                            out.append(literal_of(sib.test, True))
    return out


def inline_locals(f, expr, keep=(), depth=8, skip_calls=False):
    """expr with every local of f that is assigned exactly once (a plain `name = expression`) replaced by that expression, recursively.
    Names in `keep`, parameters, names assigned more than once and names bound by loops/with/unpacking stay. Returns a new tree."""
    import copy
    single = {}
    multi = set()
    for n in walk_no_nested(f):
        if isinstance(n, ast.Assign) and len(n.targets) == 1 and isinstance(n.targets[0], ast.Name):
            nm = n.targets[0].id
            if nm in single and unparse(single[nm]) == unparse(n.value):
                pass                       # the same definition repeated (e.g. once per branch)
            elif nm in single or nm in multi:
                multi.add(nm)
                single.pop(nm, None)
            else:
                single[nm] = n.value
        elif isinstance(n, (ast.AugAssign, ast.AnnAssign)) and isinstance(n.target, ast.Name):
            multi.add(n.target.id)
            single.pop(n.target.id, None)
        elif isinstance(n, (ast.For, ast.comprehension)):
            for x in ast.walk(n.target):
                if isinstance(x, ast.Name):
                    multi.add(x.id)
                    single.pop(x.id, None)
        elif isinstance(n, ast.Assign):
            for t in n.targets:
                for x in ast.walk(t):
                    if isinstance(x, ast.Name) and isinstance(x.ctx, ast.Store):
                        multi.add(x.id)
                        single.pop(x.id, None)
    ps = set(all_params(f))

    def clean(node):
        """deep copy without the _parent back-pointers"""
        if isinstance(node, ast.AST):
            new = type(node)()
            for k, v in ast.iter_fields(node):
                setattr(new, k, clean(v))
            for k in ("lineno", "col_offset", "end_lineno", "end_col_offset"):
                if hasattr(node, k):
                    setattr(new, k, getattr(node, k))
            return new
        if isinstance(node, list):
            return [clean(x) for x in node]
        return node

    class _Sub(ast.NodeTransformer):
        def __init__(self, d):
            self.d = d

        def visit_Name(self, node):
            if isinstance(node.ctx, ast.Load) and node.id in single and node.id not in keep and node.id not in ps and self.d > 0 \
                    and not (skip_calls and isinstance(single[node.id], ast.Call)):
                return _Sub(self.d - 1).visit(clean(single[node.id]))
            return node
    return _Sub(depth).visit(clean(expr))


def params(f) -> list[str]:
    """Positional parameter names (positional-only first)."""
    return [a.arg for a in f.args.posonlyargs + f.args.args]


def all_params(f) -> list[str]:
    out = params(f) + [a.arg for a in f.args.kwonlyargs]
    if f.args.vararg:
        out.append(f.args.vararg.arg)
    if f.args.kwarg:
        out.append(f.args.kwarg.arg)
    return out


# ----------------------------------------------------------------------------
# Fact extraction helpers (statement-local, so that a rule compares facts, not whole-function text)
# ----------------------------------------------------------------------------

def squash(node_or_text) -> str:
    """unparse without blanks"""
    t = node_or_text if isinstance(node_or_text, str) else unparse(node_or_text)
    return "".join(t.split())


def assignments(f, name: str):
    """all `name = value` / `a.b = value` assignments (dotted target) in f, nested defs excluded"""
    out = []
    for n in walk_no_nested(f):
        if isinstance(n, ast.Assign):
            for t in n.targets:
                if (dotted(t) or "") == name:
                    out.append(n)
        elif isinstance(n, ast.AnnAssign) and n.value is not None and (dotted(n.target) or "") == name:
            out.append(n)
    return sorted(out, key=lambda a: (a.lineno, a.col_offset))


def assign_value(f, name: str):
    """value of the unique assignment to name, else None"""
    a = assignments(f, name)
    return a[0].value if len(a) == 1 else None


def calls_to(f, *names, nested=True):
    """Call nodes whose dotted callee is one of names (or ends with '.'+name when name starts with '.')"""
    out = []
    it = ast.walk(f) if nested else walk_no_nested(f)
    for n in it:
        if isinstance(n, ast.Call):
            d = dotted(n.func) or ""
            for nm in names:
                if d == nm or (nm.startswith(".") and d.endswith(nm)):
                    out.append(n)
                    break
    return sorted(out, key=lambda c: (c.lineno, c.col_offset))


def returns_of(f):
    return [n for n in walk_no_nested(f) if isinstance(n, ast.Return)]


def single_return(f):
    r = returns_of(f)
    return r[0].value if len(r) == 1 else None


def tuple_names(node):
    """names of a tuple expression/target: (a, b, *c) -> ['a','b','*c'] ; non-names -> unparse"""
    if not isinstance(node, (ast.Tuple, ast.List)):
        return None
    out = []
    for e in node.elts:
        if isinstance(e, ast.Starred):
            out.append("*" + unparse(e.value))
        else:
            out.append(unparse(e))
    return out


def tuple_agreement(producer, consumer, norm=None):
    """
    SIB: positional-with-names agreement between a returned tuple and its unpack target.
    Returns (ok, detail). A trailing starred target absorbs extra elements. An alarm needs either an arity
    mismatch or a name that occurs on both sides at different positions (a swap) — never a mere rename.
    """
    norm = norm or (lambda s: s)
    if producer is None or consumer is None:
        return None, "tuple not recognised"
    cons = list(consumer)
    star = [i for i, c in enumerate(cons) if c.startswith("*")]
    if star:
        i = star[0]
        if i != len(cons) - 1:
            return None, "starred target not last"
        cons = cons[:i]
        if len(producer) < len(cons):
            return False, f"producer yields {len(producer)} values, consumer needs at least {len(cons)}"
        prod = list(producer)[:len(cons)]
    else:
        prod = list(producer)
        if len(prod) != len(cons):
            return False, f"producer yields {len(prod)} values, consumer unpacks {len(cons)}"
    pn, cn = [norm(x) for x in prod], [norm(x) for x in cons]
    swaps = [(prod[i], cons[i]) for i in range(len(cons)) if pn[i] != cn[i] and (pn[i] in cn or cn[i] in pn)]
    return (not swaps), (f"swapped positions {swaps}" if swaps else f"{len(cons)} positions agree")

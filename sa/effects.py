"""
EFFECTS: which instance state may a method change?

self_mutations(methods, entry) lists every way the method `entry` (and the methods of the same class it calls on self,
transitively) can change state reachable from `self`:

   self.X = ... / self.X op= ...                              attribute (re)binding
   self.X[...] = ... / self.X[...] op= ...                    cell store through the attribute
   a = self.X ; a[...] = ... / a[...] op= ... / a op= ...     the same through a local alias (numpy's op= is in place)
   a.fill(..) / a.sort() / ... ; f(..., out=a)                in-place ndarray methods on the attribute or an alias

A local name is an alias of self.X when it is bound by `a = self.X` (possibly via a conditional expression or a tuple
unpack from attributes) and is not re-bound to the result of a call (a = _np.copy(self.X), a = a.copy()) before the write.
The analysis is flow-insensitive inside a function except for that dominance test, so it over-approximates writes only in
the presence of rebinding to non-call values, which is reported as such.
"""
from __future__ import annotations

import ast

from .core import dotted, walk_no_nested, unparse

INPLACE_METHODS = ("fill", "sort", "resize", "put", "itemset", "partition", "setfield", "setflags", "append", "extend", "insert",
                   "pop", "remove", "clear", "update", "setdefault", "popitem", "reverse", "add", "discard")


def _self_name(f):
    a = f.args.posonlyargs + f.args.args
    return a[0].arg if a else None


def _is_self_attr(node, s):
    """self.X or self.X.Y -> 'X' / 'X.Y'"""
    d = dotted(node)
    if d and d.startswith(s + ".") and isinstance(node, ast.Attribute):
        return d[len(s) + 1:]
    return None


def _dominating_call_rebind(node, name, func):
    """True if `name = <call>` is an earlier sibling of node or of one of its ancestors within func."""
    parents = {}
    for n in ast.walk(func):
        for ch in ast.iter_child_nodes(n):
            parents[ch] = n
    cur = node
    while cur in parents:
        par = parents[cur]
        for field in ("body", "orelse", "finalbody"):
            lst = getattr(par, field, None)
            if isinstance(lst, list) and cur in lst:
                for sib in lst[:lst.index(cur)]:
                    if isinstance(sib, ast.Assign) and len(sib.targets) == 1 and isinstance(sib.targets[0], ast.Name) \
                            and sib.targets[0].id == name and isinstance(sib.value, ast.Call) and not _is_view_call(sib.value):
                        return True
        if par is func:
            break
        cur = par
    return False


VIEW_CALLS = ("reshape", "view", "ravel", "squeeze", "transpose", "swapaxes", "_np.asarray", "_np.reshape", "_np.ravel", "_np.atleast_2d",
              "_np.atleast_1d", "_np.squeeze", "_np.transpose")


def _is_view_call(call):
    name = dotted(call.func) or ""
    if name == "getattr":
        return True          # hands out the attribute itself
    return name in VIEW_CALLS or name.split(".")[-1] in ("reshape", "view", "ravel", "squeeze", "transpose", "swapaxes")


def _alias_sources(value, s, aliases):
    """attributes of self a value expression may alias (without copying)"""
    out = set()
    if isinstance(value, ast.IfExp):
        return _alias_sources(value.body, s, aliases) | _alias_sources(value.orelse, s, aliases)
    if isinstance(value, ast.BoolOp):
        for v in value.values:
            out |= _alias_sources(v, s, aliases)
        return out
    a = _is_self_attr(value, s)
    if a is not None:
        return {a}
    if isinstance(value, ast.Name) and value.id in aliases:
        return set(aliases[value.id])
    # the attributes of a shallow clone of self are the very objects self holds (until they are re-bound on the clone)
    clones = aliases.get("\0clones", {})
    if isinstance(value, ast.Attribute) and isinstance(value.value, ast.Name) and value.value.id in clones \
            and value.attr not in clones[value.value.id]:
        return {value.attr}
    if isinstance(value, ast.Call) and dotted(value.func) == "getattr" and len(value.args) >= 2 and isinstance(value.args[0], ast.Name) \
            and (value.args[0].id in clones or value.args[0].id == s):
        k = value.args[1]
        return {k.value if isinstance(k, ast.Constant) and isinstance(k.value, str) else "*"}
    if isinstance(value, ast.Subscript):          # basic slicing gives a view
        return _alias_sources(value.value, s, aliases)
    if isinstance(value, ast.Attribute) and value.attr == "T":
        return _alias_sources(value.value, s, aliases)
    if isinstance(value, ast.Call) and _is_view_call(value):
        base = value.func.value if isinstance(value.func, ast.Attribute) and not (dotted(value.func) or "").startswith("_np.") else (value.args[0] if value.args else None)
        if base is not None:
            return _alias_sources(base, s, aliases)
    return out


def shallow_clones(f, s):
    """{local name: attributes re-bound on it to the result of a call} for locals that are shallow clones of self:
         c = copy.copy(self) / c = self.copy_shallow...   (module-level copy.copy only)
         for n in ...: setattr(c, n, getattr(self, n, ...))     the slot-by-slot clone
         c.__dict__.update(self.__dict__)"""
    out = {}
    for n in walk_no_nested(f):
        if isinstance(n, ast.Assign) and len(n.targets) == 1 and isinstance(n.targets[0], ast.Name) and isinstance(n.value, ast.Call):
            name = dotted(n.value.func) or ""
            if name.split(".")[-1] == "copy" and name.split(".")[0] in ("copy", "_co", "_cp", "_copy") and n.value.args \
                    and isinstance(n.value.args[0], ast.Name) and n.value.args[0].id == s:
                out.setdefault(n.targets[0].id, set())
        if isinstance(n, ast.Call) and dotted(n.func) == "setattr" and len(n.args) == 3 and isinstance(n.args[0], ast.Name) and n.args[0].id != s:
            v = n.args[2]
            if isinstance(v, ast.Call) and dotted(v.func) == "getattr" and len(v.args) >= 2 and isinstance(v.args[0], ast.Name) and v.args[0].id == s \
                    and ast.dump(v.args[1]) == ast.dump(n.args[1]):
                out.setdefault(n.args[0].id, set())
        if isinstance(n, ast.Call) and isinstance(n.func, ast.Attribute) and n.func.attr == "update" and (dotted(n.func.value) or "").endswith(".__dict__") \
                and n.args and dotted(n.args[0]) == f"{s}.__dict__" and isinstance(n.func.value.value, ast.Name):
            out.setdefault(n.func.value.value.id, set())
    for n in walk_no_nested(f):
        if isinstance(n, ast.Assign) and isinstance(n.value, ast.Call) and not _is_view_call(n.value):
            for t in n.targets:
                if isinstance(t, ast.Attribute) and isinstance(t.value, ast.Name) and t.value.id in out:
                    out[t.value.id].add(t.attr)
    return out


def direct_mutations(f):
    """[(attr, how, lineno)] for one function"""
    s = _self_name(f)
    if s is None:
        return []
    aliases = {"\0clones": shallow_clones(f, s)}
    for _ in range(3):
        for n in walk_no_nested(f):
            if isinstance(n, ast.Assign) and len(n.targets) == 1:
                t = n.targets[0]
                if isinstance(t, ast.Name):
                    src = _alias_sources(n.value, s, aliases)
                    if src:
                        aliases.setdefault(t.id, set()).update(src)
                elif isinstance(t, ast.Tuple) and isinstance(n.value, ast.Tuple) and len(t.elts) == len(n.value.elts):
                    for tt, vv in zip(t.elts, n.value.elts):
                        if isinstance(tt, ast.Name):
                            src = _alias_sources(vv, s, aliases)
                            if src:
                                aliases.setdefault(tt.id, set()).update(src)
    out = []

    def target_attrs(t, node):
        """attributes written by a store to target t"""
        b, through = t, False
        clones = aliases["\0clones"]
        while isinstance(b, (ast.Subscript, ast.Attribute)):
            a = _is_self_attr(b, s)
            if a is not None:
                return {a}, ("cell store" if b is not t else "rebinding")
            if isinstance(b, ast.Attribute) and isinstance(b.value, ast.Name) and b.value.id in clones and b.attr not in clones[b.value.id] \
                    and (b is not t or isinstance(node, ast.AugAssign)):
                return {b.attr}, f"{'cell store' if b is not t else 'in-place ' + type(node.op).__name__} through the shallow clone {b.value.id}"
            if isinstance(b, ast.Subscript):
                through = True
            b = b.value
        if isinstance(b, ast.Name) and b.id in aliases and not _dominating_call_rebind(node, b.id, f):
            if through:
                return aliases[b.id], f"cell store through alias {b.id}"
            if isinstance(node, ast.AugAssign):
                return aliases[b.id], f"in-place {type(node.op).__name__} on alias {b.id}"
        return set(), ""

    for n in walk_no_nested(f):
        ts = n.targets if isinstance(n, ast.Assign) else [n.target] if isinstance(n, (ast.AugAssign, ast.AnnAssign)) else []
        flat = []
        for t in ts:
            flat.extend(t.elts if isinstance(t, (ast.Tuple, ast.List)) else [t])
        for t in flat:
            attrs, how = target_attrs(t, n)
            for a in attrs:
                out.append((a, how, n.lineno))
        if isinstance(n, ast.Call):
            if isinstance(n.func, ast.Attribute) and n.func.attr in INPLACE_METHODS:
                src = _alias_sources(n.func.value, s, {k: v for k, v in aliases.items()
                                                       if k == "\0clones" or not (isinstance(n.func.value, ast.Name) and _dominating_call_rebind(n, k, f))})
                for a in src:
                    out.append((a, f"in-place method .{n.func.attr}()", n.lineno))
            for k in n.keywords:
                if k.arg == "out":
                    for a in _alias_sources(k.value, s, aliases):
                        out.append((a, "out= argument", n.lineno))
            if dotted(n.func) == "setattr" and n.args and isinstance(n.args[0], ast.Name) and n.args[0].id == s:
                out.append((unparse(n.args[1]) if len(n.args) > 1 else "*", "setattr", n.lineno))
    return out


def self_mutations(methods: dict, entry: str):
    """methods: name -> FunctionDef; returns [(method chain, attr, how, lineno)] reachable from entry through self.<m>() calls."""
    out = []
    seen = set()
    todo = [(entry, (entry,))]
    while todo:
        name, chain = todo.pop()
        if name in seen or name not in methods:
            continue
        seen.add(name)
        f = methods[name]
        for a, how, line in direct_mutations(f):
            out.append((chain, a, how, line))
        s = _self_name(f)
        for n in walk_no_nested(f):
            if isinstance(n, ast.Call) and isinstance(n.func, ast.Attribute) and isinstance(n.func.value, ast.Name) and n.func.value.id == s:
                todo.append((n.func.attr, chain + (n.func.attr,)))
    return out, sorted(seen)


_POSITIVE = '''
class _E:
    def run(self, d):
        F = self._pick()
        return F
    def _pick(self):
        F = self._F
        F[:2, :2] += 1
        return F
'''
_NEGATIVE = '''
class _E:
    def run(self, d):
        F = _np.copy(self._F)
        F[:2, :2] += 1
        G = self._F
        G = G.copy()
        G += 1
        return F @ self._F
'''


def self_check():
    from .core import AnalysisError
    for src, want in ((_POSITIVE, True), (_NEGATIVE, False)):
        c = ast.parse(src).body[0]
        ms = {st.name: st for st in c.body if isinstance(st, ast.FunctionDef)}
        got, _ = self_mutations(ms, "run")
        if bool(got) != want:
            raise AnalysisError(f"effects self-check failed: {got}")
    return 2

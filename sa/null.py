"""
NULL: check-then-use contradiction, restricted to definite cases.

Along each path (structured dataflow, sa.flow) the analysis tracks
    must-None names   : assigned the literal None on this path and not reassigned since
    decided tests     : truth value taken for simple tests (a bare name, `not name`, `name is [not] None`)
                        so that two tests of the same flag on one path agree
A finding is a dereference (attribute access, call, subscript, arithmetic operand) of a must-None name.
Parameters with default None are NOT assumed None (callers may pass a value).
"""
from __future__ import annotations

import ast

from . import flow
from .core import unparse, strip_docstring


def _simple_test(test):
    """-> (key, polarity) for tests whose repeated evaluation on a path must agree; else None"""
    if isinstance(test, ast.Name):
        return (test.id, True)
    if isinstance(test, ast.UnaryOp) and isinstance(test.op, ast.Not):
        r = _simple_test(test.operand)
        return (r[0], not r[1]) if r else None
    if isinstance(test, ast.Compare) and len(test.ops) == 1 and isinstance(test.left, ast.Name) \
            and isinstance(test.comparators[0], ast.Constant) and test.comparators[0].value is None:
        if isinstance(test.ops[0], ast.Is):
            return (f"{test.left.id} is None", True)
        if isinstance(test.ops[0], ast.IsNot):
            return (f"{test.left.id} is None", False)
    return None


class NullFlow(flow.Analysis):
    def __init__(self):
        self.findings = []      # (name, node)

    @staticmethod
    def nones(state):
        return {x[1] for x in state if x[0] == "none"}

    def cond(self, test, state, truth):
        st = _simple_test(test)
        if st is not None:
            key, pol = st
            val = truth if pol else not truth
            for x in state:
                if x[0] == "dec" and x[1] == key and x[2] != val:
                    return None
            state = frozenset(state | {("dec", key, val)})
            # refinement of None-ness
            if key.endswith(" is None"):
                name = key[: -len(" is None")]
                if val is False and ("none", name) in state:
                    return None            # infeasible: name is None here
                if val is True:
                    state = frozenset(state | {("none", name)})
            elif ("none", key) in state and val is True:
                return None                # `if x:` with x None is infeasible
        elif isinstance(test, ast.BoolOp) and isinstance(test.op, ast.And) and truth:
            for v in test.values:
                state = self.cond(v, state, True)
                if state is None:
                    return None
        self.check_expr(test, state)
        return state

    def check_expr(self, expr, state):
        """Dereferences of must-None names in expr; conditional expressions and and/or guards refine the state."""
        if state is None or expr is None:
            return
        nn = self.nones(state)
        if not nn:
            return
        if isinstance(expr, ast.IfExp):
            self.check_expr(expr.test, state)
            self.check_expr(expr.body, self._refine(expr.test, state, True))
            self.check_expr(expr.orelse, self._refine(expr.test, state, False))
            return
        if isinstance(expr, ast.BoolOp):
            cur = state
            for v in expr.values:
                self.check_expr(v, cur)
                cur = self._refine(v, cur, isinstance(expr.op, ast.And))
                if cur is None:
                    return
            return
        if isinstance(expr, (ast.Lambda, ast.GeneratorExp, ast.ListComp, ast.DictComp, ast.SetComp)):
            return
        n = expr
        bad = None
        if isinstance(n, ast.Attribute) and isinstance(n.value, ast.Name) and n.value.id in nn and isinstance(n.ctx, ast.Load):
            bad = n.value.id
        elif isinstance(n, ast.Subscript) and isinstance(n.value, ast.Name) and n.value.id in nn:
            bad = n.value.id
        elif isinstance(n, ast.Call) and isinstance(n.func, ast.Name) and n.func.id in nn:
            bad = n.func.id
        elif isinstance(n, ast.BinOp):
            for side in (n.left, n.right):
                if isinstance(side, ast.Name) and side.id in nn:
                    bad = side.id
        elif isinstance(n, ast.UnaryOp) and isinstance(n.op, (ast.USub, ast.UAdd)) and isinstance(n.operand, ast.Name) and n.operand.id in nn:
            bad = n.operand.id
        if bad:
            self.findings.append((bad, n))
        for ch in ast.iter_child_nodes(n):
            if isinstance(ch, ast.expr):
                self.check_expr(ch, state)
            elif isinstance(ch, (ast.keyword,)):
                self.check_expr(ch.value, state)
            elif isinstance(ch, ast.Slice):
                for part in (ch.lower, ch.upper, ch.step):
                    self.check_expr(part, state)

    def _refine(self, test, state, truth):
        st = _simple_test(test)
        if st is None or state is None:
            return state
        key, pol = st
        val = truth if pol else not truth
        if key.endswith(" is None"):
            name = key[: -len(" is None")]
            if val is False:
                return frozenset(x for x in state if not (x[0] == "none" and x[1] == name))
            return frozenset(state | {("none", name)})
        if val is True:
            return frozenset(x for x in state if not (x[0] == "none" and x[1] == key))
        return state

    def stmt(self, st, state):
        value = getattr(st, "value", None)
        if isinstance(st, (ast.Assign, ast.AugAssign, ast.AnnAssign, ast.Expr, ast.Return)) and value is not None:
            self.check_expr(value, state)
        if isinstance(st, ast.AugAssign):
            self.check_expr(st.target, state)
        targets = st.targets if isinstance(st, ast.Assign) else [st.target] if isinstance(st, (ast.AugAssign, ast.AnnAssign)) else []
        for t in targets:
            names = [t] if isinstance(t, ast.Name) else [e for e in ast.walk(t) if isinstance(e, ast.Name) and isinstance(e.ctx, ast.Store)]
            for nm in names:
                state = frozenset(x for x in state if not (x[0] == "none" and x[1] == nm.id)
                                  and not (x[0] == "dec" and (x[1] == nm.id or x[1] == f"{nm.id} is None")))
            if isinstance(t, ast.Name) and isinstance(st, ast.Assign) and isinstance(value, ast.Constant) and value.value is None:
                state = frozenset(state | {("none", t.id)})
            elif isinstance(t, ast.Tuple) and isinstance(value, ast.Tuple) and len(t.elts) == len(value.elts):
                for te, ve in zip(t.elts, value.elts):
                    if isinstance(te, ast.Name) and isinstance(ve, ast.Constant) and ve.value is None:
                        state = frozenset(state | {("none", te.id)})
            elif not isinstance(t, ast.Name):
                self.check_expr(t, state)
        return state


def analyse(fn: ast.FunctionDef):
    an = NullFlow()
    flow.run(an, strip_docstring(fn.body), frozenset())
    seen, out = set(), []
    for name, node in an.findings:
        key = (name, getattr(node, "lineno", 0), unparse(node))
        if key not in seen:
            seen.add(key)
            out.append((name, node))
    return out

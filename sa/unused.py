"""
UNUSED: a parameter that the function never reads.

"A flag that is ignored" is a classic way to break a property while everything still runs: the option is accepted, documented, passed
down - and the callee answers as if it had its default. The rule: in the functions a property's rules read (and the functions nested in
them), every named parameter (not self/cls, not *args/**kwargs, not underscore-prefixed) is read somewhere in the body. The 148
parameters that are unread on the tree the rule was written for (interface uniformity, callbacks, protocol methods, work in progress)
are listed in sa/unused_params.json by (module, function, position) and excused; anything else is reported.
"""
from __future__ import annotations

import ast
import json
from pathlib import Path

from .core import strip_docstring

TABLE = Path(__file__).resolve().parent / "unused_params.json"


def unread_params(f):
    """[(position, name)] of named parameters never loaded in the body (nested functions count as the body)"""
    body = strip_docstring(f.body)
    trivial = all(isinstance(st, (ast.Pass, ast.Raise)) or (isinstance(st, ast.Expr) and isinstance(st.value, ast.Constant))
                  or (isinstance(st, ast.Return) and (st.value is None or isinstance(st.value, ast.Constant))) for st in body)
    if trivial:
        return []
    names = {x.id for st in body for x in ast.walk(st) if isinstance(x, ast.Name)}
    a = f.args
    ps = [x.arg for x in a.posonlyargs + a.args + a.kwonlyargs]
    out = []
    for i, p in enumerate(ps):
        if p in ("self", "cls", "klass", "_") or p.startswith("_"):
            continue
        if p not in names:
            out.append((i, p))
    return out


def generate(repo):
    out = []
    for m in repo.modules.values():
        for q, f in m.functions():
            for i, p in unread_params(f):
                out.append([m.name, q, i, p])
    return sorted(out)


_T = None


def table():
    global _T
    if _T is None:
        try:
            _T = {(a, b, c) for a, b, c, _ in json.loads(TABLE.read_text())}
        except Exception:
            _T = None
    return _T


def apply(chk, rid, floor=5):
    chk.rule(rid, "no option is silently ignored: every named parameter of the functions this property's rules read is read in the body "
             "(the parameters unread on the tree the rule was written for are excused by (module, function, position) in "
             "sa/unused_params.json)", floor=floor, shape_independent=True)
    t = table()
    if t is None:
        from .core import AnalysisError
        raise AnalysisError("sa/unused_params.json missing")
    scope = set(chk.analysed_functions)
    n = 0
    for m in chk.repo.modules.values():
        for q, f in m.functions():
            key = f"{m.name}:{q}"
            if not any(key == s_ or key.startswith(s_ + ".") for s_ in scope):
                continue
            n += 1
            bad = [(i, p) for i, p in unread_params(f) if (m.name, q, i) not in t]
            short = m.name.replace("irispie.", "")
            if bad:
                i, p = bad[0]
                chk.bad(rid, f"{short}.{q}[{p}]", f"parameter {p!r} (position {i}) is accepted but never read: whatever the caller passes, the function "
                        "behaves as for one fixed value", m.loc(f))
            else:
                chk.ok(rid, f"{short}.{q}", "every named parameter is read (or excused by the table)", m.loc(f))

"""
UNUSED: a parameter that the function never reads.

"A flag that is ignored" is a classic way to break a property while everything still runs: the option is accepted, documented, passed
down - and the callee answers as if it had its default. The rule: in the functions a property's rules read (and the functions nested in
them), every named parameter (not self/cls, not *args/**kwargs, not underscore-prefixed) is read somewhere in the body. The 148
parameters that are unread on the tree the rule was written for (interface uniformity, callbacks, protocol methods, work in progress)
are listed in sa/unused_params.json by (module, function, position) and excused; anything else is reported.
"""
from __future__ import annotations

import ast
import json
from pathlib import Path

from .core import strip_docstring

TABLE = Path(__file__).resolve().parent / "unused_params.json"


def unread_params(f, include_trivial=False):
    """[(position, name)] of named parameters never loaded in the body (nested functions count as the body); functions whose body is
    trivial (pass / raise / return a constant) report nothing unless include_trivial (the table records them, so that the same function
    with its constant named in a local is still excused)"""
    body = strip_docstring(f.body)
    trivial = not include_trivial and all(isinstance(st, (ast.Pass, ast.Raise)) or (isinstance(st, ast.Expr) and isinstance(st.value, ast.Constant))
                  or (isinstance(st, ast.Return) and (st.value is None or isinstance(st.value, ast.Constant))) for st in body)
    if trivial:
        return []
    names = {x.id for st in body for x in ast.walk(st) if isinstance(x, ast.Name)}
    a = f.args
    ps = [x.arg for x in a.posonlyargs + a.args + a.kwonlyargs]
    out = []
    for i, p in enumerate(ps):
        if p in ("self", "cls", "klass", "_") or p.startswith("_"):
            continue
        if p not in names:
            out.append((i, p))
    # *args / **kwargs that are swallowed: accepted from the caller and neither read nor passed on (positions 1000 / 1001 in the table)
    for pos, x in ((1000, a.vararg), (1001, a.kwarg)):
        if x is not None and not x.arg.startswith("_") and x.arg not in names:
            out.append((pos, ("*" if pos == 1000 else "**") + x.arg))
    return out


def generate(repo):
    out = []
    for m in repo.modules.values():
        for q, f in m.functions():
            for i, p in unread_params(f, include_trivial=True):
                out.append([m.name, q, i, p])
    return sorted(out)


_T = None


def table():
    global _T
    if _T is None:
        try:
            _T = {(a, b, c) for a, b, c, _ in json.loads(TABLE.read_text())}
        except Exception:
            _T = None
    return _T


def apply(chk, rid, floor=5, extra_modules=()):
    chk.rule(rid, "no option is silently ignored: every named parameter of the functions this property's rules read is read in the body "
             "(the parameters unread on the tree the rule was written for are excused by (module, function, position) in "
             "sa/unused_params.json)", floor=floor, shape_independent=True)
    t = table()
    if t is None:
        from .core import AnalysisError
        raise AnalysisError("sa/unused_params.json missing")
    scope = closure(chk)
    # entry points the user of this property calls directly (nothing in the repository calls them): every function of the named modules
    for mn in extra_modules:
        for q, _f in chk.repo.mod(mn).functions():
            scope.setdefault(f"{mn}:{q}", "the property's public entry points")
    direct = set(chk.analysed_functions)
    from . import renames as _rn
    ref = _rn.table() or {}
    n = 0
    for m in chk.repo.modules.values():
        for q, f in m.functions():
            key = f"{m.name}:{q}"
            near = any(key == s_ or key.startswith(s_ + ".") for s_ in direct)
            if not near and key not in scope:
                continue
            n += 1
            bad = [(i, p) for i, p in unread_params(f) if (m.name, q, i) not in t]
            if not near:
                # functions reached only through calls: report a parameter only when the reference tree has the same function with
                # the same parameter (which it read: the table lists its unread ones) - an option that used to matter and is now ignored
                rp = (ref.get(m.name, {}).get(q) or {}).get("params") or []
                bad = [(i, p) for i, p in bad if p in rp]          # ("**kwargs" is listed among the reference parameters under that spelling)
            short = m.name.replace("irispie.", "")
            if bad:
                i, p = bad[0]
                chk.bad(rid, f"{short}.{q}[{p}]", f"parameter {p!r} (position {i}) is accepted but never read: whatever the caller passes, the function "
                        "behaves as for one fixed value" + ("" if near else f" (reached from this property's functions through {scope.get(key)})"), m.loc(f))
                if not near:
                    chk.saw(m, q)
            elif near:
                chk.ok(rid, f"{short}.{q}", "every named parameter is read (or excused by the table)", m.loc(f))
    chk.ok(rid, "call closure[depth 4]", f"{len(scope)} functions reachable by name from the {len(direct)} functions this property's rules read were examined "
           "for parameters that the reference tree read and this tree ignores", "")


COMMON = {"get", "copy", "update", "items", "keys", "values", "append", "extend", "pop", "add", "join", "format", "split", "strip", "replace", "index",
          "count", "sort", "remove", "insert", "clear", "setdefault", "reshape", "astype", "any", "all", "sum", "min", "max", "mean", "__init__"}


def closure(chk, depth=4):
    """{module:qual -> via} of the functions reachable from the property's functions through calls, resolved by bare name: a call
    f(...) or x.f(...) reaches every repository function or method named f unless the name is shared by more than 4 definitions or is
    a container/array method name (over-approximate on purpose: a wider scope only means more functions are examined)"""
    from . import gens
    ix = gens._INDEX_CACHE.get(id(chk.repo)) or gens.GenIndex(chk.repo)
    gens._INDEX_CACHE[id(chk.repo)] = ix
    direct = set(chk.analysed_functions)
    seen = {}
    frontier = []
    for (m, q) in ix.funcs:
        key = f"{m}:{q}"
        if any(key == s_ or key.startswith(s_ + ".") for s_ in direct):
            seen[key] = "direct"
            frontier.append((m, q))
    for _ in range(depth):
        nxt = []
        for (m, q) in frontier:
            f = ix.funcs[(m, q)]
            for c in ast.walk(f):
                if not isinstance(c, ast.Call):
                    continue
                name = c.func.attr if isinstance(c.func, ast.Attribute) else c.func.id if isinstance(c.func, ast.Name) else None
                if not name or name in COMMON:
                    continue
                tgt = ix.resolve(m, q, c)
                cands = [tgt] if tgt else ix.by_name.get(name, [])
                if len(cands) > 4:
                    continue
                for t_ in cands:
                    k = f"{t_[0]}:{t_[1]}"
                    if k not in seen:
                        seen[k] = f"{m.replace('irispie.', '')}.{q}"
                        nxt.append(t_)
        frontier = nxt
    return seen

"""
NAMES: exact resolution of loaded global names, by symtable on an annotation-stripped copy of the module.

A name that a function (or lambda, comprehension, class body) loads as a global must be bound at module
level (assignment, def, class, import, for-target, with-target, exec-generated definition) or be a builtin.
Every irispie module uses `from __future__ import annotations`, so annotations are never evaluated and are
stripped before analysis. Names only referenced under `if TYPE_CHECKING:` imports count as bound for
annotations only; since annotations are stripped, a run-time load of such a name is reported.
"""
from __future__ import annotations

import ast
import builtins
import symtable

from .core import dotted, AnalysisError

_BUILTINS = set(dir(builtins)) | {"__file__", "__name__", "__doc__", "__builtins__", "__spec__", "__package__", "__loader__", "__path__"}


class _StripAnnotations(ast.NodeTransformer):
    def visit_FunctionDef(self, node):
        self.generic_visit(node)
        node.returns = None
        for a in node.args.posonlyargs + node.args.args + node.args.kwonlyargs:
            a.annotation = None
        if node.args.vararg:
            node.args.vararg.annotation = None
        if node.args.kwarg:
            node.args.kwarg.annotation = None
        return node

    visit_AsyncFunctionDef = visit_FunctionDef

    def visit_AnnAssign(self, node):
        self.generic_visit(node)
        if node.value is None:
            return ast.copy_location(ast.Pass(), node)
        return ast.copy_location(ast.Assign(targets=[node.target], value=node.value), node)


class _StripTypeChecking(ast.NodeTransformer):
    """Remove `if TYPE_CHECKING:` blocks: their imports do not exist at run time."""
    def visit_If(self, node):
        self.generic_visit(node)
        t = dotted(node.test)
        if t and t.split(".")[-1] == "TYPE_CHECKING":
            return node.orelse or ast.copy_location(ast.Pass(), node)
        return node


def module_bound_names(mod, repo, extra=()) -> set[str]:
    """Names bound at module level at run time (incl. star imports resolved through the repo)."""
    tree = _StripTypeChecking().visit(ast.parse(mod.source))
    ast.fix_missing_locations(tree)
    names = set(extra)

    def targets(t):
        if isinstance(t, ast.Name):
            names.add(t.id)
        elif isinstance(t, (ast.Tuple, ast.List)):
            for e in t.elts:
                targets(e)
        elif isinstance(t, ast.Starred):
            targets(t.value)

    def visit_body(body):
        for st in body:
            if isinstance(st, (ast.FunctionDef, ast.AsyncFunctionDef, ast.ClassDef)):
                names.add(st.name)
            elif isinstance(st, ast.Assign):
                for t in st.targets:
                    targets(t)
            elif isinstance(st, (ast.AnnAssign, ast.AugAssign)):
                if getattr(st, "value", None) is not None or isinstance(st, ast.AugAssign):
                    targets(st.target)
            elif isinstance(st, ast.Import):
                for a in st.names:
                    names.add(a.asname or a.name.split(".")[0])
            elif isinstance(st, ast.ImportFrom):
                for a in st.names:
                    if a.name == "*":
                        names.update(_star_names(mod, st, repo))
                    else:
                        names.add(a.asname or a.name)
            elif isinstance(st, (ast.For, ast.AsyncFor)):
                targets(st.target)
                visit_body(st.body); visit_body(st.orelse)
            elif isinstance(st, (ast.While, ast.If)):
                visit_body(st.body); visit_body(st.orelse)
            elif isinstance(st, (ast.With, ast.AsyncWith)):
                for it in st.items:
                    if it.optional_vars is not None:
                        targets(it.optional_vars)
                visit_body(st.body)
            elif isinstance(st, ast.Try):
                visit_body(st.body); visit_body(st.orelse); visit_body(st.finalbody)
                for h in st.handlers:
                    if h.name:
                        names.add(h.name)
                    visit_body(h.body)
            elif isinstance(st, ast.Expr):
                # walrus at module level
                for n in ast.walk(st):
                    if isinstance(n, ast.NamedExpr):
                        targets(n.target)
    visit_body(tree.body)
    return names


def _star_names(mod, st: ast.ImportFrom, repo) -> set[str]:
    pkg_parts = mod.name.split(".")
    is_pkg = mod.path.name == "__init__.py"
    if st.level:
        base = pkg_parts if is_pkg else pkg_parts[:-1]
        base = base[: len(base) - (st.level - 1)] if st.level > 1 else base
        target = ".".join(base + ([st.module] if st.module else []))
    else:
        target = st.module or ""
    tm = repo.modules.get(target)
    if tm is None:
        return set()
    bound = module_bound_names(tm, repo)
    allv = None
    for s in tm.tree.body:
        if isinstance(s, ast.Assign) and any(isinstance(t, ast.Name) and t.id == "__all__" for t in s.targets):
            try:
                allv = set(ast.literal_eval(s.value))
            except Exception:
                allv = None
    if allv is not None:
        return allv | {n for n in bound if not n.startswith("_")}  # __all__ may be extended dynamically
    return {n for n in bound if not n.startswith("_")}


def unresolved_globals(mod, repo, extra_bound=()):
    """
    Returns list of (scope_path, name) for names loaded as globals inside function/lambda/class scopes
    (and at module level) that are bound nowhere at run time.
    """
    tree = ast.parse(mod.source)
    tree = _StripAnnotations().visit(tree)
    tree = _StripTypeChecking().visit(tree)
    ast.fix_missing_locations(tree)
    try:
        code = ast.unparse(tree)
        top = symtable.symtable(code, mod.rel, "exec")
    except Exception as e:  # pragma: no cover
        raise AnalysisError(f"symtable failed on {mod.rel}: {e}")
    bound = module_bound_names(mod, repo, extra_bound)
    out = []

    def rec(tab, path):
        for s in tab.get_symbols():
            if not s.is_referenced():
                continue
            nm = s.get_name()
            if tab.get_type() == "module":
                is_glob = not s.is_assigned() and not s.is_imported() and not s.is_namespace()
            else:
                is_glob = s.is_global()
            if is_glob and nm not in bound and nm not in _BUILTINS:
                out.append((path or "<module>", nm))
        for ch in tab.get_children():
            rec(ch, f"{path}.{ch.get_name()}" if path else ch.get_name())
    rec(top, "")
    return out

"""
INCIDENCE: an exact 0/1 incidence-matrix model for the finite evaluation of the block-ordering code (incidences/blazer.py).

_IM models the numpy operations that code uses on a boolean/int matrix: sum over an axis, element-wise comparison with a number,
_np.where on the result, row / column / block indexing, _np.delete, .size / .shape / .any(). Everything is exact; an operation that
is not modelled raises NotFinite (the obligation becomes undecided).
"""
from __future__ import annotations

from . import fin


class IVec(fin.FinObj):
    _fin_elementwise = True

    def __init__(self, items):
        super().__init__(items=list(items))

    def _cmp(self, o, op):
        if isinstance(o, IVec):
            return IVec(op(a, b) for a, b in zip(self.items, o.items))
        return IVec(op(a, o) for a in self.items)

    def __eq__(self, o): return self._cmp(o, lambda a, b: a == b)
    def __ne__(self, o): return self._cmp(o, lambda a, b: a != b)
    def __gt__(self, o): return self._cmp(o, lambda a, b: a > b)
    def __ge__(self, o): return self._cmp(o, lambda a, b: a >= b)
    def __lt__(self, o): return self._cmp(o, lambda a, b: a < b)
    def __le__(self, o): return self._cmp(o, lambda a, b: a <= b)
    __hash__ = None

    def __getitem__(self, k):
        if isinstance(k, slice):
            return IVec(self.items[k])
        return self.items[k]

    def __iter__(self): return iter(self.items)
    def __len__(self): return len(self.items)
    def any(self, **kw): return any(self.items)
    def all(self, **kw): return all(self.items)
    def sum(self, **kw): return sum(self.items)
    def tolist(self): return list(self.items)
    def __invert__(self): return IVec(not x for x in self.items)

    @property
    def size(self): return len(self.items)

    @property
    def shape(self): return (len(self.items),)


class IM(fin.FinObj):
    _fin_elementwise = True

    def __init__(self, rows, ncols=None):
        rows = [list(r) for r in rows]
        super().__init__(rows=rows, ncols=(len(rows[0]) if rows else (ncols or 0)))

    @property
    def shape(self): return (len(self.rows), self.ncols)

    @property
    def size(self): return len(self.rows) * self.ncols

    @property
    def T(self): return IM([list(c) for c in zip(*self.rows)], ncols=len(self.rows)) if self.rows else IM([], ncols=0)

    def sum(self, axis=None, **kw):
        if axis is None:
            return sum(sum(r) for r in self.rows)
        if axis in (1, -1):
            return IVec(sum(r) for r in self.rows)
        if axis == 0:
            return IVec(sum(r[j] for r in self.rows) for j in range(self.ncols))
        raise fin.NotFinite("axis")

    def any(self, axis=None, **kw):
        if axis is None:
            return any(any(r) for r in self.rows)
        return IVec(bool(x) for x in self.sum(axis=axis))

    def _cmp(self, o, op):
        return IM([[op(x, o) for x in r] for r in self.rows], ncols=self.ncols)

    def __eq__(self, o): return self._cmp(o, lambda a, b: a == b)
    def __ne__(self, o): return self._cmp(o, lambda a, b: a != b)
    def __gt__(self, o): return self._cmp(o, lambda a, b: a > b)
    __hash__ = None

    def astype(self, *a, **k): return self
    def copy(self): return IM(self.rows, ncols=self.ncols)

    def _sel(self, k, n):
        if isinstance(k, slice):
            return list(range(*k.indices(n))), False
        if isinstance(k, (list, tuple)):
            return [int(x) for x in k], False
        if isinstance(k, IVec):
            if all(isinstance(x, bool) for x in k.items) and len(k.items) == n:
                return [i for i, x in enumerate(k.items) if x], False
            return [int(x) for x in k.items], False
        if isinstance(k, int) and not isinstance(k, bool):
            return [k % n if k < 0 else k], True
        raise fin.NotFinite("matrix index")

    def __getitem__(self, key):
        if not isinstance(key, tuple):
            key = (key, slice(None))
        if len(key) != 2:
            raise fin.NotFinite("matrix index")
        ri, rs = self._sel(key[0], len(self.rows))
        cj, cs = self._sel(key[1], self.ncols)
        if rs and cs:
            return self.rows[ri[0]][cj[0]]
        if rs:
            return IVec(self.rows[ri[0]][c] for c in cj)
        if cs:
            return IVec(self.rows[r][cj[0]] for r in ri)
        return IM([[self.rows[r][c] for c in cj] for r in ri], ncols=len(cj))


def np_where(v, *rest):
    if rest:
        raise fin.NotFinite("three-argument where")
    if isinstance(v, IVec):
        return (IVec(i for i, x in enumerate(v.items) if x),)
    if isinstance(v, IM):
        pairs = [(i, j) for i, r in enumerate(v.rows) for j, x in enumerate(r) if x]
        return (IVec(i for i, _ in pairs), IVec(j for _, j in pairs))
    raise fin.NotFinite("where of an unmodelled object")


def np_delete(m, idx, axis=None):
    if not isinstance(m, IM) or axis not in (0, 1):
        raise fin.NotFinite("delete")
    idx = {int(i) for i in (idx if isinstance(idx, (list, tuple, IVec)) else [idx])}
    if axis == 0:
        return IM([r for i, r in enumerate(m.rows) if i not in idx], ncols=m.ncols)
    return IM([[x for j, x in enumerate(r) if j not in idx] for r in m.rows], ncols=m.ncols - len([j for j in idx if 0 <= j < m.ncols]))


FUNCS = {"_np.where": np_where, "_np.nonzero": np_where, "_np.flatnonzero": lambda v: np_where(v)[0], "_np.delete": np_delete,
         "_np.sum": lambda m, axis=None, **kw: m.sum(axis=axis), "_np.any": lambda m, axis=None, **kw: m.any(axis=axis) if axis is not None else m.any(),
         "_np.count_nonzero": lambda m, axis=None, **kw: m.sum(axis=axis), "_np.array": lambda x, **kw: x, "_np.asarray": lambda x, **kw: x,
         "_np.argmax": lambda v, **kw: v.items.index(max(v.items)) if v.items else 0}

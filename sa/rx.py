"""
RX: regular-language engine over re._parser syntax trees.

  parse(pattern)                 -> re._parser tree (stdlib parser only; nothing is matched by running repo code)
  to_template(pattern, holes)    -> the literal string a backreference pattern denotes, capture groups -> hole names
  NFA / DFA over printable ASCII : inclusion, intersection emptiness, witnesses
"""
from __future__ import annotations

import re
import re._parser as sre_parse
import re._constants as C

from .core import AnalysisError

ALPHABET = [chr(i) for i in range(32, 127)]
_AIDX = {c: i for i, c in enumerate(ALPHABET)}


class Unsupported(Exception):
    pass


def parse(pattern: str, flags=0):
    try:
        return sre_parse.parse(pattern, flags)
    except re.error as e:
        raise AnalysisError(f"invalid regex {pattern!r}: {e}")


# ---------------------------------------------------------------------------
# pattern -> literal template
# ---------------------------------------------------------------------------

def to_template(pattern: str, holes: dict[int, str]) -> str:
    """
    For patterns made of literals, capture groups and backreferences: replace group k (and \\k) by holes[k].
    Any other construct outside a capture group raises Unsupported.
    """
    tree = parse(pattern)
    out = []
    for op, av in tree:
        if op is C.LITERAL:
            out.append(chr(av))
        elif op is C.SUBPATTERN:
            gid = av[0]
            if gid is None or gid not in holes:
                raise Unsupported(f"group {gid} has no hole name")
            out.append(holes[gid])
        elif op is C.GROUPREF:
            if av not in holes:
                raise Unsupported(f"backreference to group {av}")
            out.append(holes[av])
        else:
            raise Unsupported(f"regex construct {op} outside a capture group")
    return "".join(out)


# ---------------------------------------------------------------------------
# char sets
# ---------------------------------------------------------------------------

def _category(cat) -> set[str]:
    if cat is C.CATEGORY_DIGIT:
        return {c for c in ALPHABET if c.isdigit()}
    if cat is C.CATEGORY_NOT_DIGIT:
        return {c for c in ALPHABET if not c.isdigit()}
    if cat is C.CATEGORY_WORD:
        return {c for c in ALPHABET if c.isalnum() or c == "_"}
    if cat is C.CATEGORY_NOT_WORD:
        return {c for c in ALPHABET if not (c.isalnum() or c == "_")}
    if cat is C.CATEGORY_SPACE:
        return {" "}
    if cat is C.CATEGORY_NOT_SPACE:
        return {c for c in ALPHABET if c != " "}
    raise Unsupported(f"category {cat}")


def _charset(op, av) -> frozenset:
    if op is C.LITERAL:
        return frozenset({chr(av)} & set(ALPHABET))
    if op is C.NOT_LITERAL:
        return frozenset(set(ALPHABET) - {chr(av)})
    if op is C.ANY:
        return frozenset(ALPHABET)
    if op is C.IN:
        items = list(av)
        negate = False
        if items and items[0][0] is C.NEGATE:
            negate = True
            items = items[1:]
        s = set()
        for o, a in items:
            if o is C.LITERAL:
                s.add(chr(a))
            elif o is C.RANGE:
                s.update(chr(i) for i in range(a[0], a[1] + 1))
            elif o is C.CATEGORY:
                s.update(_category(a))
            else:
                raise Unsupported(f"class item {o}")
        s &= set(ALPHABET)
        return frozenset(set(ALPHABET) - s if negate else s)
    if op is C.CATEGORY:
        return frozenset(_category(av))
    raise Unsupported(f"char op {op}")


# ---------------------------------------------------------------------------
# NFA (Thompson) and DFA
# ---------------------------------------------------------------------------

class NFA:
    def __init__(self):
        self.eps: list[set[int]] = []
        self.trans: list[list[tuple[frozenset, int]]] = []
        self.start = self.new()
        self.accept = self.new()

    def new(self) -> int:
        self.eps.append(set())
        self.trans.append([])
        return len(self.eps) - 1

    def build(self, tree, s: int, t: int):
        """Add states so that tree takes s to t."""
        cur = s
        items = list(tree)
        for i, (op, av) in enumerate(items):
            nxt = t if i == len(items) - 1 else self.new()
            self._item(op, av, cur, nxt)
            cur = nxt
        if not items:
            self.eps[s].add(t)

    def _item(self, op, av, s, t):
        if op in (C.LITERAL, C.NOT_LITERAL, C.ANY, C.IN, C.CATEGORY):
            self.trans[s].append((_charset(op, av), t))
        elif op is C.SUBPATTERN:
            self.build(av[3], s, t)
        elif op is C.BRANCH:
            for alt in av[1]:
                a, b = self.new(), self.new()
                self.eps[s].add(a)
                self.build(alt, a, b)
                self.eps[b].add(t)
        elif op in (C.MAX_REPEAT, C.MIN_REPEAT, getattr(C, "POSSESSIVE_REPEAT", None)):
            lo, hi, sub = av
            cur = s
            for _ in range(lo):
                n = self.new()
                self.build(sub, cur, n)
                cur = n
            if hi is C.MAXREPEAT:
                loop_in, loop_out = self.new(), self.new()
                self.eps[cur].add(loop_in)
                self.eps[cur].add(t)
                self.build(sub, loop_in, loop_out)
                self.eps[loop_out].add(loop_in)
                self.eps[loop_out].add(t)
            else:
                self.eps[cur].add(t)
                for _ in range(hi - lo):
                    n = self.new()
                    self.build(sub, cur, n)
                    self.eps[n].add(t)
                    cur = n
        elif op is C.AT:
            # anchors: fullmatch semantics, ^/$ are no-ops at the ends (callers only use them there)
            self.eps[s].add(t)
        else:
            raise Unsupported(f"regex construct {op}")

    def closure(self, states):
        stack = list(states)
        seen = set(states)
        while stack:
            q = stack.pop()
            for r in self.eps[q]:
                if r not in seen:
                    seen.add(r)
                    stack.append(r)
        return frozenset(seen)


class DFA:
    """Complete DFA over ALPHABET."""
    def __init__(self, table, accepting, start=0):
        self.table = table          # list of lists: state -> [next state per alphabet index]
        self.accepting = accepting  # set of states
        self.start = start

    @classmethod
    def from_nfa(cls, nfa: NFA):
        start = nfa.closure({nfa.start})
        index = {start: 0}
        table = []
        work = [start]
        while work:
            S = work.pop()
            row = []
            for c in ALPHABET:
                T = set()
                for q in S:
                    for cs, r in nfa.trans[q]:
                        if c in cs:
                            T.add(r)
                Tc = nfa.closure(T) if T else frozenset()
                if Tc not in index:
                    index[Tc] = len(index)
                    work.append(Tc)
                row.append(index[Tc])
            i = index[S]
            while len(table) <= i:
                table.append(None)
            table[i] = row
        # fill any states discovered but not expanded (dead set)
        for S, i in index.items():
            while len(table) <= i:
                table.append(None)
        for i, r in enumerate(table):
            if r is None:
                table[i] = [i] * len(ALPHABET)
        accepting = {i for S, i in index.items() if nfa.accept in S}
        return cls(table, accepting, 0)

    def accepts(self, s: str) -> bool:
        q = self.start
        for ch in s:
            if ch not in _AIDX:
                return False
            q = self.table[q][_AIDX[ch]]
        return q in self.accepting


def compile_regex(pattern: str, flags=0) -> DFA:
    tree = parse(pattern, flags)
    n = NFA()
    n.build(tree, n.start, n.accept)
    return DFA.from_nfa(n)


def _product_search(a: DFA, b: DFA, pred, max_len=None):
    """BFS over product; returns shortest witness string whose end state pair satisfies pred(accA, accB)."""
    start = (a.start, b.start)
    seen = {start: ""}
    frontier = [start]
    depth = 0
    while frontier:
        nxt = []
        for (p, q) in frontier:
            w = seen[(p, q)]
            if pred(p in a.accepting, q in b.accepting):
                return w
            if max_len is not None and len(w) >= max_len:
                continue
            for i, ch in enumerate(ALPHABET):
                st = (a.table[p][i], b.table[q][i])
                if st not in seen:
                    seen[st] = w + ch
                    nxt.append(st)
        frontier = nxt
    return None


def included(a: DFA, b: DFA):
    """L(a) subset of L(b)? returns (True, None) or (False, witness in L(a)-L(b))"""
    w = _product_search(a, b, lambda x, y: x and not y)
    return (w is None, w)


def intersect_witness(a: DFA, b: DFA, length=None):
    """A string in both languages (of exactly `length` if given), or None."""
    if length is None:
        return _product_search(a, b, lambda x, y: x and y)
    # restrict by length: BFS by depth
    start = (a.start, b.start)
    layer = {start: ""}
    for _ in range(length):
        nl = {}
        for (p, q), w in layer.items():
            for i, ch in enumerate(ALPHABET):
                st = (a.table[p][i], b.table[q][i])
                if st not in nl:
                    nl[st] = w + ch
        layer = nl
    for (p, q), w in layer.items():
        if p in a.accepting and q in b.accepting:
            return w
    return None


def regex_escape_template(parts) -> str:
    """
    Build a regex for a writer template. parts: list of ('lit', text) | ('re', regex-fragment).
    """
    out = []
    for kind, val in parts:
        out.append(re.escape(val) if kind == "lit" else f"(?:{val})")
    return "".join(out)

"""
Registry of properties: what is claimed, by which technique. tools/gen_manifest.py turns this into MANIFEST.json.
A property is listed under `checks` only when sa/props/<id>.py exists; otherwise under not_applicable.
"""

NOT_APPLICABLE = {
    "C15": ("every clause is a numerical identity between matrices computed by SciPy (discrete Lyapunov solution and its "
            "propagation); the only structure in the code is index layout that depends on the solved model's vectors, so no "
            "necessary condition can be phrased without evaluating them — static analysis gives no verdict"),
}

PENDING_REASON = "static check for this property is designed in DESIGN.md but not built in this revision; nothing is claimed"

P = {}


def reg(pid, clause, technique, note, ref):
    P[pid] = dict(clause=clause, technique=technique, note=note, ref=ref)


reg("C01",
    "eigenvalue-class predicates partition [0,inf) and agree with the QZ ordering and the Blanchard-Kahn count; block slices of "
    "the QZ factors are dimensionally consistent; log/exp pairing in the first-order simulators; the deviation solution zeroes "
    "exactly the additive constants; state-vector bookkeeping (leads first, exactly num_forwards dropped)",
    "comparison-lattice decision on extracted predicates + abstract matrix shapes + CFG pairing + table algebra (ast)",
    "does not decide that the block formulas are the Blanchard-Kahn solution or any numerical result of QZ/Schur",
    "3/C01")
reg("C02",
    "every Atom differentiation rule is the formal derivative of its own value expression and its value has the operator's "
    "semantics; function table only reaches checked rules; function and Jacobian evaluators use the same evaluation points; "
    "finite-difference fallback is the two-sided quotient; aldi equation order, row offsets and scatter maps agree",
    "symbolic interpretation of rule bodies + algebraic normal forms and formal differentiation (ast, no execution)",
    "placement of individual cells for a given model and user context functions are run-time data; domain/kink behaviour excluded",
    "3/C02")
reg("C03",
    "per-period likelihood contributions sum to the total on every path; empty periods contribute 0; producer/consumer tuple "
    "protocols of the period-system and period-data callbacks agree; observed-row mask shared; cache fields read under a guard "
    "are written under an implied guard",
    "linear-form normalisation of likelihood expressions + sibling tuple alignment + def-use under guards (ast)",
    "equality with exact Gaussian conditioning is numerical and not decided",
    "3/C03")
reg("C04",
    "pseudofunction templates normalise to their documented formulas and are precedence-safe; aliases agree; grammar keywords, "
    "visitor and ModelSource keys agree; lhs=rhs is rewritten to -(lhs)+rhs; shift arithmetic is additive",
    "string-template extraction + algebraic normal forms + table algebra (ast)",
    "regex behaviour on arbitrary nested source text, Jinja and !for/!if expansion are run-time text processing",
    "3/C04")
reg("C05",
    "a non-converged block is never written back (success guard dominates write-back); solver dispatch is exhaustive and "
    "flag-consistent; log/exp symmetry between guess vector and steady array; level+shift*change path construction",
    "CFG dominance + exhaustive match tables + sibling index agreement (ast)",
    "that converged values satisfy the equations is solver numerics and not decided",
    "3/C05")
reg("C06",
    "every simulator module implements the protocol and every simulate_frame path returns an exit status; evaluator closures "
    "share update -> terminate -> evaluate order; terminal-condition log/exp pairing; exit status inspected before write-back; "
    "frame slice arithmetic",
    "protocol tables + return-type dataflow + CFG ordering + affine normal forms (ast)",
    "that converged paths satisfy the equations, and agreement with first order on linear models, are numerical",
    "3/C06")
reg("C07",
    "plan register names agree across plan and simulators; stacked-time swap removes exogenized cells from the unknowns, fills "
    "them from the input before the solve and never lets the solver write them; swap helpers exogenize pair[0] and endogenize pair[1]",
    "table algebra + set-expression normal form + CFG must-precede (ast)",
    "exact hitting of targets by the first-order (smoother-based) method is numerical",
    "3/C07")
reg("C08",
    "the three output stores (predict/update/smooth) map state and shocks to names identically; rows logged on input are the "
    "names exponentiated on output; transform and system matrices come from the same solution object",
    "sibling agreement over aligned call facts (ast)",
    "that smoothed means reproduce the data is numerical",
    "3/C08")
reg("C09",
    "comparisons and hash are the pull-back of integer order on serial behind a frequency guard; period arithmetic is affine "
    "in serial; (year,segment)<->serial forms are mutually inverse; calendar tables consistent and nested; every range a Span "
    "builds includes its end; ordinal/date type discipline",
    "comparison-lattice + affine normal forms + finite-domain evaluation of extracted integer arithmetic + two-point type domain (ast)",
    "datetime itself and resolution of open-ended spans against arbitrary contexts are trusted",
    "3/C09")
reg("C10",
    "every store to data/start in the write and arithmetic API is followed by a trim on all paths; generated functional forms "
    "copy first and only mutate the copy; methods never mutate a non-receiver argument; binary operands are cut by one span; "
    "position arithmetic of setitem; interpolation formulas",
    "CFG post-dominance + effect summaries + expansion of exec templates + affine normal forms (ast)",
    "element-wise numerics of numpy and arbitrary operation histories are not decided",
    "3/C10")
reg("C11",
    "language of every SDMX writer is included in its detection pattern; patterns of equal length are pairwise disjoint; "
    "writer/parser split literals agree; repr names a constructor of matching arity; refrequent is from_ymd o to_ymd and the "
    "calendar tables give containment",
    "regular-language inclusion via re._parser -> NFA/DFA + template extraction + finite tables (ast)",
    "third-party date strings and years outside 0..9999 are outside the clause",
    "3/C11")
reg("C12",
    "aggregation window starts at start-of-year and is reshaped by src//tgt; the daily slice is end-inclusive; method table "
    "index signs; disaggregation offsets inside the group; constant group size only between regular frequencies",
    "affine normal forms + table checks + guard dominance (ast)",
    "round-trip identities and arip (KKT system) are numerical",
    "3/C12")
reg("C13",
    "change lambdas normalise to their documented formulas; forward/backward cumulators invert the change; rate-conversion "
    "helpers invert each other; every name in those lambdas resolves",
    "algebraic normal forms with log/exp rules + symtable name resolution (ast)",
    "span handling of the cumulation loops on arbitrary histories is not decided",
    "3/C13")
reg("C14",
    "trend + gap == data as a linear identity of the assignments in hpf and lonf (product under log=True); same clip on both; "
    "functional forms copy",
    "linear-form normalisation of assignments (ast)",
    "optimality, constraint satisfaction and bridging of missing observations are numerical and not decided",
    "3/C14")
reg("C16",
    "reorder_equations validates the permutation before its first store; sequentialize calls the raiser before the mutator",
    "CFG dominance (ast)",
    "validity of blocks for all incidence matrices is combinatorial, data-dependent numpy code and not decided",
    "3/C16")
reg("C17",
    "each LHS transform's level formula inverts the transform its pattern parses; plan transforms likewise; residual back-out "
    "makes the equation hold identically; parser output is matched by the LHS patterns; execution iterators agree on tuple order",
    "template extraction from regex/f-strings + algebraic normal forms + regex matching on templates (ast, re._parser)",
    "ordering validity for arbitrary models and the NaN policy are not decided",
    "3/C17")
reg("C18",
    "no optional value is dereferenced unconditionally; lag-stacking slices are affine-consistent with order; coefficient split "
    "matches regressor order; state tokens are lags; companion shapes conformable; normal equations",
    "null-dereference dataflow + affine slice algebra + abstract shapes (ast)",
    "numerical least squares and companion-form moments are not decided",
    "3/C18")
reg("C19",
    "CSV writer and reader agree on block marks, continuation marks, frequency letters and date strings; name-selecting Databox "
    "methods route through the one resolver before use; dataslate invariant/variants are changed in lock-step",
    "table algebra + regex/template agreement + CFG must-precede (ast)",
    "value-level losslessness (float formatting, genfromtxt) is numerical",
    "3/C19")
reg("C20",
    "every slot that is read is copied by copy(); new variants are copies; pickled state + derived state = slots and derived "
    "state is rebuilt; exec-generated callables are never in pickled state; portable writer/reader agree field by field",
    "slot/table algebra + def-use + sibling agreement (ast)",
    "behavioural equivalence of copies is numerical; dill internals trusted",
    "3/C20")


# clauses added during the build (rules that came out of the seeded-change rounds and of the defects found on the way)
EXTRA = {
    "C11": "every SDMX reader names the right period on bare and blank-padded strings of its writer's language; the detector picks the first entry whose length and whole pattern match",
    "C02": "evaluation-point alignment of steady arrays (S + O = 0, lagged -1); derived descriptors are rebuilt when the log status changes"
           "; the columns of B are the once-lagged elements that fall off the state vector; write-once caches depend on the sparsity pattern, not on values",
    "C01": "forward-expansion memo lists are used with one set of matrices each and are reset with them; the lagged state is read one period before the state "
           "(evaluation-point alignment); simulators take the end of their window from the frame's simulation end"
           "; the deviation solution never writes into arrays it shares with the stored solution; R_k = -X J^(k-1) Ru whatever the memo already holds; square and triangular forms are not mixed; per-variant functions hand their variant to variant-defaulting wrappers"
           "; every alternative of a conditional simulation-end callback simulates to the base end; the state vector holds every transition variable a measurement equation reads",
    "C03": "the smoother's backward recursion is contiguous (threshold guard, not a per-period quantity); per-period info series are stamped with the filtered periods; "
           "every pass iterates all filtered periods; the deviation solution zeroes every additive constant"
           "; every present output store is rescaled / extended whichever others are absent; input data win over the model's values exactly as each <group>_from_data flag says; one basis per recursion"
           "; the prior mean of the state solves the stable block only and sits behind the unit-root zeros",
    "C04": "the !all-but flag is recorded unconditionally; log status = listed XOR all-but (finite evaluation)"
           "; the three recognisers of a time shift accept the same blank-padded integers (language inclusion); no greedy span over its own closer in the front-end patterns",
    "C05": "a block is skipped only when it has no unknowns at all (truth table); prefetch accumulation order and order-preserving split of matched ids"
           "; flag keywords override the model's flags in both directions (False included); per-variant functions hand their variant to variant-defaulting wrappers"
           "; a steady state counts as found only when the solver flag AND the residual-norm test hold; SteadyPlan.fix / unfix act on level and (non-flat) change",
    "C06": "the terminal condition logs every column it reads; frames prune later surprises against the simulation end; per-variant loops use the variant"
           "; a window's start and end are taken from one time axis; slatable routing by flag; write-once caches are pattern-based",
    "C07": "plan membership is start..end inclusive; one period window for building, filling and cropping the conditioning arrays; exogenized targets "
           "are read in the space of the state (logs); every flattening of the endogenized-anticipated incidence uses one order"
           "; the impact of anticipated shocks sums R[s-t] v[s] up to the last shock column in every frame; forward expansion terms; swallowed **kwargs of the plan's methods",
    "C08": "smoother recursion contiguous; one expansion memo per representation; the per-variant loop uses the variant; one-shot iterators are consumed once"
           "; expansion basis matches the recursion that receives the impact; every transition variable a measurement equation reads is in the state vector"
           "; the prior mean of the state solves the stable block only and sits behind the unit-root zeros",
    "C09": "memoised methods read only construction-time attributes; daily calendar forms agree with the calendar on finite evaluation"
           "; an object rebuilt from itself carries every stored field; Span.reverse / shift / __add__ and the keyword landings by finite evaluation",
    "C10": "trim arithmetic by finite evaluation over (rows, leading, trailing); one-shot iterators are consumed once"
           "; the encompassing span is earliest start / latest end whatever the order of the periods; rebuild carries every field; a row is missing only when all variants are missing",
    "C12": "arip parameters are the average change per elapsed period; aggregation vectors as documented; `select` indexes calendar positions before missing "
           "values are discarded; the arip system has the KKT structure (multiplier columns proportional to transposed constraint rows, F = K'K)"
           "; convert_roc / convert_diff apply exactly from_freq/to_freq",
    "C13": "keyword shifts: the Series and Period sides agree and the Series side reads the original span before mutating; shift-guard truth table"
           "; daily keyword periods against the calendar; edge rows with a value in any variant are kept",
    "C14": "the filter object reused across variants is not mutated; every variant of the result is kept and dated from the window start; the HP system is "
           "lambda K'K bordered by the constraint rows and their transposes (finite evaluation)"
           "; the filter range encompasses data, constraints and span in any order; hpf / hpf_trend / hpf_gap take the matching components",
    "C16": "prefetch pairing order (finite evaluation of _split_ids); the failing path cannot yield a full permutation"
           "; the incidence matrix marks exactly shift-0 occurrences of left-hand variables; prefetch yields a valid ordering and sequentialize_strictly a valid order or a rejected one, on small incidence matrices",
    "C17": "exogenized points are recognised by None-ness, not truthiness; the per-variant loop uses the variant"
           "; slatable routing of parameters and residuals by their own flags; options of plan methods are passed on"
           "; results are never updated in place with the target databox",
    "C18": "per-variant loops never hand the container to a per-variant parameter"
           "; Minnesota dummy weights in lag-major order; the exogenous impact enters the current-period block of the companion state",
    "C19": "the resolver pairs sources and targets (finite evaluation); one-shot iterators are consumed once"
           "; the export blocks carry exactly the names reported as exported; to_databox dates each element with the period of its column",
    "C20": "restore is verbatim; variant selectors are read; one-shot iterators are not consumed inside variant loops; derived state is rebuilt "
           "after its inputs change; portable (level, change) pairs survive JSON"
           "; Quantity / Equation / Flags portable round trips reconstruct every field with its type",
}
EXTRA_TECHNIQUE = ("; plus generic dataflow rules built for this repository: self-state effects with alias tracking, cache-invalidation discipline, "
                   "variant-loop hygiene, one-shot-iterator exhaustion, path/decision extraction, finite evaluation of extracted leaf functions; "
                   "write-once-cache taint, regular-language inclusion between sibling recognisers, basis typing of the solution matrices, paired endpoints, rebuild-carries-fields; "
                   "renamed locals/private helpers are alpha-translated before the rules run")

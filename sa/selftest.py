"""
Checker self-test (thorough tier): the rules must fire on broken variants and stay silent on
behaviour-preserving twins.

For each property a table of edits (sa/mutants.py) is applied, one at a time, to a scratch copy of the
source tree made under $(mktemp -d) (outside /repo and /verif) and the property's check is run on the copy
(IRISPIE_VERIF_SRC). A *mutant* must produce a violation whose text mentions the expected rule; a *twin*
must produce none. The scratch copies are deleted. An edit whose anchor text is not present exactly once in
the current tree is skipped (the tree may have been edited since the table was written) — it is reported,
never counted as a failure.

    python -m sa.selftest C09            # one property
    python -m sa.selftest all -j 16
"""
from __future__ import annotations

import os
import shutil
import subprocess
import sys
import tempfile
import time
from concurrent.futures import ThreadPoolExecutor
from pathlib import Path

from .core import src_root, VERIF

PY = sys.executable


def _apply(src: Path, edit: dict) -> str | None:
    """Apply a textual edit to the scratch copy. Returns None if applied, else reason for skipping."""
    p = src / edit["file"]
    if not p.exists():
        return "file missing"
    text = p.read_text()
    n = text.count(edit["old"])
    if n != 1:
        return f"anchor text occurs {n} times"
    p.write_text(text.replace(edit["old"], edit["new"]))
    # must still compile
    try:
        compile(p.read_text(), str(p), "exec")
    except SyntaxError as e:
        return f"edit does not compile: {e}"
    return None


def run_one(prop: str, edit: dict, base_src: Path) -> dict:
    td = Path(tempfile.mkdtemp(prefix=f"sa_selftest_{prop}_"))
    try:
        dst = td / "irispie"
        shutil.copytree(base_src, dst, ignore=shutil.ignore_patterns("__pycache__", "*.pyc", "executables"))
        why = _apply(dst, edit)
        if why:
            return {"id": edit["id"], "kind": edit["kind"], "status": "skipped", "why": why}
        env = dict(os.environ, IRISPIE_VERIF_SRC=str(dst), VERIF_TIER="quick")
        r = subprocess.run([PY, "-m", "sa.check", prop, "--tier", "quick", "--no-evidence"], cwd=str(VERIF), env=env,
                           capture_output=True, text=True, timeout=300)
        out = r.stdout + r.stderr
        viol = [l for l in out.splitlines() if " — rule " in l]
        if edit["kind"] == "mutant":
            want = edit.get("rule", "")
            hit = [l for l in viol if want in l]
            ok = r.returncode == 1 and bool(hit)
            return {"id": edit["id"], "kind": "mutant", "status": "killed" if ok else "SURVIVED", "rc": r.returncode,
                    "report": (hit or viol or [out.strip().splitlines()[-1] if out.strip() else ""])[0][:300]}
        else:
            ok = r.returncode == 0 and not viol
            return {"id": edit["id"], "kind": "twin", "status": "silent" if ok else "FIRED", "rc": r.returncode,
                    "report": (viol or [l for l in out.splitlines() if "ERROR" in l] or [""])[0][:300]}
    finally:
        shutil.rmtree(td, ignore_errors=True)


def seed_edits(prop: str) -> list[dict]:
    """Archived seeded changes (/verif/seeded/<prop>-<k>/patch.diff, written by independent authors who never saw /verif)
    that this property's check is recorded to catch."""
    import json
    out = []
    for d in sorted((VERIF / "seeded").glob("*")):
        meta = d / "meta.json"
        if not meta.exists():
            continue
        mj = json.loads(meta.read_text())
        if prop in mj.get("checks_fired", {}) and mj.get("confirmed"):
            out.append({"id": f"seed:{d.name}", "kind": "seed", "patch": str(d / "patch.diff"), "rule": prop + "-R"})
    return out


def twin_patches(prop: str) -> list[dict]:
    """Archived behaviour-preserving refactorings (/verif/twins/<any>-<k>/patch.diff) that touch a file this property's check reads;
    the check must stay silent on each."""
    import json, re
    ev = VERIF / "evidence" / f"{prop}.json"
    consulted = set()
    if ev.exists():
        try:
            consulted = set(json.loads(ev.read_text())["coverage"]["analysed"]["files_consulted"])
        except Exception:
            consulted = set()
    out = []
    for d in sorted((VERIF / "twins").glob("*-[0-9]")):
        pf = d / "patch.diff"
        if not pf.exists():
            continue
        files = set(re.findall(r"^\+\+\+ b/(.*)$", pf.read_text(), re.M))
        if d.name.startswith(prop + "-") or (files & consulted):
            out.append({"id": f"twin:{d.name}", "kind": "twinpatch", "patch": str(pf)})
    return out


def run_seed(prop: str, edit: dict, base_src: Path) -> dict:
    td = Path(tempfile.mkdtemp(prefix=f"sa_selftest_{prop}_"))
    try:
        dst = td / "src" / "irispie"
        shutil.copytree(base_src, dst, ignore=shutil.ignore_patterns("__pycache__", "*.pyc", "executables"))
        a = subprocess.run(["patch", "-p1", "-s", "--no-backup-if-mismatch", "-d", str(td), "-i", edit["patch"]], capture_output=True, text=True)
        if a.returncode != 0:
            return {"id": edit["id"], "kind": "twin" if edit["kind"] == "twinpatch" else "seed", "status": "skipped", "why": "patch does not apply to the current tree"}
        env = dict(os.environ, IRISPIE_VERIF_SRC=str(dst))
        r = subprocess.run([PY, "-m", "sa.check", prop, "--tier", "quick", "--no-evidence"], cwd=str(VERIF), env=env,
                           capture_output=True, text=True, timeout=300)
        viol = [l for l in r.stdout.splitlines() if " — rule " in l]
        if edit["kind"] == "twinpatch":
            ok = r.returncode == 0 and not viol
            return {"id": edit["id"], "kind": "twin", "status": "silent" if ok else "FIRED", "rc": r.returncode,
                    "report": (viol or [l for l in r.stdout.splitlines() if "ERROR" in l] or [""])[0][:300]}
        ok = r.returncode == 1 and bool(viol)
        return {"id": edit["id"], "kind": "mutant", "status": "killed" if ok else "SURVIVED", "rc": r.returncode,
                "report": (viol or [r.stdout.strip().splitlines()[-1] if r.stdout.strip() else ""])[0][:300]}
    finally:
        shutil.rmtree(td, ignore_errors=True)


def run_property(prop: str, jobs: int = 16, limit: int | None = None, seed: int = 0) -> dict:
    from . import mutants
    edits = list(mutants.TABLE.get(prop, []))
    if limit and len(edits) > limit:
        import random
        rnd = random.Random(seed)
        edits = rnd.sample(edits, limit)
    edits += seed_edits(prop)
    edits += twin_patches(prop)
    base = src_root()
    t0 = time.time()
    with ThreadPoolExecutor(max_workers=jobs) as ex:
        results = list(ex.map(lambda e: run_seed(prop, e, base) if e["kind"] in ("seed", "twinpatch") else run_one(prop, e, base), edits))
    summary = {
        "property": prop,
        "mutants": sum(1 for r in results if r["kind"] == "mutant"),
        "killed": sum(1 for r in results if r["status"] == "killed"),
        "survived": [r for r in results if r["status"] == "SURVIVED"],
        "twins": sum(1 for r in results if r["kind"] == "twin"),
        "silent": sum(1 for r in results if r["status"] == "silent"),
        "fired": [r for r in results if r["status"] == "FIRED"],
        "skipped": [r for r in results if r["status"] == "skipped"],
        "results": results,
        "wall_s": round(time.time() - t0, 1),
    }
    return summary


def main(argv=None):
    argv = argv or sys.argv[1:]
    jobs = 16
    if "-j" in argv:
        i = argv.index("-j")
        jobs = int(argv[i + 1])
        argv = argv[:i] + argv[i + 2:]
    from . import mutants
    props = sorted(mutants.TABLE) if (not argv or argv[0] == "all") else [a.upper() for a in argv]
    bad = 0
    for p in props:
        s = run_property(p, jobs)
        print(f"[{p}] mutants killed {s['killed']}/{s['mutants']}, twins silent {s['silent']}/{s['twins']}, skipped {len(s['skipped'])}, {s['wall_s']}s")
        for r in s["survived"]:
            print(f"    SURVIVED {r['id']} rc={r['rc']} :: {r['report']}")
            bad += 1
        for r in s["fired"]:
            print(f"    TWIN FIRED {r['id']} rc={r['rc']} :: {r['report']}")
            bad += 1
        for r in s["skipped"]:
            print(f"    skipped {r['id']}: {r['why']}")
    return 1 if bad else 0


if __name__ == "__main__":
    sys.exit(main())

"""
ENDPOINTS: the two ends of one span come from one sequence.

Wherever a start and an end are taken side by side - two adjacent call arguments, two adjacent tuple elements, the operands of the span
operators >> and << - as `X[0]` and `Y[-1]`, X and Y must be the same expression (after replacing locals that are assigned once by their
definitions). `SingleFrame(ds.base_periods[0], ds.periods[-1])` is the defect: a window that starts on one axis and ends on another.
A contradiction rule in the sense of Engler et al.: every pair on the tree the rule was written for indexes one sequence.
"""
from __future__ import annotations

import ast

from .core import unparse, inline_locals


def _end(e):
    if isinstance(e, ast.Subscript):
        s = e.slice
        if isinstance(s, ast.Constant) and s.value == 0 and not isinstance(s.value, bool):
            return "first", e.value
        if isinstance(s, ast.UnaryOp) and isinstance(s.op, ast.USub) and isinstance(s.operand, ast.Constant) and s.operand.value == 1:
            return "last", e.value
    return None


def pairs(f):
    """[(node, first-sequence expr, last-sequence expr)]"""
    out = []
    for c in ast.walk(f):
        cands = []
        if isinstance(c, ast.Call):
            cands = list(zip(c.args, c.args[1:]))
            kw = {k.arg: k.value for k in c.keywords if k.arg}
            for a, b in (("start", "end"), ("from_", "until"), ("first", "last"), ("start_date", "end_date"), ("start_period", "end_period")):
                if a in kw and b in kw:
                    cands.append((kw[a], kw[b]))
        elif isinstance(c, ast.Tuple):
            cands = list(zip(c.elts, c.elts[1:]))
        elif isinstance(c, ast.BinOp) and isinstance(c.op, (ast.RShift, ast.LShift)):
            cands = [(c.left, c.right)]
        for a, b in cands:
            ea, eb = _end(a), _end(b)
            if ea and eb and {ea[0], eb[0]} == {"first", "last"}:
                out.append((c, ea[1], eb[1]))
    return out


_EXAMPLE = '''
def good(ds):
    return Frame(ds.base_periods[0], ds.base_periods[-1])
def good2(ds):
    base = ds.base_periods
    return Frame(base[0], ds.base_periods[-1])
def bad(ds):
    return Frame(ds.base_periods[0], ds.periods[-1])
def bad2(ds):
    return ds.base_periods[0] >> ds.periods[-1]
def other(ds):
    return Frame(ds.a[0], ds.b[1])
'''


def self_check():
    from .core import AnalysisError
    t = ast.parse(_EXAMPLE)
    got = {}
    for f in t.body:
        got[f.name] = [unparse(inline_locals(f, a)) == unparse(inline_locals(f, b)) for _, a, b in pairs(f)]
    if got != {"good": [True], "good2": [True], "bad": [False], "bad2": [False], "other": []}:
        raise AnalysisError(f"ENDPOINTS self-check failed: {got}")
    return 5


def apply(chk, rid, packages, floor=1):
    chk.rule(rid, "the two ends of one span come from one sequence: wherever X[0] and Y[-1] stand side by side (adjacent arguments, adjacent tuple "
             "elements, start=/end= keywords, operands of >> and <<), X and Y are the same expression after inlining single-assignment locals - a "
             "window never starts on one time axis (base periods) and ends on another (all periods, including the terminal columns)",
             floor=floor, shape_independent=True)
    n_ex = self_check()
    n = 0
    for m in chk.repo.modules.values():
        top = m.name.split(".")[1] if "." in m.name else m.name
        if top not in packages:
            continue
        short = m.name.replace("irispie.", "")
        for q, f in m.functions():
            if "." in q and any(q.startswith(o + ".") and isinstance(of, ast.FunctionDef) for o, of in m.functions() if o != q):
                continue      # nested functions are walked with their parent
            for k, (node, a, b) in enumerate(pairs(f)):
                n += 1
                chk.saw(m, q)
                sa_, sb_ = unparse(inline_locals(f, a)), unparse(inline_locals(f, b))
                chk.ob(rid, f"{short}.{q}[{unparse(a)[:30]}|{k}]", sa_ == sb_,
                       f"{unparse(node)[:80]}: both ends index {sa_[:50]}" if sa_ == sb_ else
                       f"{unparse(node)[:90]}: the start is taken from {sa_[:50]} and the end from {sb_[:50]} - two different time axes", m.loc(node), sure=True)
    chk.ok(rid, "self-check", f"embedded example classified as expected ({n_ex} functions); {n} start/end pair(s) in {'/'.join(sorted(packages))}", "")

"""
VARIANTS: per-variant loops must work on the variant, not on the container.

irispie objects (models, dataslates) hold several parameter/data variants. The per-variant work is written as

    for vid, model_v, dataslate_v in zip(range(n), self.iter_variants(), dataslate.iter_variants()):
        ...

Inside such a loop the container (`dataslate`) is still in scope, and most of its accessors default to variant 0
(get_data_variant(), ...). Handing the container to something that expects the variant gives every variant the data of
variant 0 - silently. The rule:

   in the body of a loop over C.iter_variants() bound to the name C_v, the container name C
     (a) is not passed to a callee whose parameter in that position is a per-variant parameter
         (named *_v / *_variant, or one the callee reads variant data from with get_data_variant()), callee resolved in the repository;
     (b) is not asked for variant data directly (C.get_data_variant(...), C.get_variant(...)).

Instances are reported per loop; an unresolved callee receiving the container is listed as undecided.
"""
from __future__ import annotations

import ast

from .core import dotted, unparse, walk_no_nested, params, all_params

VARIANT_ACCESSORS = ("get_data_variant", "get_variant", "get_data_variant_by_name")


def _is_variant_param(name: str) -> bool:
    return name.endswith("_v") or name.endswith("_variant") or name in ("variant", "v")


def variant_loops(f):
    """[(For node, {container name: variant name})] for loops over <Name>.iter_variants() (directly, zipped, or via a local)."""
    out = []
    for lp in ast.walk(f):
        if not isinstance(lp, ast.For):
            continue
        it = lp.iter
        if isinstance(it, ast.Name):
            vals = [n.value for n in ast.walk(f) if isinstance(n, ast.Assign) and isinstance(n.targets[0], ast.Name) and n.targets[0].id == it.id]
            it = vals[-1] if vals else it
        args = it.args if isinstance(it, ast.Call) and dotted(it.func) == "zip" else [it]
        tg = lp.target.elts if isinstance(lp.target, ast.Tuple) else [lp.target]
        conts = {}
        for i, a in enumerate(args):
            if isinstance(a, ast.Call) and isinstance(a.func, ast.Attribute) and a.func.attr == "iter_variants" \
                    and isinstance(a.func.value, ast.Name) and i < len(tg) and isinstance(tg[i], ast.Name):
                conts[a.func.value.id] = tg[i].id
        if conts:
            out.append((lp, conts))
    return out


def resolve_callees(repo, mod, call, scope=None):
    """Candidate FunctionDefs: the direct callee, or every function in a module-level dispatch table the local callee was read from."""
    one = resolve_callee(repo, mod, call)
    if one is not None:
        return [one]
    if scope is not None and isinstance(call.func, ast.Name):
        vals = [n.value for n in ast.walk(scope) if isinstance(n, ast.Assign) and isinstance(n.targets[0], ast.Name) and n.targets[0].id == call.func.id]
        if vals and isinstance(vals[-1], ast.Subscript) and isinstance(vals[-1].value, ast.Name):
            try:
                table = mod.assign(vals[-1].value.id)
            except Exception:
                table = None
            if isinstance(table, ast.Dict):
                out = []
                for v in table.values:
                    try:
                        out.append(mod.func(unparse(v)))
                    except Exception:
                        return []
                return out
    return []


def resolve_callee(repo, mod, call):
    """FunctionDef of the callee if it is a module-level function of this module or of an imported irispie module."""
    name = dotted(call.func)
    if not name:
        return None
    parts = name.split(".")
    try:
        if len(parts) == 1:
            tgt = mod.aliases.get(parts[0])
            if tgt and tgt.startswith("irispie.") and tgt.rsplit(".", 1)[0] in repo.modules:
                return repo.modules[tgt.rsplit(".", 1)[0]].func(tgt.rsplit(".", 1)[1])
            return mod.func(parts[0])
        if len(parts) == 2 and parts[0] in mod.aliases:
            tgt = mod.aliases[parts[0]]
            if tgt in repo.modules:
                return repo.modules[tgt].func(parts[1])
    except Exception:
        return None
    return None


def findings(repo, mod, f):
    """Yield (loop, container, ok, detail, node) for every variant loop of f."""
    for lp, conts in variant_loops(f):
        hits = {c: [] for c in conts}
        undecided = {c: [] for c in conts}
        for st in lp.body:
            for c in ast.walk(st):
                if not isinstance(c, ast.Call):
                    continue
                if isinstance(c.func, ast.Attribute) and isinstance(c.func.value, ast.Name) and c.func.value.id in conts \
                        and c.func.attr in VARIANT_ACCESSORS:
                    hits[c.func.value.id].append((c, f"asks the container for variant data: {unparse(c)[:60]} (defaults to variant 0)"))
                actuals = [(i, a, None) for i, a in enumerate(c.args)] + [(None, k.value, k.arg) for k in c.keywords]
                for i, a, kwname in actuals:
                    if not (isinstance(a, ast.Name) and a.id in conts):
                        continue
                    callees = resolve_callees(repo, mod, c, f)
                    if not callees:
                        if isinstance(c.func, ast.Attribute) and isinstance(c.func.value, ast.Name) and c.func.value.id in conts.values():
                            continue        # variant.method(container): the variant is the subject
                        undecided[a.id].append((c, f"passed to unresolved callee {unparse(c.func)}"))
                        continue
                    for callee in callees:
                        ps = params(callee)
                        pname = kwname if kwname is not None else (ps[i] if i < len(ps) else None)
                        if pname is not None and _is_variant_param(pname):
                            hits[a.id].append((c, f"passed as per-variant parameter {pname!r} of {callee.name} (the loop's variant is {conts[a.id]})"))
                        elif pname is not None and any(isinstance(x, ast.Call) and isinstance(x.func, ast.Attribute) and x.func.attr in VARIANT_ACCESSORS
                                                       and isinstance(x.func.value, ast.Name) and x.func.value.id == pname for x in ast.walk(callee)):
                            hits[a.id].append((c, f"passed as parameter {pname!r} of {callee.name}, which reads variant data from it with its default "
                                                  f"variant (the loop's variant is {conts[a.id]})"))
        for cont, var in conts.items():
            if hits[cont]:
                node, why = hits[cont][0]
                yield lp, cont, False, f"inside the loop over {cont}.iter_variants() the container {cont} is {why}: every variant is computed from variant 0", node
            elif undecided[cont]:
                node, why = undecided[cont][0]
                yield lp, cont, None, f"container {cont} {why}", node
            else:
                yield lp, cont, True, f"loop body uses {var}, never the container {cont}, where a variant is expected", lp


_POSITIVE = '''
def helper(model_v, ds_v):
    return ds_v
def run(self, ds):
    for vid, model_v, ds_v in zip(range(3), self.iter_variants(), ds.iter_variants()):
        helper(model_v, ds)
'''
_NEGATIVE = _POSITIVE.replace("helper(model_v, ds)", "helper(model_v, ds_v)")


def self_check():
    from .core import AnalysisError

    class _M:
        aliases = {}

        def __init__(self, src):
            self.tree = ast.parse(src)

        def func(self, name):
            return next(n for n in self.tree.body if isinstance(n, ast.FunctionDef) and n.name == name)

    class _R:
        modules = {}
    for src, want in ((_POSITIVE, [True, False]), (_NEGATIVE, [True, True])):
        m = _M(src)
        got = sorted(ok for _, _, ok, _, _ in findings(_R(), m, m.func("run")))
        if got != sorted(want):
            raise AnalysisError(f"variant-loop rule self-check failed: {got}")
    return 2


def apply(chk, rid, sites, floor=None):
    """Declare and evaluate the rule for the given (module, function) sites."""
    chk.rule(rid, "per-variant loops (for ..., X_v in zip(..., X.iter_variants(), ...)) work on the variant: inside the loop the "
             "container X is neither passed to a callee's per-variant parameter (*_v) nor asked for variant data "
             "(X.get_data_variant() defaults to variant 0)", floor=floor if floor is not None else len(sites), shape_independent=True)
    n = self_check()
    for modname, qual in sites:
        m = chk.repo.mod(modname)
        f = m.func(qual)
        chk.saw(m, qual)
        short = modname.replace("irispie.", "")
        got = list(findings(chk.repo, m, f))
        if not got:
            from .core import AnalysisError
            raise AnalysisError(f"anchor vanished: no loop over iter_variants() in {modname}:{qual}")
        for lp, cont, ok, detail, node in got:
            chk.ob(rid, f"{short}.{qual}[variant loop: {cont}]", ok, detail, m.loc(node))


# ---------------------------------------------------------------------------------------------------------------------------------
# per-variant functions must hand their variant to wrappers that would otherwise fall back to variant 0
# ---------------------------------------------------------------------------------------------------------------------------------

def defaulting_wrappers(repo):
    """{method name: [(module, qual, parameter name, position)]} - methods with a per-variant parameter that defaults to None and is
    replaced, when None, by the first variant of the container (p = self._variants[0] / self.get_variant(0) / next(iter_variants))"""
    out = {}
    for m in repo.modules.values():
        for q, f in m.functions():
            if "." not in q:
                continue
            a = f.args
            pos = a.posonlyargs + a.args
            dflt = dict(zip([x.arg for x in pos][len(pos) - len(a.defaults):], a.defaults))
            dflt.update({x.arg: d for x, d in zip(a.kwonlyargs, a.kw_defaults) if d is not None})
            for i, x in enumerate(pos + a.kwonlyargs):
                p = x.arg
                if not _is_variant_param(p) or p not in dflt or not (isinstance(dflt[p], ast.Constant) and dflt[p].value is None):
                    continue
                falls_back = any(isinstance(n, ast.Assign) and any(isinstance(t, ast.Name) and t.id == p for t in n.targets)
                                 and ("_variants[0]" in unparse(n.value) or "get_variant(0" in unparse(n.value) or "iter_variants" in unparse(n.value))
                                 for n in ast.walk(f))
                if falls_back:
                    out.setdefault(f.name, []).append((m.name, q, p, (i - 1) if i < len(pos) else None))
    return out


def wrapper_findings(repo, mod, f, wrappers=None):
    """Yield (call, ok, detail) for calls, inside a per-variant function (one with a *_v / variant parameter), of a defaulting wrapper"""
    wrappers = wrappers if wrappers is not None else defaulting_wrappers(repo)
    mine = [p for p in all_params(f) if _is_variant_param(p)]
    mine += [t.id for lp in ast.walk(f) if isinstance(lp, (ast.For, ast.comprehension)) for t in ast.walk(lp.target)
             if isinstance(t, ast.Name) and _is_variant_param(t.id) and ("variants" in unparse(lp.iter))]
    if not mine:
        return
    for c in ast.walk(f):
        if not (isinstance(c, ast.Call) and isinstance(c.func, ast.Attribute) and c.func.attr in wrappers):
            continue
        if isinstance(c.func.value, ast.Name) and c.func.value.id in mine:
            continue                       # a method of the variant itself
        for (wm, wq, p, pos) in wrappers[c.func.attr]:
            given = any(k.arg == p for k in c.keywords) or (pos is not None and len(c.args) > pos) or any(k.arg is None for k in c.keywords)
            yield c, given, (f"{unparse(c.func)}(...) is given the variant" if given else
                             f"{unparse(c.func)}(...) is called without {p}= inside a function that works on the variant {mine[0]!r}: "
                             f"{wq.split('.')[-1]} falls back to the container's first variant, so every variant is computed from variant 0")
            break


_WRAP_EXAMPLE = '''
class M:
    def make(self, variant=None, **kw):
        if variant is None:
            variant = self._variants[0]
        return variant.make(**kw)
    def good(self, variant, n):
        return self.make(variant=variant, n=n)
    def good2(self, variant, n):
        return variant.make(n=n)
    def bad(self, variant, n):
        return self.make(n=n)
    def outside(self, n):
        return self.make(n=n)
'''


def wrapper_self_check():
    from .core import AnalysisError

    class _M:
        aliases = {}
        name = "ex"

        def __init__(self, src):
            self.tree = ast.parse(src)

        def functions(self):
            for c in self.tree.body:
                if isinstance(c, ast.ClassDef):
                    for f in c.body:
                        if isinstance(f, ast.FunctionDef):
                            yield f"{c.name}.{f.name}", f

    class _R:
        pass
    m = _M(_WRAP_EXAMPLE)
    r = _R()
    r.modules = {"ex": m}
    w = defaulting_wrappers(r)
    got = {q.split(".")[1]: [ok for _, ok, _ in wrapper_findings(r, m, f, w)] for q, f in m.functions()}
    if list(w) != ["make"] or got != {"make": [], "good": [True], "good2": [], "bad": [False], "outside": []}:
        raise AnalysisError(f"variant-wrapper rule self-check failed: {w} {got}")
    return 5


def apply_wrappers(chk, rid, packages, floor=1):
    chk.rule(rid, "a function that works on one variant (it has a variant / *_v parameter) hands that variant to every container method "
             "that would otherwise fall back to the container's first variant (methods with variant=None replaced by self._variants[0]); "
             "wrappers found by scanning the repository", floor=floor, shape_independent=True)
    n_ex = wrapper_self_check()
    w = defaulting_wrappers(chk.repo)
    n = 0
    for m in chk.repo.modules.values():
        top = m.name.split(".")[1] if "." in m.name else m.name
        if top not in packages:
            continue
        short = m.name.replace("irispie.", "")
        for q, f in m.functions():
            for c, ok, detail in wrapper_findings(chk.repo, m, f, w):
                n += 1
                chk.saw(m, q)
                chk.ob(rid, f"{short}.{q}[{c.func.attr}]", ok, detail, m.loc(c), sure=True)
    chk.ok(rid, "wrappers", f"{len(w)} variant-defaulting wrapper(s) in the repository: {sorted(w)}; {n} call(s) from per-variant functions in "
           f"{'/'.join(sorted(packages))}; embedded example classified as expected ({n_ex} methods)", "")

"""
RECON: an object rebuilt from itself carries every field.

Methods that return a modified copy write `type(self)(a, b, c)` (or `Span(...)` inside Span). If the call has arguments at all (the empty
`type(self)()` followed by attribute-by-attribute copying is a different idiom) it must supply every parameter of __init__ that __init__
stores on self: a parameter left to its default silently resets that field (a stepped span comes back with step 1).
"""
from __future__ import annotations

import ast

from .core import dotted, unparse


def init_fields(cls):
    """[(parameter, has default)] of the __init__ parameters that __init__ stores on self (self.x = p / self._x = f(p))"""
    init = next((f for f in cls.body if isinstance(f, ast.FunctionDef) and f.name == "__init__"), None)
    if init is None:
        return None
    a = init.args
    pos = [x.arg for x in a.posonlyargs + a.args][1:]
    n_dflt = len(a.defaults)
    stored = set()
    for n in ast.walk(init):
        if isinstance(n, ast.Assign) and any(isinstance(t, ast.Attribute) and isinstance(t.value, ast.Name) and t.value.id == "self" for t in n.targets):
            stored |= {x.id for x in ast.walk(n.value) if isinstance(x, ast.Name)}
    return [(p, i >= len(pos) - n_dflt, p in stored) for i, p in enumerate(pos)]


def rebuild_calls(cls):
    """[(method, call)] for type(self)(...) / <ClassName>(...) calls with at least one argument inside instance methods"""
    out = []
    for f in cls.body:
        if not isinstance(f, ast.FunctionDef) or f.name == "__init__":
            continue
        if any((dotted(d) or "") in ("classmethod", "staticmethod") for d in f.decorator_list):
            continue
        for c in ast.walk(f):
            if not isinstance(c, ast.Call) or not (c.args or c.keywords):
                continue
            is_type_self = isinstance(c.func, ast.Call) and dotted(c.func.func) == "type" and len(c.func.args) == 1 \
                and isinstance(c.func.args[0], ast.Name) and c.func.args[0].id == "self"
            if is_type_self:
                out.append((f, c))
    return out


_EXAMPLE = '''
class S:
    def __init__(self, a, b, step=1):
        self._a = a
        self._b = b
        self._step = step
    def good(self, k):
        return type(self)(self._a + k, self._b + k, self._step)
    def good_kw(self, k):
        return type(self)(self._a + k, self._b + k, step=self._step)
    def bad(self, k):
        return type(self)(self._a + k, self._b + k)
    def empty(self):
        new = type(self)()
        return new
'''


def self_check():
    from .core import AnalysisError
    cls = ast.parse(_EXAMPLE).body[0]
    got = {f.name: missing(cls, c) for f, c in rebuild_calls(cls)}
    if got != {"good": [], "good_kw": [], "bad": ["step"]}:
        raise AnalysisError(f"RECON self-check failed: {got}")
    return 4


def missing(cls, call):
    fields = init_fields(cls) or []
    if any(isinstance(a, ast.Starred) for a in call.args) or any(k.arg is None for k in call.keywords):
        return []
    given_kw = {k.arg for k in call.keywords}
    return [p for i, (p, has_default, stored) in enumerate(fields) if stored and i >= len(call.args) and p not in given_kw]


def apply(chk, rid, packages, floor=5):
    chk.rule(rid, "an object rebuilt from itself carries every field: a call type(self)(...) with arguments, inside an instance method, supplies every "
             "__init__ parameter that __init__ stores on self (none is left to its default: a stepped or reversed span must not come back with "
             "step 1 after resolve / shifting / arithmetic)", floor=floor, shape_independent=True)
    n_ex = self_check()
    n = 0
    for m in chk.repo.modules.values():
        top = m.name.split(".")[1] if "." in m.name else m.name
        if top not in packages:
            continue
        short = m.name.replace("irispie.", "")
        for cls in [x for x in ast.walk(m.tree) if isinstance(x, ast.ClassDef)]:
            if init_fields(cls) is None:
                continue
            seen = {}
            for f, c in rebuild_calls(cls):
                k = seen[f.name] = seen.get(f.name, 0) + 1
                n += 1
                chk.saw(m, f"{cls.name}.{f.name}")
                miss = missing(cls, c)
                chk.ob(rid, f"{short}.{cls.name}.{f.name}[rebuild {k}]", not miss,
                       f"{unparse(c)[:70]} supplies every stored field" if not miss else
                       f"{unparse(c)[:70]} leaves {miss} to the default of __init__: the new object forgets self's value", m.loc(c), sure=True)
    chk.ok(rid, "self-check", f"embedded example classified as expected ({n_ex} methods); {n} rebuild call(s) in {'/'.join(sorted(packages))}", "")

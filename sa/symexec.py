"""
Abstract interpreter for straight-line numeric code (assignments, tuple unpacking,
if/else forks, returns). It maps locals to algebraic IR (sa.alg); it never runs repo code.

Abstract values:
    IR tuples (see sa.alg)           numeric expressions
    Obj(kind, fields)                record with named IR fields (e.g. an aldi Atom)
    Tup(items)                       tuple of abstract values
    PW({'lt':..,'eq':..,'gt':..})    piecewise numeric value on the sign of (lhs - rhs) of a mask
    Opaque(text)                     anything else; using it numerically raises Undecided
"""
from __future__ import annotations

import ast
from dataclasses import dataclass, field

from . import alg
from .alg import Undecided
from .core import dotted, strip_docstring, is_str_expr_stmt, unparse

IR_TAGS = {"num", "sym", "add", "sub", "mul", "div", "neg", "pow", "app"}


def is_ir(v):
    return isinstance(v, tuple) and v and v[0] in IR_TAGS


@dataclass(frozen=True)
class Obj:
    kind: str
    fields: tuple  # tuple of (name, value)

    def get(self, name):
        for k, v in self.fields:
            if k == name:
                return v
        return None


def obj(kind, **fields):
    return Obj(kind, tuple(fields.items()))


@dataclass(frozen=True)
class Tup:
    items: tuple


@dataclass(frozen=True)
class Opaque:
    text: str


@dataclass(frozen=True)
class Mask:
    region: str  # 'lt' | 'eq' | 'gt' | 'le' | 'ge' | 'ne'
    lhs: tuple
    rhs: tuple


@dataclass(frozen=True)
class PW:
    """value on the regions lhs<rhs, lhs==rhs, lhs>rhs of one mask"""
    lt: object
    eq: object
    gt: object
    lhs: object = None
    rhs: object = None

    def map(self, f):
        return PW(f(self.lt), f(self.eq), f(self.gt), self.lhs, self.rhs)

    def set(self, region, val):
        regs = {"lt": ("lt",), "eq": ("eq",), "gt": ("gt",), "le": ("lt", "eq"), "ge": ("gt", "eq"), "ne": ("lt", "gt")}[region]
        d = {"lt": self.lt, "eq": self.eq, "gt": self.gt}
        for r in regs:
            d[r] = val
        return PW(lhs=self.lhs, rhs=self.rhs, **d)


class Return(Exception):
    pass


class Interp:
    """
    Subclass and override hooks:
        call(node, env, name)   -> abstract value or NotImplemented
        attr(base, attrname, node, env) -> abstract value or NotImplemented
        test(node, env)         -> True / False / None (fork)
    """
    max_paths = 64

    def __init__(self):
        self.paths = 0

    # ---- hooks ---------------------------------------------------------------------------
    def call(self, node, env, name):
        return NotImplemented

    def attr(self, base, attrname, node, env):
        return NotImplemented

    def test(self, node, env):
        return None

    def correlate(self, test_node) -> bool:
        """True if two occurrences of this test on one path must agree (its operands are never reassigned)."""
        return False

    def name(self, ident, env):
        """Unbound name."""
        return alg.sym(ident)

    # ---- expressions -----------------------------------------------------------------------
    def ev(self, node, env):
        if isinstance(node, ast.Constant):
            if isinstance(node.value, bool) or node.value is None or isinstance(node.value, str):
                return Opaque(repr(node.value))
            return alg.num(node.value)
        if isinstance(node, ast.Name):
            if node.id in env:
                return env[node.id]
            return self.name(node.id, env)
        if isinstance(node, ast.Tuple):
            return Tup(tuple(self.ev(e, env) for e in node.elts))
        if isinstance(node, ast.Attribute):
            dn = dotted(node)
            if dn is not None and dn in env:
                return env[dn]           # value stored earlier through an attribute assignment
            base = self.ev(node.value, env) if not isinstance(node.value, ast.Name) or node.value.id in env else None
            if base is not None:
                if isinstance(base, Obj):
                    v = base.get(node.attr)
                    if v is not None:
                        return v
                r = self.attr(base, node.attr, node, env)
                if r is not NotImplemented:
                    return r
                # x.T of numeric is numeric transposition: keep as function
                return Opaque(unparse(node))
            r = self.attr(None, node.attr, node, env)
            if r is not NotImplemented:
                return r
            d = dotted(node)
            return alg.sym(d) if d else Opaque(unparse(node))
        if isinstance(node, ast.UnaryOp):
            v = self.ev(node.operand, env)
            if isinstance(node.op, ast.USub):
                return self.neg(v, node, env)
            if isinstance(node.op, ast.UAdd):
                return v
            return Opaque(unparse(node))
        if isinstance(node, ast.BinOp):
            a, b = self.ev(node.left, env), self.ev(node.right, env)
            op = alg._BINOPS.get(type(node.op))
            if op is None:
                if isinstance(node.op, ast.MatMult) and is_ir(a) and is_ir(b):
                    return alg.app("matmul", a, b)      # opaque, non-commutative product
                return Opaque(unparse(node))
            return self.binop(op, a, b, node, env)
        if isinstance(node, ast.Compare) and len(node.ops) == 1:
            a, b = self.ev(node.left, env), self.ev(node.comparators[0], env)
            reg = {ast.Lt: "lt", ast.Gt: "gt", ast.Eq: "eq", ast.LtE: "le", ast.GtE: "ge", ast.NotEq: "ne"}.get(type(node.ops[0]))
            if reg and is_ir(a) and is_ir(b):
                return Mask(reg, a, b)
            return Opaque(unparse(node))
        if isinstance(node, ast.Subscript):
            base = self.ev(node.value, env)
            idx = self.ev(node.slice, env)
            if isinstance(idx, Mask):
                # value restricted to a region: same expression
                if isinstance(base, PW):
                    return {"lt": base.lt, "eq": base.eq, "gt": base.gt}.get(idx.region, Opaque(unparse(node)))
                return base
            if isinstance(base, Tup) and is_ir(idx) and idx[0] == "num":
                return base.items[int(idx[1])]
            return Opaque(unparse(node))
        if isinstance(node, ast.Call):
            name = dotted(node.func)
            r = self.call(node, env, name)
            if r is not NotImplemented:
                return r
            head = alg.func_head(name) if name else None
            if head and not node.keywords:
                args = [self.ev(a, env) for a in node.args]
                return self.apply(head, args, node)
            return Opaque(unparse(node))
        if isinstance(node, ast.IfExp):
            t = self.test(node.test, env)
            if t is True:
                return self.ev(node.body, env)
            if t is False:
                return self.ev(node.orelse, env)
            return Opaque(unparse(node))
        return Opaque(unparse(node))

    def num_of(self, v, what=""):
        if is_ir(v):
            return v
        raise Undecided(f"non-numeric value in arithmetic: {v!r} {what}")

    def neg(self, v, node, env):
        if isinstance(v, PW):
            return v.map(lambda x: alg.neg(self.num_of(x)))
        return alg.neg(self.num_of(v, unparse(node)))

    def binop(self, op, a, b, node, env):
        if isinstance(a, PW) or isinstance(b, PW):
            A = a if isinstance(a, PW) else PW(a, a, a)
            B = b if isinstance(b, PW) else PW(b, b, b)
            if A.lhs is not None and B.lhs is not None and (A.lhs, A.rhs) != (B.lhs, B.rhs):
                raise Undecided("piecewise values over different masks")
            l, r = (A.lhs, A.rhs) if A.lhs is not None else (B.lhs, B.rhs)
            return PW((op, self.num_of(A.lt), self.num_of(B.lt)),
                      (op, self.num_of(A.eq), self.num_of(B.eq)),
                      (op, self.num_of(A.gt), self.num_of(B.gt)), l, r)
        return (op, self.num_of(a, unparse(node)), self.num_of(b, unparse(node)))

    def apply(self, head, args, node):
        if any(isinstance(a, PW) for a in args):
            raise Undecided("function of piecewise value")
        return alg.app(head, *[self.num_of(a, unparse(node)) for a in args])

    # ---- statements ------------------------------------------------------------------------
    def run(self, body, env):
        """Returns list of (env, retval|None). Forks on undecidable tests."""
        body = strip_docstring(list(body))
        return self._run(body, dict(env))

    def _run(self, stmts, env):
        for i, st in enumerate(stmts):
            if is_str_expr_stmt(st) or isinstance(st, ast.Pass):
                continue
            if isinstance(st, ast.Return):
                return [(env, self.ev(st.value, env) if st.value is not None else Opaque("None"))]
            if isinstance(st, ast.Assign):
                val = self.ev(st.value, env)
                for t in st.targets:
                    self.assign(t, val, env, st)
                continue
            if isinstance(st, ast.AnnAssign):
                if st.value is not None:
                    self.assign(st.target, self.ev(st.value, env), env, st)
                continue
            if isinstance(st, ast.AugAssign):
                op = alg._BINOPS.get(type(st.op))
                cur = self.ev(st.target, env)
                val = self.ev(st.value, env)
                if op is None:
                    self.assign(st.target, Opaque(unparse(st)), env, st)
                else:
                    self.assign(st.target, self.binop(op, cur, val, st, env), env, st)
                continue
            if isinstance(st, ast.If):
                t = self.test(st.test, env)
                key = ("__decision__", unparse(st.test))
                if t is None and self.correlate(st.test) and key in env:
                    t = env[key]
                rest = stmts[i + 1:]
                out = []
                branches = []
                if t is not False:
                    branches.append(st.body)
                if t is not True:
                    branches.append(st.orelse)
                for br in branches:
                    self.paths += 1
                    if self.paths > self.max_paths:
                        raise Undecided("too many paths")
                    env_b = dict(env)
                    if t is None and self.correlate(st.test):
                        env_b[key] = br is st.body
                    for e2, r2 in self._run(strip_docstring(list(br)), env_b):
                        if r2 is not None:
                            out.append((e2, r2))
                        else:
                            out.extend(self._run(rest, e2))
                return out
            if isinstance(st, ast.Expr):
                self.expr_stmt(st, env)
                continue
            if isinstance(st, ast.Raise):
                return []  # path ends exceptionally: no obligations on it
            self.other_stmt(st, env)
        return [(env, None)]

    def expr_stmt(self, st, env):
        pass

    def other_stmt(self, st, env):
        raise Undecided(f"statement {type(st).__name__}: {unparse(st)[:60]}")

    def assign(self, target, val, env, st):
        if isinstance(target, ast.Name):
            env[target.id] = val
        elif isinstance(target, (ast.Tuple, ast.List)):
            if isinstance(val, Tup) and len(val.items) == len(target.elts) and not any(isinstance(t, ast.Starred) for t in target.elts):
                for t, v in zip(target.elts, val.items):
                    self.assign(t, v, env, st)
            elif isinstance(val, Tup) and sum(isinstance(t, ast.Starred) for t in target.elts) == 1 \
                    and len(val.items) >= len(target.elts) - 1:
                i = next(k for k, t in enumerate(target.elts) if isinstance(t, ast.Starred))
                after = len(target.elts) - i - 1
                for t, v in zip(target.elts[:i], val.items[:i]):
                    self.assign(t, v, env, st)
                self.assign(target.elts[i].value, Tup(tuple(val.items[i:len(val.items) - after])), env, st)
                for t, v in zip(target.elts[i + 1:], val.items[len(val.items) - after:]):
                    self.assign(t, v, env, st)
            else:
                for t in target.elts:
                    self.assign(t, Opaque(f"unpack of {unparse(st.value)[:40]}"), env, st)
        elif isinstance(target, ast.Subscript) and isinstance(target.value, ast.Name):
            idx = self.ev(target.slice, env)
            base = env.get(target.value.id)
            if isinstance(idx, Mask) and base is not None:
                if not isinstance(base, PW):
                    base = PW(base, base, base, idx.lhs, idx.rhs)
                elif base.lhs is None:
                    base = PW(base.lt, base.eq, base.gt, idx.lhs, idx.rhs)
                elif (base.lhs, base.rhs) != (idx.lhs, idx.rhs):
                    raise Undecided("masked stores over different masks")
                env[target.value.id] = base.set(idx.region, val)
            else:
                env[target.value.id] = Opaque(f"store {unparse(st)[:40]}")
        elif isinstance(target, ast.Starred):
            self.assign(target.value, Opaque("starred"), env, st)
        elif isinstance(target, ast.Attribute):
            self.attr_store(target, val, env, st)
        else:
            raise Undecided(f"assignment target {unparse(target)}")

    def attr_store(self, target, val, env, st):
        # record under dotted name
        d = dotted(target)
        if d:
            env[d] = val

"""
ALG: expression algebra — a normaliser, not a solver.

IR (hashable tuples):
    ('num', Fraction) ('sym', name) ('add', a, b) ('sub', a, b) ('mul', a, b)
    ('div', a, b) ('neg', a) ('pow', a, b) ('app', fname, (args...))

Normal form: rational function num/den, both polynomials with Fraction coefficients over
monomials of atoms with Fraction exponents. Atoms:
    ('sym', name)                         a free symbol (positive real where log is applied)
    ('E', monokey)                        exp of a coefficient-free monomial
    ('L', atom)                           log of an atom
    ('app', f, (argkeys...))              opaque application
    ('ppow', polykey, Fraction)           non-monomial base to a non-integer power
Rewrite rules (identities on the reals where defined):
    exp(sum c_i m_i) = prod E(m_i)^c_i ; E(L(a)) = a ; log(c prod a_i^e_i) = log c + sum e_i L(a_i)
    L(E(m)) = m ; sqrt u = u^(1/2) ; a**b (b symbolic) = exp(b log a) ; expit(x) = 1/(1+exp(-x))
Two expressions are reported equal iff num1*den2 == num2*den1 as polynomials over the atoms.
"""
from __future__ import annotations

import ast
from fractions import Fraction

from .core import dotted


class Undecided(Exception):
    pass


# ---------------------------------------------------------------------------
# IR constructors
# ---------------------------------------------------------------------------

def num(x):
    if isinstance(x, float):
        return ("num", Fraction(str(x)))
    return ("num", Fraction(x))


def sym(n):
    return ("sym", n)


def add(a, b): return ("add", a, b)
def sub(a, b): return ("sub", a, b)
def mul(a, b): return ("mul", a, b)
def div(a, b): return ("div", a, b)
def neg(a): return ("neg", a)
def pow_(a, b): return ("pow", a, b)
def app(f, *args): return ("app", f, tuple(args))


ZERO = num(0)
ONE = num(1)


def subst(e, env: dict):
    """Substitute symbols by IR expressions."""
    t = e[0]
    if t == "num":
        return e
    if t == "sym":
        return env.get(e[1], e)
    if t == "app":
        return ("app", e[1], tuple(subst(a, env) for a in e[2]))
    return (t,) + tuple(subst(a, env) for a in e[1:])


def symbols(e, out=None):
    out = set() if out is None else out
    t = e[0]
    if t == "sym":
        out.add(e[1])
    elif t == "app":
        for a in e[2]:
            symbols(a, out)
    elif t != "num":
        for a in e[1:]:
            symbols(a, out)
    return out


def show(e) -> str:
    t = e[0]
    if t == "num":
        return str(e[1])
    if t == "sym":
        return e[1]
    if t == "neg":
        return f"-({show(e[1])})"
    if t == "app":
        return f"{e[1]}({', '.join(show(a) for a in e[2])})"
    op = {"add": "+", "sub": "-", "mul": "*", "div": "/", "pow": "**"}[t]
    return f"({show(e[1])} {op} {show(e[2])})"


# ---------------------------------------------------------------------------
# Polynomials over atoms
# ---------------------------------------------------------------------------

def _akey(atom):
    return repr(atom)


def mono_mul(m1, m2):
    d = dict(m1)
    for a, e in m2:
        d[a] = d.get(a, 0) + e
        if d[a] == 0:
            del d[a]
    return tuple(sorted(d.items(), key=lambda kv: _akey(kv[0])))


def mono_pow(m, q):
    return tuple(sorted(((a, e * q) for a, e in m), key=lambda kv: _akey(kv[0])))


def p_const(c):
    c = Fraction(c)
    return {(): c} if c != 0 else {}


def p_atom(atom, e=1):
    return {((atom, Fraction(e)),): Fraction(1)}


def p_add(p, q, s=1):
    r = dict(p)
    for m, c in q.items():
        v = r.get(m, 0) + s * c
        if v == 0:
            r.pop(m, None)
        else:
            r[m] = v
    return r


def p_mul(p, q):
    r = {}
    for m1, c1 in p.items():
        for m2, c2 in q.items():
            m = mono_mul(m1, m2)
            v = r.get(m, 0) + c1 * c2
            if v == 0:
                r.pop(m, None)
            else:
                r[m] = v
    return r


def p_scale(p, c):
    return {m: v * c for m, v in p.items()} if c != 0 else {}


def p_key(p):
    return tuple(sorted(((m, c) for m, c in p.items()), key=lambda mc: repr(mc[0])))


def p_is_const(p):
    return all(m == () for m in p)


def p_const_value(p):
    return p.get((), Fraction(0))


class Rat:
    """num/den with den != 0; reduced only by monomial denominators."""
    __slots__ = ("n", "d")

    def __init__(self, n, d=None):
        d = p_const(1) if d is None else d
        if not d:
            raise Undecided("division by zero polynomial")
        if len(d) == 1:
            # monomial denominator: divide through => Laurent polynomial, den = 1
            (m, c), = d.items()
            if m != () or c != 1:
                inv = mono_pow(m, -1)
                n = {mono_mul(mm, inv): cc / c for mm, cc in n.items()}
                d = p_const(1)
        self.n, self.d = n, d

    # arithmetic
    def __add__(self, o):
        if self.d == o.d:
            return Rat(p_add(self.n, o.n), self.d)
        return Rat(p_add(p_mul(self.n, o.d), p_mul(o.n, self.d)), p_mul(self.d, o.d))

    def __neg__(self):
        return Rat(p_scale(self.n, -1), self.d)

    def __sub__(self, o):
        return self + (-o)

    def __mul__(self, o):
        return Rat(p_mul(self.n, o.n), p_mul(self.d, o.d))

    def inv(self):
        if not self.n:
            raise Undecided("division by zero")
        return Rat(self.d, self.n)

    def __truediv__(self, o):
        return self * o.inv()

    def is_zero(self):
        return not self.n

    def equals(self, o) -> bool:
        return p_mul(self.n, o.d) == p_mul(o.n, self.d)

    def is_poly(self):
        return self.d == p_const(1)

    def const(self):
        """Fraction if constant else None"""
        if self.is_poly() and p_is_const(self.n):
            return p_const_value(self.n)
        return None

    def key(self):
        if self.is_poly():
            return ("P", p_key(self.n))
        # make denominator's first coefficient 1
        dk = p_key(self.d)
        c = dk[0][1]
        return ("R", p_key(p_scale(self.n, 1 / c)), p_key(p_scale(self.d, 1 / c)))

    def __repr__(self):
        return show_rat(self)


def show_atom(a):
    t = a[0]
    if t == "sym":
        return a[1]
    if t == "E":
        return f"exp({show_mono(a[1])})"
    if t == "L":
        return f"log({show_atom(a[1])})"
    if t == "numatom":
        return str(a[1])
    if t == "app":
        return f"{a[1]}({', '.join(show_key(k) for k in a[2])})"
    if t == "ppow":
        return f"({show_key(a[1])})^{a[2]}"
    return repr(a)


def show_mono(m):
    if not m:
        return "1"
    return "*".join(show_atom(a) + (f"^{e}" if e != 1 else "") for a, e in m)


def show_poly_key(pk):
    if not pk:
        return "0"
    out = []
    for m, c in pk:
        if m == ():
            out.append(str(c))
        elif c == 1:
            out.append(show_mono(m))
        elif c == -1:
            out.append("-" + show_mono(m))
        else:
            out.append(f"{c}*{show_mono(m)}")
    return " + ".join(out)


def show_key(k):
    if k[0] == "P":
        return show_poly_key(k[1])
    return f"({show_poly_key(k[1])})/({show_poly_key(k[2])})"


def show_rat(r: Rat):
    return show_key(r.key())


# ---------------------------------------------------------------------------
# Normalisation
# ---------------------------------------------------------------------------

FUNC_ALIASES = {
    "log": "log", "exp": "exp", "sqrt": "sqrt", "expit": "expit", "logistic": "expit",
    "abs": "abs", "absolute": "abs", "maximum": "maximum", "minimum": "minimum",
    "power": "pow",
}


def _rat_const(c):
    return Rat(p_const(c))


def _exp_of(r: Rat) -> Rat:
    if not r.is_poly():
        return Rat(p_atom(("app", "exp", (r.key(),))))
    out = _rat_const(1)
    for m, c in r.n.items():
        if m == ():
            # exp(constant)
            if c == 0:
                continue
            out = out * Rat(p_atom(("E", ((("numatom", Fraction(1)), Fraction(1)),)), c))
            continue
        # E(L(a)) = a
        if len(m) == 1 and m[0][1] == 1 and m[0][0][0] == "L":
            base = m[0][0][1]
            out = out * _pow_rat(Rat(p_atom(base)), c)
        else:
            out = out * _pow_rat(Rat(p_atom(("E", m))), c)
    return out


def _log_of_atom(a) -> Rat:
    if a[0] == "E":
        return Rat({a[1]: Fraction(1)})
    return Rat(p_atom(("L", a)))


def _log_of(r: Rat) -> Rat:
    if r.is_poly() and len(r.n) == 1:
        (m, c), = r.n.items()
        out = _rat_const(0)
        if c != 1:
            if c <= 0:
                raise Undecided("log of non-positive constant factor")
            out = out + Rat(p_atom(("L", ("numatom", c))))
        for a, e in m:
            out = out + _log_of_atom(a) * _rat_const(e)
        return out
    if not r.n:
        raise Undecided("log(0)")
    # log(n/d) with single-term n and d handled above by Rat reduction; otherwise opaque
    return Rat(p_atom(("L", ("app", "id", (r.key(),)))))


def _pow_rat(base: Rat, q: Fraction) -> Rat:
    q = Fraction(q)
    if q == 0:
        return _rat_const(1)
    if q.denominator == 1:
        k = abs(q.numerator)
        if base.is_poly() and len(base.n) == 1:
            (m, c), = base.n.items()
            r = Rat({mono_pow(m, k): c ** k})
        else:
            r = _rat_const(1)
            if k > 64:
                raise Undecided("integer power too large")
            for _ in range(k):
                r = r * base
        return r if q > 0 else r.inv()
    # fractional exponent
    if base.is_poly() and len(base.n) == 1:
        (m, c), = base.n.items()
        if c <= 0:
            raise Undecided("fractional power of non-positive coefficient")
        r = Rat({mono_pow(m, q): Fraction(1)})
        if c != 1:
            # rational root if exact, else keep constant as an atom
            root = _exact_root(c, q)
            if root is not None:
                r = r * _rat_const(root)
            else:
                r = r * Rat(p_atom(("numatom", c), q))
        return r
    return Rat(p_atom(("ppow", base.key(), Fraction(1)), q)) if True else None


def _exact_root(c: Fraction, q: Fraction):
    def iroot(n, k):
        if n < 0:
            return None
        r = round(n ** (1.0 / k))
        for cand in (r - 1, r, r + 1):
            if cand >= 0 and cand ** k == n:
                return cand
        return None
    k = q.denominator
    a, b = iroot(c.numerator, k), iroot(c.denominator, k)
    if a is None or b is None:
        return None
    return Fraction(a, b) ** q.numerator


def nf(e) -> Rat:
    t = e[0]
    if t == "num":
        return _rat_const(e[1])
    if t == "sym":
        return Rat(p_atom(("sym", e[1])))
    if t == "add":
        return nf(e[1]) + nf(e[2])
    if t == "sub":
        return nf(e[1]) - nf(e[2])
    if t == "mul":
        return nf(e[1]) * nf(e[2])
    if t == "div":
        return nf(e[1]) / nf(e[2])
    if t == "neg":
        return -nf(e[1])
    if t == "pow":
        b, x = nf(e[1]), nf(e[2])
        c = x.const()
        if c is not None:
            return _pow_rat(b, c)
        return _exp_of(x * _log_of(b))
    if t == "app":
        f = FUNC_ALIASES.get(e[1], e[1])
        args = [nf(a) for a in e[2]]
        if f == "exp" and len(args) == 1:
            return _exp_of(args[0])
        if f == "log" and len(args) == 1:
            return _log_of(args[0])
        if f == "sqrt" and len(args) == 1:
            return _pow_rat(args[0], Fraction(1, 2))
        if f == "expit" and len(args) == 1:
            return (_rat_const(1) + _exp_of(-args[0])).inv()
        if f == "pow" and len(args) == 2:
            return nf(("pow", e[2][0], e[2][1]))
        if f == "id" and len(args) == 1:
            return args[0]
        return Rat(p_atom(("app", f, tuple(a.key() for a in args))))
    raise Undecided(f"unknown IR node {t}")


def equal(a, b) -> bool:
    """True iff normal forms coincide (may raise Undecided)."""
    return nf(a).equals(nf(b))


def is_zero(a) -> bool:
    return nf(a).is_zero()


# ---------------------------------------------------------------------------
# Formal differentiation on the IR
# ---------------------------------------------------------------------------

def diff(e, x: str):
    """d e / d x where x is a symbol name."""
    t = e[0]
    if t == "num":
        return ZERO
    if t == "sym":
        return ONE if e[1] == x else ZERO
    if t == "add":
        return add(diff(e[1], x), diff(e[2], x))
    if t == "sub":
        return sub(diff(e[1], x), diff(e[2], x))
    if t == "neg":
        return neg(diff(e[1], x))
    if t == "mul":
        return add(mul(diff(e[1], x), e[2]), mul(e[1], diff(e[2], x)))
    if t == "div":
        return div(sub(mul(diff(e[1], x), e[2]), mul(e[1], diff(e[2], x))), pow_(e[2], num(2)))
    if t == "pow":
        a, b = e[1], e[2]
        da, db = diff(a, x), diff(b, x)
        terms = ZERO
        if x in symbols(a):
            terms = add(terms, mul(mul(b, pow_(a, sub(b, ONE))), da))
        if x in symbols(b):
            terms = add(terms, mul(mul(pow_(a, b), app("log", a)), db))
        return terms
    if t == "app":
        f = FUNC_ALIASES.get(e[1], e[1])
        args = e[2]
        if not any(x in symbols(a) for a in args):
            return ZERO
        if len(args) == 1:
            u = args[0]
            du = diff(u, x)
            if f == "exp":
                return mul(app("exp", u), du)
            if f == "log":
                return div(du, u)
            if f == "sqrt":
                return div(du, mul(num(2), app("sqrt", u)))
            if f == "expit":
                s = app("expit", u)
                return mul(mul(s, sub(ONE, s)), du)
            if f == "id":
                return du
        if f == "pow" and len(args) == 2:
            return diff(pow_(args[0], args[1]), x)
        raise Undecided(f"no differentiation rule for {f}")
    raise Undecided(f"unknown IR node {t}")


# ---------------------------------------------------------------------------
# Python expression AST -> IR
# ---------------------------------------------------------------------------

_BINOPS = {ast.Add: "add", ast.Sub: "sub", ast.Mult: "mul", ast.Div: "div", ast.Pow: "pow"}

# dotted call names mapped to function heads (numpy / scipy / math spellings)
def func_head(name: str) -> str | None:
    if name is None:
        return None
    last = name.split(".")[-1]
    if last in ("log", "exp", "sqrt", "expit", "logistic", "power", "maximum", "minimum", "abs", "absolute"):
        return FUNC_ALIASES[last]
    return None


class ToIR:
    """
    Convert Python expression ASTs to IR.
      env     : name -> IR for locals
      attr    : callable(dotted) -> IR|None for attribute chains like 'self.value'
      call    : callable(node, self) -> IR|None for repo-specific calls
    Unknown constructs raise Undecided.
    """

    def __init__(self, env=None, attr=None, call=None, free_names=True, subscript=None):
        self.env = dict(env or {})
        self.attr = attr
        self.call = call
        self.free_names = free_names
        self.subscript = subscript

    def __call__(self, node):
        return self.conv(node)

    def conv(self, node):
        if isinstance(node, ast.Constant):
            if isinstance(node.value, bool) or not isinstance(node.value, (int, float)):
                raise Undecided(f"non-numeric constant {node.value!r}")
            return num(node.value)
        if isinstance(node, ast.Name):
            if node.id in self.env:
                return self.env[node.id]
            if self.free_names:
                return sym(node.id)
            raise Undecided(f"unbound name {node.id}")
        if isinstance(node, ast.Attribute):
            d = dotted(node)
            if d and self.attr:
                r = self.attr(d)
                if r is not None:
                    return r
            if d and self.free_names:
                return sym(d)
            raise Undecided(f"attribute {ast.unparse(node)}")
        if isinstance(node, ast.Subscript) and self.subscript:
            r = self.subscript(node, self)
            if r is not None:
                return r
        if isinstance(node, ast.UnaryOp):
            if isinstance(node.op, ast.USub):
                return neg(self.conv(node.operand))
            if isinstance(node.op, ast.UAdd):
                return self.conv(node.operand)
            raise Undecided("unary op")
        if isinstance(node, ast.BinOp):
            op = _BINOPS.get(type(node.op))
            if op is None:
                raise Undecided(f"binary op {type(node.op).__name__}")
            return (op, self.conv(node.left), self.conv(node.right))
        if isinstance(node, ast.Call):
            if self.call:
                r = self.call(node, self)
                if r is not None:
                    return r
            name = dotted(node.func)
            head = func_head(name) if name else None
            if head and not node.keywords:
                return app(head, *[self.conv(a) for a in node.args])
            if name in ("float", "int") and len(node.args) == 1:
                return self.conv(node.args[0])
            raise Undecided(f"call {ast.unparse(node)[:60]}")
        raise Undecided(f"expression {type(node).__name__}: {ast.unparse(node)[:60]}")


def parse_expr(text: str, **kw):
    """Parse a Python-syntax expression string into IR."""
    tree = ast.parse(text.strip(), mode="eval")
    return ToIR(**kw).conv(tree.body)


def shift_subscript(node, conv):
    """model-language time shift: name[k] -> symbol 'name@k' (k integer literal); name[0] is name"""
    if isinstance(node.value, ast.Name):
        try:
            k = ast.literal_eval(node.slice)
        except Exception:
            return None
        if isinstance(k, int):
            return sym(node.value.id if k == 0 else f"{node.value.id}@{k}")
    return None


def parse_model_expr(text: str, env=None):
    """Parse a model-language expression (Python syntax, ^ as power, name[k] time shifts) into IR."""
    tree = ast.parse(text.strip().replace("^", "**"), mode="eval")
    return ToIR(env=env, subscript=shift_subscript).conv(tree.body)

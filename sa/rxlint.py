"""
RXLINT: rules over the regular expressions of the model-language front end (nothing is matched; the patterns are parsed by
re._parser and compared as languages with the RX automata).

  patterns(repo, packages)     every _re.compile(<expr>) / _re.sub|findall|... (<expr>, ...) whose pattern expression evaluates to a
                               string from literals, string concatenation and module-level string constants (own module or
                               `<alias>.<NAME>` of an imported irispie module)
  greedy_spans(tree)           an unbounded GREEDY repeat of a wide atom (`.`, a negated set) directly followed by a closing literal
                               / backreference that the atom itself matches: under search/sub semantics the span runs to the LAST
                               closer, swallowing everything between two separate spans (the lazy form `.*?` stops at the first)
  blank_insertion(dfa)         the language { w : w with its blanks removed is in L }
"""
from __future__ import annotations

import ast
import re._constants as C

from . import rx
from .core import dotted, unparse

RE_FUNCS = ("compile", "sub", "subn", "findall", "finditer", "split", "match", "search", "fullmatch")


def module_strings(repo, mod, depth=0):
    """{name: str} of module-level string constants (evaluated in order; concatenations of earlier ones and of imported modules' ones)"""
    from .tpl import eval_str, NotAString
    env = {}
    if depth < 2:
        for alias, tgt in mod.aliases.items():
            if tgt in repo.modules:
                for k, v in module_strings(repo, repo.modules[tgt], depth + 1).items():
                    env[f"{alias}.{k}"] = v
    for st in mod.tree.body:
        if isinstance(st, ast.Assign) and len(st.targets) == 1 and isinstance(st.targets[0], ast.Name):
            v = st.value
            if isinstance(v, ast.Call) and (dotted(v.func) or "").split(".")[-1] == "compile" and v.args:
                v = v.args[0]
            try:
                s = eval_str(v, env)
            except (NotAString, Exception):
                continue
            if isinstance(s, str):
                env[st.targets[0].id] = s
    return env


def patterns(repo, mod):
    """[(name or None, pattern string, flags source, node)] for one module"""
    from .tpl import eval_str, NotAString
    env = module_strings(repo, mod)
    out = []
    named = {}
    for st in mod.tree.body:
        if isinstance(st, ast.Assign) and len(st.targets) == 1 and isinstance(st.targets[0], ast.Name) and isinstance(st.value, ast.Call):
            named[id(st.value)] = st.targets[0].id
    for n in ast.walk(mod.tree):
        if isinstance(n, ast.Call) and isinstance(n.func, ast.Attribute) and n.func.attr in RE_FUNCS and (dotted(n.func.value) or "") in ("_re", "re") and n.args:
            try:
                s = eval_str(n.args[0], env)
            except (NotAString, Exception):
                continue
            if not isinstance(s, str):
                continue
            flags = " ".join(unparse(a) for a in n.args[1:] if "re." in unparse(a)) + " ".join(unparse(k.value) for k in n.keywords if k.arg == "flags")
            out.append((named.get(id(n)), s, flags, n))
    return out


def _atom_chars(op, av, dotall):
    """the character set of a one-character atom, or None"""
    try:
        if op is C.ANY:
            return set(rx.ALPHABET) | ({"\n"} if dotall else set())
        if op in (C.LITERAL, C.NOT_LITERAL, C.IN, C.CATEGORY):
            cs = set(rx._charset(op, av))
            if op is C.NOT_LITERAL or (op is C.IN and av and av[0][0] is C.NEGATE):
                cs = cs | {"\n"} - ({chr(av)} if op is C.NOT_LITERAL else set())
                if op is C.IN and any(o is C.LITERAL and a == 10 for o, a in av):
                    cs.discard("\n")
            return cs
    except rx.Unsupported:
        return None
    return None


def _is_wide(op, av):
    return op is C.ANY or op is C.NOT_LITERAL or (op is C.IN and av and av[0][0] is C.NEGATE)


def greedy_spans(tree, dotall=False, groups=None):
    """[(description)] for every greedy unbounded repeat of a wide atom directly followed by a closer it can itself match"""
    out = []
    groups = {} if groups is None else groups
    items = list(tree)
    for i, (op, av) in enumerate(items):
        if op is C.SUBPATTERN:
            gid, _, _, sub = av
            if gid is not None and len(sub) == 1:
                groups[gid] = _atom_chars(*sub[0], dotall)
            out += greedy_spans(sub, dotall, groups)
        elif op is C.BRANCH:
            for alt in av[1]:
                out += greedy_spans(alt, dotall, groups)
        elif op in (C.MAX_REPEAT, C.MIN_REPEAT):
            lo, hi, sub = av
            out += greedy_spans(sub, dotall, groups)
            if op is C.MAX_REPEAT and hi is C.MAXREPEAT and len(sub) == 1 and _is_wide(*sub[0]) and i + 1 < len(items):
                body = _atom_chars(*sub[0], dotall)
                nop, nav = items[i + 1]
                closer = None
                if nop is C.LITERAL:
                    closer = {chr(nav)}
                elif nop is C.GROUPREF:
                    closer = groups.get(nav)
                elif nop is C.IN and not (nav and nav[0][0] is C.NEGATE):
                    closer = _atom_chars(nop, nav, dotall)
                if body is not None and closer and closer <= body:
                    out.append(f"greedy unbounded repeat of a wide atom followed by the closer {sorted(closer)!r} that the atom also matches")
        elif op in (C.ASSERT, C.ASSERT_NOT):
            out += greedy_spans(av[1], dotall, groups)
    return out


def blank_insertion(d: rx.DFA) -> rx.DFA:
    """{ w : w with all blanks removed is in L(d) }"""
    n = rx.NFA()
    states = [n.new() for _ in d.table]
    n.eps[n.start].add(states[d.start])
    sp = rx._AIDX[" "]
    for q, row in enumerate(d.table):
        by_target = {}
        for i, r in enumerate(row):
            if i != sp:
                by_target.setdefault(r, set()).add(rx.ALPHABET[i])
        for r, cs in by_target.items():
            n.trans[states[q]].append((frozenset(cs), states[r]))
        n.trans[states[q]].append((frozenset({" "}), states[q]))
        if q in d.accepting:
            n.eps[states[q]].add(n.accept)
    return rx.DFA.from_nfa(n)


def intersection(a: rx.DFA, b: rx.DFA) -> rx.DFA:
    index = {(a.start, b.start): 0}
    table = []
    work = [(a.start, b.start)]
    while work:
        p, q = work.pop()
        row = []
        for i in range(len(rx.ALPHABET)):
            st = (a.table[p][i], b.table[q][i])
            if st not in index:
                index[st] = len(index)
                work.append(st)
            row.append(index[st])
        k = index[(p, q)]
        while len(table) <= k:
            table.append(None)
        table[k] = row
    acc = {k for (p, q), k in index.items() if p in a.accepting and q in b.accepting}
    return rx.DFA(table, acc, 0)


def sub_dfa(tree) -> rx.DFA:
    n = rx.NFA()
    n.build(tree, n.start, n.accept)
    return rx.DFA.from_nfa(n)


def group_tree(tree, gid):
    """the subtree of capture group gid"""
    for op, av in tree:
        if op is C.SUBPATTERN:
            if av[0] == gid:
                return av[3]
            r = group_tree(av[3], gid)
            if r is not None:
                return r
        elif op is C.BRANCH:
            for alt in av[1]:
                r = group_tree(alt, gid)
                if r is not None:
                    return r
        elif op in (C.MAX_REPEAT, C.MIN_REPEAT):
            r = group_tree(av[2], gid)
            if r is not None:
                return r
    return None


def between(tree, open_ch, close_ch):
    """the items between the literal open_ch and the literal close_ch in one sequence (searched recursively)"""
    items = list(tree)
    lits = [(i, chr(av)) for i, (op, av) in enumerate(items) if op is C.LITERAL]
    o = next((i for i, c in lits if c == open_ch), None)
    c_ = next((i for i, c in lits if c == close_ch and (o is None or i > o)), None)
    if o is not None and c_ is not None:
        return items[o + 1:c_]
    for op, av in items:
        subs = [av[3]] if op is C.SUBPATTERN else list(av[1]) if op is C.BRANCH else [av[2]] if op in (C.MAX_REPEAT, C.MIN_REPEAT) else []
        for s in subs:
            r = between(s, open_ch, close_ch)
            if r is not None:
                return r
    return None


_EXAMPLES = ((r"([%#]){.*?\1\}", True, 0), (r"([%#]){.*\1\}", True, 1), (r'"[^"\n]*"', False, 0), (r"[%#](?!!).*", False, 0), (r"<+([^>]*)>+", False, 0),
             (r"\(.*\)", False, 1), (r"\([^\)]*\)", False, 0), (r"/\*[^x]*\*/", False, 1))


def self_check():
    from .core import AnalysisError
    for pat, dotall, want in _EXAMPLES:
        got = len(greedy_spans(rx.parse(pat), dotall))
        if got != want:
            raise AnalysisError(f"RXLINT self-check failed on {pat!r}: {got} != {want}")
    d = blank_insertion(rx.compile_regex(r"[+\-]?\d+"))
    if not (d.accepts(" -1 ") and d.accepts("1 2") and d.accepts("-1") and not d.accepts("  ") and not d.accepts("a")):
        raise AnalysisError("RXLINT self-check failed: blank_insertion")
    return len(_EXAMPLES) + 1

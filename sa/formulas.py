"""
Documented change formulas shared by C04 (parser pseudofunctions), C13 (Series methods) and
C17 (LHS / plan transforms). x = current value, y = shifted value, a = periods per year.
This is the one specification table of the checker; everything else is extracted from /repo.
"""
from .alg import sym, num, sub, mul, div, pow_, app

x, y, a = sym("x"), sym("y"), sym("a")

FORMULAS = {
    "none": x,
    "log": app("log", x),
    "diff": sub(x, y),
    "adiff": mul(a, sub(x, y)),
    "diff_log": sub(app("log", x), app("log", y)),
    "adiff_log": mul(a, sub(app("log", x), app("log", y))),
    "roc": div(x, y),
    "aroc": pow_(div(x, y), a),
    "pct": mul(num(100), sub(div(x, y), num(1))),
    "apct": mul(num(100), sub(pow_(div(x, y), a), num(1))),
}

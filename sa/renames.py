"""
RENAMES: neutralise renamed local variables before the rules look at a function.

Several rules identify a value by the *name* of the local variable that holds it in the tree the rule was written against
(`Tg`, `eids_first`, `trend_data`, ...). A maintainer may rename a local without changing behaviour; the rule must not care.
This module translates such renames back, using a reference table of statement shapes (sa/refnames.json, generated from the tree
the rules were written against by tools/gen_refnames.py):

  * every function is cut into simple statements and compound-statement headers;
  * each piece is printed with its local variables replaced by placeholders numbered by first occurrence *within the piece*
    (so the printed shape does not depend on any name) and hashed; the names are kept in placeholder order;
  * at load time the same is computed for the current tree. A piece whose shape occurs exactly once in the reference function and
    exactly once in the current function pairs its names position by position: current name -> reference name;
  * a current local is translated only if (a) it is NOT a local of the reference function (a name that still exists was not
    renamed - this makes it impossible to "translate away" a swap of two existing names), (b) every piece that mentions it votes
    for the same reference name, at least one does, (c) that reference name is not used by the current function any more, and
    (d) the translation is injective.

The table is never used to decide anything: a function that does not match it is analysed as it is. Alpha-renaming locals is
behaviour-preserving by definition, so the translated function is the same program.
"""
from __future__ import annotations

import ast
import hashlib
import json
from pathlib import Path

REF = Path(__file__).resolve().parent / "refnames.json"


def function_locals(f) -> set:
    """names bound in the function (assignment, for, with, comprehension, walrus, except-as), not parameters, not global/nonlocal,
    not nested function/class names, not parameters of nested functions/lambdas"""
    a = f.args
    params = {x.arg for x in a.posonlyargs + a.args + a.kwonlyargs}
    if a.vararg:
        params.add(a.vararg.arg)
    if a.kwarg:
        params.add(a.kwarg.arg)
    declared, bound, nested_defs, nested_params = set(), set(), set(), set()
    for n in ast.walk(f):
        if isinstance(n, (ast.Global, ast.Nonlocal)):
            declared |= set(n.names)
        elif isinstance(n, ast.Name) and isinstance(n.ctx, ast.Store):
            bound.add(n.id)
        elif isinstance(n, ast.ExceptHandler) and n.name:
            pass            # except-as names are strings in the AST, left alone
        elif isinstance(n, (ast.FunctionDef, ast.AsyncFunctionDef, ast.ClassDef)) and n is not f:
            nested_defs.add(n.name)
        if isinstance(n, (ast.FunctionDef, ast.AsyncFunctionDef, ast.Lambda)) and n is not f:
            aa = n.args
            nested_params |= {x.arg for x in aa.posonlyargs + aa.args + aa.kwonlyargs}
            if aa.vararg:
                nested_params.add(aa.vararg.arg)
            if aa.kwarg:
                nested_params.add(aa.kwarg.arg)
    return {b for b in bound if b not in params and b not in declared and b not in nested_defs and b not in nested_params}


def _pieces(f):
    """simple statements and headers of compound statements of f (nested function bodies belong to the nested function)"""
    out = []

    def rec(stmts):
        for st in stmts:
            if isinstance(st, (ast.FunctionDef, ast.AsyncFunctionDef, ast.ClassDef)):
                # a nested def closes over the locals: treat its whole text as one piece (names inside count)
                out.append(st)
                continue
            if isinstance(st, ast.If):
                out.append(ast.Expr(value=st.test))
                rec(st.body); rec(st.orelse)
            elif isinstance(st, (ast.For, ast.AsyncFor)):
                out.append(ast.Assign(targets=[st.target], value=st.iter, lineno=0))
                rec(st.body); rec(st.orelse)
            elif isinstance(st, ast.While):
                out.append(ast.Expr(value=st.test))
                rec(st.body); rec(st.orelse)
            elif isinstance(st, (ast.With, ast.AsyncWith)):
                for it in st.items:
                    out.append(ast.Expr(value=it.context_expr))
                    if it.optional_vars is not None:
                        out.append(ast.Expr(value=it.optional_vars))
                rec(st.body)
            elif isinstance(st, ast.Try):
                rec(st.body)
                for h in st.handlers:
                    rec(h.body)
                rec(st.orelse); rec(st.finalbody)
            elif isinstance(st, ast.Match):
                out.append(ast.Expr(value=st.subject))
                for c in st.cases:
                    rec(c.body)
            else:
                out.append(st)
    rec(f.body)
    return out


def _names_in_order(node, locs, out):
    """Name nodes of local variables in source order (fields in definition order, like ast.unparse prints them)"""
    if isinstance(node, ast.Name):
        if node.id in locs:
            out.append(node)
        return
    for _, value in ast.iter_fields(node):
        if isinstance(value, list):
            for x in value:
                if isinstance(x, ast.AST):
                    _names_in_order(x, locs, out)
        elif isinstance(value, ast.AST):
            _names_in_order(value, locs, out)


def piece_shape(piece, locs):
    """(hash of the name-free text, names in placeholder order); the piece is renamed in place, printed, and restored"""
    if isinstance(piece, ast.Expr) and isinstance(piece.value, ast.Constant):
        return None, []
    nodes = []
    _names_in_order(piece, locs, nodes)
    order = []
    saved = [(n, n.id) for n in nodes]
    try:
        for n in nodes:
            if n.id not in order:
                order.append(n.id)
        for n, old in saved:
            n.id = f"LOCAL{order.index(old)}"
        try:
            text = ast.unparse(piece)
        except Exception:
            return None, []
    finally:
        for n, old in saved:
            n.id = old
    return hashlib.sha1(text.encode()).hexdigest()[:16], order


def describe(f):
    locs = function_locals(f)
    shapes, allh = [], []
    for p in _pieces(f):
        h, names = piece_shape(p, locs)
        if h is None:
            continue
        allh.append(h)
        if names:
            shapes.append([h, names])
    ps = param_names(f)
    allp = []
    both = locs | set(ps)
    for p in _pieces(f):
        h, _ = piece_shape(p, both)
        if h is not None:
            allp.append(h)
    return {"locals": sorted(locs), "shapes": shapes, "all": allh, "params": ps, "allp": allp}


def param_names(f) -> list:
    a = f.args
    out = [x.arg for x in a.posonlyargs + a.args]
    if a.vararg:
        out.append("*" + a.vararg.arg)
    out += [x.arg for x in a.kwonlyargs]
    if a.kwarg:
        out.append("**" + a.kwarg.arg)
    return out


def edit_distance_to_reference(modname, qual, f):
    """(number of statements changed / added / removed relative to the reference function, number of reference statements),
    or None when the reference does not know the function (a new function)."""
    ref = table().get(modname, {}).get(qual)
    if ref is None:
        return None
    from collections import Counter
    cur = Counter(describe(f)["all"])
    old = Counter(ref.get("all", []))
    added = sum((cur - old).values())
    removed = sum((old - cur).values())
    return max(added, removed), sum(old.values())


def translation(f, ref) -> dict:
    """current local -> reference local, per the rules in the module docstring"""
    ref_locals = set(ref["locals"])
    if function_locals(f) == ref_locals:
        return {}
    cur = describe(f)
    cur_locals = set(cur["locals"])
    _comprehension_scoped(f, ref, cur_locals, ref_locals)
    from collections import Counter
    rc = Counter(h for h, _ in ref["shapes"])
    cc = Counter(h for h, _ in cur["shapes"])
    # a shape that occurs equally often on both sides pairs its occurrences in order (k-th with k-th)
    rocc = {}
    for h, names in ref["shapes"]:
        rocc.setdefault(h, []).append(names)
    votes = {}
    seen_k = Counter()
    for h, names in cur["shapes"]:
        k = seen_k[h]
        seen_k[h] += 1
        if h not in rocc or cc[h] != rc[h] or len(rocc[h][k]) != len(names):
            continue
        for c, r in zip(names, rocc[h][k]):
            votes.setdefault(c, Counter())[r] += 1
    out = {}
    for c, cnt in votes.items():
        if c in ref_locals:
            continue                      # still exists in the reference: not a renamed local
        if len(cnt) != 1:
            continue                      # pieces disagree
        r = next(iter(cnt))
        if r in cur_locals:
            continue                      # the reference name is in use in the current function
        out[c] = r
    # injective
    seen = Counter(out.values())
    out = {c: r for c, r in out.items() if seen[r] == 1}
    # every piece that mentions a translated name must have been matched, otherwise part of its uses are unexplained:
    # keep the translation anyway (alpha-renaming is sound whatever the reason), the rules then see the reference name everywhere
    return out


def _comp_bound(piece) -> set:
    out = set()
    for n in ast.walk(piece):
        if isinstance(n, ast.comprehension):
            for x in ast.walk(n.target):
                if isinstance(x, ast.Name):
                    out.add(x.id)
    return out


def _comprehension_scoped(f, ref, cur_locals, ref_locals):
    """Comprehension variables live in the comprehension only, and one short name is often reused by several comprehensions of a
    function; they are translated piece by piece (in place): in a piece whose shape matches its reference piece (k-th occurrence
    with k-th), a comprehension-bound name that the reference function does not know takes the reference name of that position,
    provided that name is not otherwise used in the piece."""
    from collections import Counter
    locs = function_locals(f)
    rocc = {}
    for h, names in ref["shapes"]:
        rocc.setdefault(h, []).append(names)
    pieces = []
    for p in _pieces(f):
        h, names = piece_shape(p, locs)
        if h is not None and names:
            pieces.append((p, h, names))
    cc = Counter(h for _, h, _ in pieces)
    rc = Counter(h for h, _ in ref["shapes"])
    seen_k = Counter()
    for p, h, names in pieces:
        k = seen_k[h]
        seen_k[h] += 1
        if h not in rocc or cc[h] != rc[h] or len(rocc[h][k]) != len(names):
            continue
        bound = _comp_bound(p)
        m = {}
        for c, r in zip(names, rocc[h][k]):
            if c != r and c in bound and c not in ref_locals and r not in names:
                m[c] = r
        if m:
            for n in ast.walk(p):
                if isinstance(n, ast.Name) and n.id in m:
                    n.id = m[n.id]


def apply(f, mapping):
    if not mapping:
        return 0
    n = 0
    for node in ast.walk(f):
        if isinstance(node, ast.Name) and node.id in mapping:
            node.id = mapping[node.id]
            n += 1
    return n


_TABLE = None


def table():
    global _TABLE
    if _TABLE is None:
        try:
            _TABLE = json.loads(REF.read_text())
        except Exception:
            _TABLE = {}
    return _TABLE


def _functions(tree):
    out = {}

    def rec(node, prefix):
        for st in ast.iter_child_nodes(node):
            if isinstance(st, (ast.FunctionDef, ast.AsyncFunctionDef)):
                q = f"{prefix}{st.name}"
                out[q] = st
                rec(st, q + ".")
            elif isinstance(st, ast.ClassDef):
                rec(st, f"{prefix}{st.name}.")
            elif isinstance(st, (ast.If, ast.Try, ast.For, ast.While, ast.With)):
                rec(st, prefix)
    rec(tree, "")
    return out


def _is_private(qual, funcs) -> bool:
    """a helper that callers cannot address by keyword from outside: leading underscore (not dunder) or nested in a function"""
    base = qual.rsplit(".", 1)[-1]
    if base.startswith("_") and not (base.startswith("__") and base.endswith("__")):
        return True
    parent = qual.rsplit(".", 1)[0] if "." in qual else None
    return parent in funcs if parent else False


def _overlap(a, b) -> float:
    from collections import Counter
    ca, cb = Counter(a), Counter(b)
    inter = sum((ca & cb).values())
    return inter / max(1, max(sum(ca.values()), sum(cb.values())))


def _rename_params(f, ref_entry, tree, base_name) -> dict:
    """positional translation of renamed parameters of a private function; keyword call sites in the module follow"""
    cur = param_names(f)
    old = ref_entry.get("params", [])
    if cur == old or len(cur) != len(old):
        return {}
    cur_all = set(x.lstrip("*") for x in cur) | function_locals(f)
    ref_all = set(x.lstrip("*") for x in old) | set(ref_entry["locals"])
    mapping = {}
    for c, r in zip(cur, old):
        c0, r0 = c.lstrip("*"), r.lstrip("*")
        if c0 == r0:
            continue
        if c.count("*") != r.count("*") or c0 in ref_all or r0 in cur_all:
            return {}
        mapping[c0] = r0
    if not mapping:
        return {}
    a = f.args
    for x in a.posonlyargs + a.args + a.kwonlyargs + ([a.vararg] if a.vararg else []) + ([a.kwarg] if a.kwarg else []):
        if x.arg in mapping:
            x.arg = mapping[x.arg]
    for node in ast.walk(f):
        if isinstance(node, ast.Name) and node.id in mapping:
            node.id = mapping[node.id]
    for node in ast.walk(tree):
        if isinstance(node, ast.Call):
            fn = node.func
            nm = fn.id if isinstance(fn, ast.Name) else fn.attr if isinstance(fn, ast.Attribute) else None
            if nm == base_name:
                for k in node.keywords:
                    if k.arg in mapping:
                        k.arg = mapping[k.arg]
    return mapping


def normalise_functions(modname, tree) -> list:
    """Translate renamed private functions (and their parameters) back to the reference names. A function of the reference that no
    longer exists is paired with a function the reference does not know when both sit in the same scope, take the same number of
    parameters and share most statement shapes once parameters and locals are abstracted; the pairing must be the unique best on
    both sides. References inside the module (names and attributes) follow. Returns [(new name, reference name)]."""
    ref = table().get(modname)
    if not ref:
        return []
    done = []
    for _ in range(3):
        funcs = _functions(tree)
        missing = [q for q in ref if q not in funcs and "allp" in ref[q]]
        fresh = [q for q in funcs if q not in ref]
        pairs = []
        if missing and fresh:
            desc = {q: describe(funcs[q]) for q in fresh}
            scores = []
            for mq in missing:
                for fq in fresh:
                    if mq.rsplit(".", 1)[0:-1] != fq.rsplit(".", 1)[0:-1]:
                        continue
                    if len(ref[mq].get("params", [])) != len(desc[fq]["params"]):
                        continue
                    if not ref[mq]["allp"] and not desc[fq]["allp"]:
                        continue
                    sc = _overlap(ref[mq]["allp"], desc[fq]["allp"])
                    if sc >= 0.6:
                        scores.append((sc, mq, fq))
            scores.sort(reverse=True)
            used_m, used_f = set(), set()
            for sc, mq, fq in scores:
                if mq in used_m or fq in used_f:
                    continue
                # unique best on both sides
                rivals = [x for x in scores if (x[1] == mq) != (x[2] == fq) and x[0] >= sc - 1e-9]
                if rivals:
                    continue
                used_m.add(mq); used_f.add(fq)
                pairs.append((mq, fq))
        changed = False
        name_map = {}
        for mq, fq in pairs:
            new_base, ref_base = fq.rsplit(".", 1)[-1], mq.rsplit(".", 1)[-1]
            if new_base == ref_base:
                continue
            if not _is_private(fq, funcs) or any(q.rsplit(".", 1)[-1] == new_base for q in ref):
                continue                 # public API, or the "new" name also names something the reference knows: leave alone
            funcs[fq].name = ref_base
            name_map[new_base] = ref_base
            done.append((fq, mq))
            changed = True
        if name_map:
            for node in ast.walk(tree):
                if isinstance(node, ast.Name) and node.id in name_map:
                    node.id = name_map[node.id]
                elif isinstance(node, ast.Attribute) and node.attr in name_map:
                    node.attr = name_map[node.attr]
        # parameters of private functions known (now) under their reference names
        funcs = _functions(tree)
        for q, f in funcs.items():
            if q in ref and _is_private(q, funcs) and "params" in ref[q] and param_names(f) != ref[q]["params"]:
                if _overlap(ref[q].get("allp", []), describe(f)["allp"]) >= 0.5 or not ref[q].get("allp"):
                    m = _rename_params(f, ref[q], tree, q.rsplit(".", 1)[-1])
                    if m:
                        done.append((f"{q}(params)", m))
                        changed = True
        if not changed:
            break
    return done


def normalise_module(modname, tree) -> list:
    """Translate renamed locals in every function of the module that the reference knows. Returns [(qualname, mapping)]."""
    ref = table().get(modname)
    if not ref:
        return []
    done = list(normalise_functions(modname, tree))

    def rec(node, prefix):
        for st in ast.iter_child_nodes(node):
            if isinstance(st, (ast.FunctionDef, ast.AsyncFunctionDef)):
                q = f"{prefix}{st.name}"
                # inner functions first would change the outer pieces; outer first, then inner with their own table
                r = ref.get(q)
                if r is not None:
                    m = translation(st, r)
                    if m:
                        apply(st, m)
                        done.append((q, m))
                rec(st, q + ".")
            elif isinstance(st, ast.ClassDef):
                rec(st, f"{prefix}{st.name}.")
            elif isinstance(st, (ast.If, ast.Try, ast.For, ast.While, ast.With)):
                rec(st, prefix)
    rec(tree, "")
    return done


def generate(repo_root: Path) -> dict:
    out = {}
    for p in sorted(repo_root.rglob("*.py")):
        relp = p.relative_to(repo_root)
        parts = list(relp.with_suffix("").parts)
        if parts[-1] == "__init__":
            parts = parts[:-1]
        name = ".".join(["irispie"] + parts)
        try:
            tree = ast.parse(p.read_text(encoding="utf-8"))
        except Exception:
            continue
        entry = {}

        def rec(node, prefix):
            for st in ast.iter_child_nodes(node):
                if isinstance(st, (ast.FunctionDef, ast.AsyncFunctionDef)):
                    q = f"{prefix}{st.name}"
                    entry[q] = describe(st)
                    rec(st, q + ".")
                elif isinstance(st, ast.ClassDef):
                    rec(st, f"{prefix}{st.name}.")
                elif isinstance(st, (ast.If, ast.Try, ast.For, ast.While, ast.With)):
                    rec(st, prefix)
        rec(tree, "")
        if entry:
            out[name] = entry
    return out

"""
DIM: abstract interpretation of numpy code over the *shape* domain.

Values are shapes (tuples of ints) built from named dimensions that are instantiated with pairwise distinct
primes (and checked under a second instantiation), so that two dimensions agree by accident in neither.
Transfer functions cover what the anchored code uses: slicing with named counts, @, + - * / with
broadcasting, unary minus, .T, reshape, eye/zeros/ones/full/diag, block/vstack/hstack/concatenate/pad,
left_div/right_div/solve, matrix_power. Anything else evaluates to TOP (unknown) and raises no alarm; only
definite mismatches are reported. Scalars are shape ().
"""
from __future__ import annotations

import ast

from .core import dotted, unparse, strip_docstring


class Top:
    def __repr__(self):
        return "⊤"


TOP = Top()


class Mismatch(Exception):
    def __init__(self, msg, node=None):
        super().__init__(msg)
        self.node = node


class Int:
    """an integer *value* (not an array) known exactly"""
    def __init__(self, v):
        self.v = v

    def __repr__(self):
        return f"int({self.v})"


def is_shape(x):
    return isinstance(x, tuple)


def broadcast(a, b, node):
    if a is TOP or b is TOP:
        return TOP
    a = () if isinstance(a, Int) else a
    b = () if isinstance(b, Int) else b
    out = []
    for x, y in zip(reversed(a), reversed(b)):
        if x == y or y == 1:
            out.append(x)
        elif x == 1:
            out.append(y)
        else:
            raise Mismatch(f"shapes {a} and {b} do not broadcast", node)
    longer = a if len(a) > len(b) else b
    out.extend(reversed(longer[:len(longer) - len(out)]))
    return tuple(reversed(out))


def matmul(a, b, node):
    if a is TOP or b is TOP:
        return TOP
    if isinstance(a, Int) or isinstance(b, Int) or a == () or b == ():
        raise Mismatch("matmul with a scalar", node)
    if len(a) == 1 and len(b) == 1:
        if a[0] != b[0]:
            raise Mismatch(f"matmul {a} @ {b}", node)
        return ()
    if len(a) == 2 and len(b) == 1:
        if a[1] != b[0]:
            raise Mismatch(f"matmul {a} @ {b}", node)
        return (a[0],)
    if len(a) == 1 and len(b) == 2:
        if a[0] != b[0]:
            raise Mismatch(f"matmul {a} @ {b}", node)
        return (b[1],)
    if len(a) == 2 and len(b) == 2:
        if a[1] != b[0]:
            raise Mismatch(f"matmul {a} @ {b}", node)
        return (a[0], b[1])
    return TOP


class Shapes:
    """
    env: name / dotted name -> shape | Int | TOP.  ints: name -> python int for counts used in slices.
    """

    def __init__(self, env=None, funcs=None, attr_ints=None):
        self.env = dict(env or {})
        self.funcs = funcs or {}
        self.attr_ints = attr_ints or {}      # attribute name -> int, whatever the receiver expression
        self.checks = 0           # number of definite conformability checks performed
        self.mismatches = []

    # ----- integer expressions (counts)
    def int_of(self, node):
        if node is None:
            return None
        if isinstance(node, ast.Constant) and isinstance(node.value, int) and not isinstance(node.value, bool):
            return node.value
        if isinstance(node, ast.UnaryOp) and isinstance(node.op, ast.USub):
            v = self.int_of(node.operand)
            return -v if v is not None else None
        if isinstance(node, (ast.Name, ast.Attribute)):
            d = dotted(node)
            v = self.env.get(d)
            if isinstance(v, Int):
                return v.v
            if isinstance(node, ast.Attribute) and node.attr in self.attr_ints:
                return self.attr_ints[node.attr]
            return None
        if isinstance(node, ast.BinOp):
            a, b = self.int_of(node.left), self.int_of(node.right)
            if a is None or b is None:
                return None
            if isinstance(node.op, ast.Add): return a + b
            if isinstance(node.op, ast.Sub): return a - b
            if isinstance(node.op, ast.Mult): return a * b
            if isinstance(node.op, ast.FloorDiv) and b: return a // b
            return None
        if isinstance(node, ast.Subscript):
            # X.shape[k]
            if isinstance(node.value, ast.Attribute) and node.value.attr == "shape":
                s = self.ev(node.value.value)
                k = self.int_of(node.slice)
                if is_shape(s) and k is not None and -len(s) <= k < len(s):
                    return s[k]
            return None
        if isinstance(node, ast.Call):
            n = dotted(node.func)
            if n == "len":
                s = self.ev(node.args[0])
                if is_shape(s) and s:
                    return s[0]
            if n == "int" and node.args:
                return self.int_of(node.args[0])
            if n and n.endswith(".sum") and not node.args:
                return None
        return None

    def shape_arg(self, node):
        """shape given as tuple literal / int"""
        if isinstance(node, (ast.Tuple, ast.List)):
            dims = [self.int_of(e) for e in node.elts]
            return tuple(dims) if all(d is not None for d in dims) else TOP
        v = self.int_of(node)
        return (v,) if v is not None else TOP

    # ----- slicing
    def slice_len(self, sl, n, node):
        if isinstance(sl, ast.Slice):
            lo, hi, st = self.int_of(sl.lower), self.int_of(sl.upper), self.int_of(sl.step)
            if (sl.lower is not None and lo is None) or (sl.upper is not None and hi is None) or (sl.step is not None and st is None):
                return TOP
            return len(range(*slice(lo, hi, st).indices(n)))
        if isinstance(sl, ast.Constant) and sl.value is Ellipsis:
            return ("ellipsis",)
        v = self.int_of(sl)
        if v is not None:
            if not (-n <= v < n):
                raise Mismatch(f"index {v} out of bounds for dimension {n}", node)
            return None   # dimension dropped
        s = self.ev(sl)
        if is_shape(s) and len(s) == 1:
            return s[0]           # fancy index with an index vector of known length
        return TOP

    def subscript(self, base, sl, node):
        if base is TOP or not is_shape(base):
            return TOP
        parts = list(sl.elts) if isinstance(sl, ast.Tuple) else [sl]
        if any(isinstance(p, ast.Constant) and p.value is Ellipsis for p in parts):
            return TOP
        if len(parts) > len(base):
            raise Mismatch(f"too many indices for shape {base}", node)
        out = []
        for i, p in enumerate(parts):
            r = self.slice_len(p, base[i], node)
            if r is TOP:
                return TOP
            if r is None:
                continue
            out.append(r)
        out.extend(base[len(parts):])
        return tuple(out)

    # ----- expressions
    def ev(self, node):
        try:
            return self._ev(node)
        except Mismatch as m:
            if m.node is None:
                m.node = node
            raise

    def _ev(self, node):
        iv = self.int_of(node) if isinstance(node, (ast.BinOp, ast.Subscript, ast.Attribute)) else None
        if iv is not None:
            return Int(iv)
        if isinstance(node, ast.Constant):
            if isinstance(node.value, bool) or node.value is None:
                return TOP
            if isinstance(node.value, int):
                return Int(node.value)
            if isinstance(node.value, float):
                return ()
            return TOP
        if isinstance(node, (ast.Name, ast.Attribute)):
            d = dotted(node)
            if d in self.env:
                return self.env[d]
            if isinstance(node, ast.Attribute):
                if node.attr == "T":
                    b = self.ev(node.value)
                    return tuple(reversed(b)) if is_shape(b) else TOP
                if node.attr == "shape":
                    return TOP
            return TOP
        if isinstance(node, ast.UnaryOp):
            v = self.ev(node.operand)
            if isinstance(v, Int) and isinstance(node.op, ast.USub):
                return Int(-v.v)
            return v
        if isinstance(node, ast.BinOp):
            a, b = self.ev(node.left), self.ev(node.right)
            if isinstance(node.op, ast.MatMult):
                if a is not TOP and b is not TOP:
                    self.checks += 1
                return matmul(a, b, node)
            if isinstance(a, Int) and isinstance(b, Int):
                v = self.int_of(node)
                return Int(v) if v is not None else TOP
            if a is not TOP and b is not TOP and is_shape(a if not isinstance(a, Int) else ()) and is_shape(b if not isinstance(b, Int) else ()):
                if (is_shape(a) and a != ()) and (is_shape(b) and b != ()):
                    self.checks += 1
            return broadcast(a, b, node)
        if isinstance(node, ast.Subscript):
            return self.subscript(self.ev(node.value), node.slice, node)
        if isinstance(node, ast.IfExp):
            a, b = self.ev(node.body), self.ev(node.orelse)
            if a is TOP:
                return b
            if b is TOP or isinstance(b, Int) or b == ():
                return a          # `x if cond else 0/None/unknown`: the informative branch
            return a if _same(a, b) else TOP
        if isinstance(node, ast.Call):
            return self.call(node)
        if isinstance(node, ast.Tuple):
            return TOP
        return TOP

    def seq_shapes(self, node):
        if isinstance(node, (ast.Tuple, ast.List)):
            return [self.ev(e) for e in node.elts]
        return None

    def call(self, node):
        n = dotted(node.func) or ""
        last = n.split(".")[-1]
        if n in self.funcs:
            return self.funcs[n](self, node)
        kw = {k.arg: k.value for k in node.keywords}
        if last in ("zeros", "ones", "empty") and node.args:
            return self.shape_arg(node.args[0])
        if last == "full" and node.args:
            return self.shape_arg(node.args[0])
        if last == "eye" and node.args:
            r = self.int_of(node.args[0])
            c = self.int_of(node.args[1]) if len(node.args) > 1 else r
            return (r, c) if r is not None and c is not None else TOP
        if last in ("zeros_like", "copy", "array", "real", "abs", "exp", "log", "sqrt", "float64", "flip") and node.args:
            return self.ev(node.args[0])
        if last == "diag" and node.args:
            s = self.ev(node.args[0])
            if is_shape(s) and len(s) == 1:
                return (s[0], s[0])
            if is_shape(s) and len(s) == 2:
                return (min(s),)
            return TOP
        if last in ("vstack", "hstack", "concatenate", "column_stack") and node.args:
            seq = self.seq_shapes(node.args[0])
            if seq is None or any(s is TOP or not is_shape(s) for s in seq):
                return TOP
            axis = 0
            if last == "hstack":
                axis = 1 if all(len(s) >= 2 for s in seq) else 0
            if last == "concatenate":
                ax = kw.get("axis", node.args[1] if len(node.args) > 1 else None)
                axis = self.int_of(ax) if ax is not None else 0
                if axis is None:
                    return TOP
            if last == "vstack":
                seq = [s if len(s) >= 2 else (1,) + s for s in seq]
            nd = {len(s) for s in seq}
            if len(nd) != 1:
                raise Mismatch(f"{last} of arrays with different ndim {seq}", node)
            self.checks += 1
            for i in range(len(seq[0])):
                if i != axis and len({s[i] for s in seq}) != 1:
                    raise Mismatch(f"{last} of shapes {seq}: dimension {i} differs", node)
            out = list(seq[0])
            out[axis] = sum(s[axis] for s in seq)
            return tuple(out)
        if last == "block" and node.args and isinstance(node.args[0], ast.List):
            rows = []
            for r in node.args[0].elts:
                if not isinstance(r, ast.List):
                    return TOP
                shapes = [self.ev(e) for e in r.elts]
                if any(s is TOP or not is_shape(s) or len(s) != 2 for s in shapes):
                    return TOP
                if len({s[0] for s in shapes}) != 1:
                    raise Mismatch(f"block row with heights {[s[0] for s in shapes]}", node)
                rows.append((shapes[0][0], sum(s[1] for s in shapes)))
            self.checks += 1
            if len({w for _, w in rows}) != 1:
                raise Mismatch(f"block rows with widths {[w for _, w in rows]}", node)
            return (sum(h for h, _ in rows), rows[0][1])
        if last == "pad" and len(node.args) >= 2:
            s = self.ev(node.args[0])
            pw = node.args[1]
            if not is_shape(s):
                return TOP
            if isinstance(pw, ast.Tuple) and pw.elts and all(isinstance(e, ast.Tuple) for e in pw.elts):
                if len(pw.elts) != len(s):
                    raise Mismatch(f"pad width for {len(pw.elts)} axes on shape {s}", node)
                out = []
                for d, e in zip(s, pw.elts):
                    a, b = self.int_of(e.elts[0]), self.int_of(e.elts[1])
                    if a is None or b is None:
                        return TOP
                    out.append(d + a + b)
                return tuple(out)
            if isinstance(pw, ast.Tuple) and len(pw.elts) == 2 and len(s) == 1:
                a, b = self.int_of(pw.elts[0]), self.int_of(pw.elts[1])
                return (s[0] + a + b,) if a is not None and b is not None else TOP
            return TOP
        if last in ("solve", "left_div") and len(node.args) == 2:
            A, B = self.ev(node.args[0]), self.ev(node.args[1])
            if is_shape(A) and is_shape(B) and len(A) == 2:
                self.checks += 1
                if A[0] != A[1]:
                    raise Mismatch(f"solve with non-square {A}", node)
                if B and B[0] != A[0]:
                    raise Mismatch(f"solve {A} \\ {B}", node)
                return B
            return TOP
        if last == "right_div" and len(node.args) == 2:
            B, A = self.ev(node.args[0]), self.ev(node.args[1])       # B / A
            if is_shape(A) and is_shape(B) and len(A) == 2 and len(B) == 2:
                self.checks += 1
                if A[0] != A[1] or B[1] != A[0]:
                    raise Mismatch(f"right_div {B} / {A}", node)
                return B
            return TOP
        if last == "matrix_power" and node.args:
            A = self.ev(node.args[0])
            if is_shape(A) and len(A) == 2:
                self.checks += 1
                if A[0] != A[1]:
                    raise Mismatch(f"matrix_power of non-square {A}", node)
            return A
        if isinstance(node.func, ast.Attribute):
            meth = node.func.attr
            base = self.ev(node.func.value)
            if meth in ("copy", "astype", "conj"):
                return base
            if meth == "reshape" and is_shape(base):
                args = node.args[0].elts if node.args and isinstance(node.args[0], (ast.Tuple, ast.List)) else node.args
                dims = [self.int_of(a) for a in args]
                if any(d is None for d in dims):
                    return TOP
                total = 1
                for d in base:
                    total *= d
                if -1 in dims:
                    known = 1
                    for d in dims:
                        if d != -1:
                            known *= d
                    if known == 0 or total % known:
                        raise Mismatch(f"cannot reshape {base} into {dims}", node)
                    dims = [total // known if d == -1 else d for d in dims]
                else:
                    t2 = 1
                    for d in dims:
                        t2 *= d
                    if t2 != total:
                        raise Mismatch(f"cannot reshape {base} into {dims}", node)
                return tuple(dims)
            if meth == "flatten" and is_shape(base):
                t = 1
                for d in base:
                    t *= d
                return (t,)
            if meth in ("sum", "any", "all", "max", "min", "mean"):
                return TOP
        return TOP

    # ----- statements
    def run(self, body, on_mismatch):
        """Straight-line + if (both branches, joined) + for (body once) interpretation; records mismatches."""
        for st in strip_docstring(list(body)):
            self.stmt(st, on_mismatch)

    def stmt(self, st, on_mismatch):
        try:
            if isinstance(st, ast.Assign):
                v = self.ev(st.value)
                for t in st.targets:
                    self.bind(t, v, st)
            elif isinstance(st, ast.AugAssign):
                a = self.ev(st.target)
                b = self.ev(st.value)
                if isinstance(st.op, ast.MatMult):
                    r = matmul(a, b, st)
                else:
                    if is_shape(a) and a != () and is_shape(b) and b != ():
                        self.checks += 1
                    r = broadcast(a, b, st)
                    if is_shape(a) and is_shape(r) and r != a and a != ():
                        raise Mismatch(f"in-place {type(st.op).__name__} of {b} into {a}", st)
                if isinstance(st.target, ast.Name):
                    self.env[st.target.id] = r if r is not TOP else a
            elif isinstance(st, ast.Expr):
                self.ev(st.value)
            elif isinstance(st, ast.Return) and st.value is not None:
                if isinstance(st.value, ast.Tuple):
                    self.returned = [self.ev(e) for e in st.value.elts]
                else:
                    self.returned = [self.ev(st.value)]
            elif isinstance(st, ast.If):
                saved = dict(self.env)
                self.run(st.body, on_mismatch)
                env_a = self.env
                self.env = dict(saved)
                self.run(st.orelse, on_mismatch)
                env_b = self.env
                self.env = {k: (env_a[k] if k in env_a and k in env_b and _same(env_a[k], env_b[k]) else TOP)
                            for k in set(env_a) | set(env_b)}
            elif isinstance(st, (ast.For, ast.While)):
                if isinstance(st, ast.For):
                    self.bind(st.target, TOP, st)
                self.run(st.body, on_mismatch)
            elif isinstance(st, ast.With):
                self.run(st.body, on_mismatch)
        except Mismatch as m:
            self.mismatches.append(m)
            on_mismatch(m, st)

    def bind(self, t, v, st):
        if isinstance(t, ast.Name):
            self.env[t.id] = v
        elif isinstance(t, ast.Attribute):
            d = dotted(t)
            if d:
                self.env[d] = v
        elif isinstance(t, ast.Subscript):
            # store into a slice: value must broadcast into the slice's shape
            tgt = self.ev(t)
            if is_shape(tgt) and (is_shape(v) and v != ()):
                self.checks += 1
                r = broadcast(tgt, v, st)
                if r != tgt:
                    raise Mismatch(f"cannot store shape {v} into a slice of shape {tgt}", st)
        elif isinstance(t, (ast.Tuple, ast.List)):
            for e in t.elts:
                self.bind(e.value if isinstance(e, ast.Starred) else e, TOP, st)


def _same(a, b):
    if a is TOP or b is TOP:
        return a is b
    if isinstance(a, Int) and isinstance(b, Int):
        return a.v == b.v
    return a == b

"""
Shared extraction for the model language: pseudofunction templates (parsers/_pseudofunctions.py).

`_shift_all_names(code, by)` is runtime regex text processing; here it is *modelled* by the checker's
own reference operator on test holes (simple identifiers with optional [k]): add `by` to every shift,
drop the bracket iff the result is 0. Rule C04-R5 checks structurally that the repo's implementation
has exactly this arithmetic.
"""
from __future__ import annotations

import ast
import re

from . import alg
from .core import AnalysisError, literal, dotted
from .tpl import run_str_function, NotAString

MOD = "irispie.parsers._pseudofunctions"

_NAME = re.compile(r"\b([A-Za-z_]\w*)\b(?:\[([+\-\d\s]+)\])?(?![\(\[])")


def ref_shift_all_names(code: str, by: int) -> str:
    def rep(m):
        name, sh = m.group(1), m.group(2)
        k = (int(sh.replace(" ", "")) if sh else 0) + int(by or 0)
        return f"{name}[{k}]" if k else name
    return _NAME.sub(rep, code)


def pseudofunction_table(repo):
    """name -> (builder FunctionDef, default shift) from _PSEUDOFUNC_RESOLUTION"""
    m = repo.mod(MOD)
    tab = m.assign("_PSEUDOFUNC_RESOLUTION")
    from . import fin
    val = fin.module_table(m, "_PSEUDOFUNC_RESOLUTION")
    if not isinstance(val, dict) or not val:
        raise AnalysisError("_PSEUDOFUNC_RESOLUTION is not a table built from the module's constants")
    out = {}
    for name, v in val.items():
        if not (isinstance(name, str) and isinstance(v, tuple) and len(v) == 2 and isinstance(v[0], fin.FuncRef) and isinstance(v[1], int)):
            raise AnalysisError(f"_PSEUDOFUNC_RESOLUTION[{name!r}] is not (builder, default_shift)")
        out[name] = (str(v[0]), v[1])
    return m, tab, out


def expand(repo, builder: str, code: str, shift: int, depth=0) -> str:
    """Text the builder emits for (code, shift), by interpreting its string-building body."""
    m = repo.mod(MOD)
    f = m.func(builder)
    funcs = {"_shift_all_names": ref_shift_all_names}
    # builders may call other builders in the module (e.g. _pseudo_mov)
    for q, g in m.functions():
        if q.startswith("_pseudo_") and q != builder and depth < 3:
            funcs[q] = (lambda c, s, _q=q: expand_raw(repo, _q, c, s, depth + 1))
    ps = [a.arg for a in f.args.posonlyargs + f.args.args]
    try:
        return run_str_function(f, {ps[0]: code, ps[1]: shift}, funcs=funcs)
    except NotAString as e:
        raise AnalysisError(f"cannot interpret {MOD}:{builder}: {e}")


def expand_raw(repo, builder, code, shift, depth):
    m = repo.mod(MOD)
    f = m.func(builder)
    funcs = {"_shift_all_names": ref_shift_all_names}
    ps = [a.arg for a in f.args.posonlyargs + f.args.args]
    return run_str_function(f, {ps[0]: code, ps[1]: shift}, funcs=funcs)

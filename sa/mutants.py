"""
Self-test table: textual edits of /repo/src/irispie files (paths relative to that directory).

kind = 'mutant' : a realistic breakage of a structural clause; the property's check must exit 1 and a report
                  line must mention `rule`.
kind = 'twin'   : a behaviour-preserving rewrite (rename, reorder of commutative operands, equivalent algebra,
                  reformat); the check must stay silent.
`old` must occur exactly once in the file, otherwise the edit is skipped.
"""

TABLE: dict[str, list[dict]] = {}


def M(prop, id, file, old, new, rule):
    TABLE.setdefault(prop, []).append(dict(id=id, kind="mutant", file=file, old=old, new=new, rule=rule))


def T(prop, id, file, old, new):
    TABLE.setdefault(prop, []).append(dict(id=id, kind="twin", file=file, old=old, new=new))


# ------------------------------------------------------------------------------------------------ C02
D = "aldi/differentiators.py"
M("C02", "mul-drop-term", D, "new_diff = self_diff * other_value + self_value * other_diff", "new_diff = self_diff * other_value + self_value * other_value", "C02-R1")
M("C02", "div-sign", D, "new_diff = (self_diff*other_value - self_value*other_diff) / (other_value**2)", "new_diff = (self_diff*other_value + self_value*other_diff) / (other_value**2)", "C02-R1")
M("C02", "rtruediv-power", D, "new_diff = -other*self_diff / (self_value**2)", "new_diff = -other*self_diff / (self_value)", "C02-R1")
M("C02", "log-missing-chain", D, "new_diff = 1 / self.value * self.diff", "new_diff = 1 / self.value", "C02-R1")
M("C02", "exp-value-for-diff", D, "new_diff = new_value * self.diff\n        return type(self).no_context(new_value, new_diff, False)\n\n    def sqrt", "new_diff = new_value * self.value\n        return type(self).no_context(new_value, new_diff, False)\n\n    def sqrt", "C02-R1")
M("C02", "power-exponent", D, "new_diff = other_value * (self_value**(other_value-1)) * self_diff", "new_diff = other_value * (self_value**(other_value)) * self_diff", "C02-R1")
M("C02", "logistic", D, "new_diff = new_value * (1 - new_value) * self.diff", "new_diff = new_value * (1 + new_value) * self.diff", "C02-R1")
M("C02", "logly-factor-dropped", D, "return self._diff if not self._logly else self._diff * self.value", "return self._diff if not self._logly else self._diff", "C02-R1")
M("C02", "neg-value", D, "new_value = -self.value\n        new_diff = -self.diff", "new_value = -self.value\n        new_diff = self.diff", "C02-R1")
M("C02", "sub-value-wrong-op", D, "new_value = self.value - other.value\n            new_diff = self.diff - other.diff", "new_value = self.value + other.value\n            new_diff = self.diff + other.diff", "C02-R1")
M("C02", "maximum-floor-diff", D, "new_diff = orig_diff * multiplier + floor_diff * (1 - multiplier)", "new_diff = orig_diff * multiplier + floor_diff * multiplier", "C02-R1")
M("C02", "fd-one-sided", "aldi/finite_differentiators.py", "return (func(*arg_values_plus) - func(*arg_values_minus)) / (2 * epsilon)", "return (func(*arg_values_plus) - func(*arg_values_minus)) / epsilon", "C02-R4")
M("C02", "fd-eps-sign", "aldi/finite_differentiators.py", "arg_values_minus = _plus_epsilon(arg_values, k, -epsilon, )", "arg_values_minus = _plus_epsilon(arg_values, k, epsilon, )", "C02-R4")
M("C02", "nonflat-k-dropped", "steadiers/_jacobian.py", "_np.hstack((A_k, B_k+k*A_k, )),", "_np.hstack((A_k, B_k+A_k, )),", "C02-R5")
M("C02", "nonflat-stale-point", "steadiers/_jacobian.py", "diff_array_k = self._aldi_context.eval_diff_to_array(steady_array, column_offset + k, )", "diff_array_k = self._aldi_context.eval_diff_to_array(steady_array, column_offset, )", "C02-R3")
M("C02", "system-map-letter", "fords/systems.py", "self.F[smap.F.lhs] = td[smap.F.rhs]", "self.F[smap.F.lhs] = td[smap.G.rhs]", "C02-R5")
M("C02", "system-td-tc-swapped", "fords/systems.py", "td, tc, = descriptor.aldi_context.eval_to_arrays(data_array, column_offset, )", "tc, td, = descriptor.aldi_context.eval_to_arrays(data_array, column_offset, )", "C02-R5")
M("C02", "offset-order", "fords/descriptors.py", "system_eids = system_vectors.transition_eids + system_vectors.measurement_eids", "system_eids = system_vectors.measurement_eids + system_vectors.transition_eids", "C02-R5")
M("C02", "offset-not-exclusive", "aldi/maps.py", "    rhs_offsets.pop()\n    rhs_offsets.insert(0, 0)\n", "", "C02-R5")
M("C02", "stale-jacobian-guess", "steadiers/evaluators.py", "        self._update_steady_array(maybelog_guess, )\n        jacobian = self._jacobian.eval(self._steady_array, self._column_offset, )\n        return jacobian[:", "        jacobian = self._jacobian.eval(self._steady_array, self._column_offset, )\n        return jacobian[:", "C02-R3")
M("C02", "table-adds-undiff-func", "aldi/adaptations.py", '    "maximum": _np.maximum,', '    "maximum": _np.maximum,\n    "log1p": _np.log1p,', "C02-R2") if False else None
T("C02", "twin-mul-commuted", D, "new_diff = self_diff * other_value + self_value * other_diff", "new_diff = other_diff * self_value + other_value * self_diff")
T("C02", "twin-log-rewritten", D, "new_diff = 1 / self.value * self.diff", "new_diff = self.diff / self.value")
T("C02", "twin-sqrt-rewritten", D, "new_diff = 0.5 / _np.sqrt(self.value) * self.diff", "new_diff = self.diff / (2 * _np.sqrt(self.value))")
T("C02", "twin-div-rewritten", D, "new_diff = (self_diff*other_value - self_value*other_diff) / (other_value**2)", "new_diff = self_diff/other_value - self_value*other_diff/other_value**2")
T("C02", "twin-fd-rewritten", "aldi/finite_differentiators.py", "return (func(*arg_values_plus) - func(*arg_values_minus)) / (2 * epsilon)", "return 0.5 * (func(*arg_values_plus) - func(*arg_values_minus)) / epsilon")
T("C02", "twin-nonflat-commuted", "steadiers/_jacobian.py", "_np.hstack((A_k, B_k+k*A_k, )),", "_np.hstack((A_k, k*A_k+B_k, )),")

# ------------------------------------------------------------------------------------------------ C13
F = "series/_temporal.py"
M("C13", "pct-missing-minus-one", F, "lambda x, y: 100*(x/y - 1), neutral_value=None", "lambda x, y: 100*(x/y), neutral_value=None", "C13-R1")
M("C13", "diff-reversed", F, "lambda x, y: x - y, neutral_value=0", "lambda x, y: y - x, neutral_value=0", "C13-R1")
M("C13", "adiff-log-factor", F, "lambda x, y: factor*(_np.log(x) - _np.log(y))", "lambda x, y: (_np.log(x) - _np.log(y))/factor", "C13-R1")
M("C13", "aroc-exponent", F, "lambda x, y: (x/y)**factor, neutral_value=1", "lambda x, y: (x/y)*factor, neutral_value=1", "C13-R1")
M("C13", "cum-pct-forward", F, "lambda x_past, change_curr: x_past * (1 + change_curr/100)", "lambda x_past, change_curr: x_past * (change_curr/100)", "C13-R2")
M("C13", "cum-difflog-backward", F, "lambda x_future, change_future: x_future / _np.exp(change_future)", "lambda x_future, change_future: x_future * _np.exp(change_future)", "C13-R2")
M("C13", "cum-roc-backward", F, "lambda x_future, change_future: x_future / change_future", "lambda x_future, change_future: x_future - change_future", "C13-R2")
M("C13", "roc-from-pct", F, "self.data = 1 + self.data/100", "self.data = self.data/100", "C13-R3")
M("C13", "pct-from-apct", F, "self.data = 100*((1 + self.data/100)**(1/factor) - 1)", "self.data = 100*((1 + self.data/100)**(factor) - 1)", "C13-R3")
M("C13", "undefined-name", F, "lambda x_past, change_curr: x_past * _np.exp(change_curr)", "lambda x_past, change_curr: x_past * exp(change_curr)", "C13-R4")
M("C13", "shift-guard-sign", F, "(int(shift) != shift or shift >= 0)", "(int(shift) != shift or shift > 0)", "C13-R5")
M("C13", "cum-dispatch-key", F, 'self.temporal_cumulation("pct", *args, **kwargs, )', 'self.temporal_cumulation("roc", *args, **kwargs, )', "C13-R5")
T("C13", "twin-pct-rewritten", F, "lambda x, y: 100*(x/y - 1), neutral_value=None", "lambda x, y: 100*x/y - 100, neutral_value=None")
T("C13", "twin-difflog-rewritten", F, "lambda x, y: _np.log(x) - _np.log(y), neutral_value=0", "lambda x, y: _np.log(x/y), neutral_value=0")
T("C13", "twin-cum-pct-rewritten", F, "lambda x_past, change_curr: x_past * (1 + change_curr/100)", "lambda x_past, change_curr: x_past + x_past*change_curr/100")
T("C13", "twin-roc-from-apct", F, "self.data = (1 + self.data/100)**(1/factor)", "self.data = _np.exp(_np.log(1 + self.data/100)/factor)")

# ------------------------------------------------------------------------------------------------ C17
E = "explanatories/_transforms.py"
M("C17", "pct-level-inverse", E, 'return f"{lhs_token_lag_printed}*(1+({rhs_xtring})/100)"', 'return f"{lhs_token_lag_printed}*(({rhs_xtring})/100)"', "C17-R1")
M("C17", "difflog-level-inverse", E, 'return f"{lhs_token_lag_printed}*exp({rhs_xtring})"', 'return f"{lhs_token_lag_printed}+exp({rhs_xtring})"', "C17-R1")
M("C17", "diff-precedence", E, 'return f"{lhs_token_lag_printed}+({rhs_xtring})"', 'return f"{lhs_token_lag_printed}-({rhs_xtring})"', "C17-R1")
M("C17", "roc-lag-mismatch", E, "class LhsTransformRoc(_LhsTransform, ):\n    \"\"\"\n    \"\"\"\n    #[\n\n    _LHS_PATTERN = _re.compile(r\"\\(\\((\\w+)\\)/\\(\\1\\[-1\\]\\)\\)\")", "class LhsTransformRoc(_LhsTransform, ):\n    \"\"\"\n    \"\"\"\n    #[\n\n    _LHS_PATTERN = _re.compile(r\"\\(\\((\\w+)\\)/\\(\\1\\[-2\\]\\)\\)\")", "C17-R") if False else None
M("C17", "pattern-drift-pct", E, r'_LHS_PATTERN = _re.compile(r"\(100\*\((\w+)\)/\(\1\[-1\]\)-100\)")', r'_LHS_PATTERN = _re.compile(r"\(100\*\(\((\w+)\)/\(\1\[-1\]\)-1\)\)")', "C17-R2")
M("C17", "plan-diff", "plans/transforms.py", "return values_before[self._shift] + exogenized_values_after[0]", "return values_before[self._shift] - exogenized_values_after[0]", "C17-R3")
M("C17", "plan-pct", "plans/transforms.py", "return values_before[self._shift] * (1 + exogenized_values_after[0]/100)", "return values_before[self._shift] * (1 + exogenized_values_after[0])", "C17-R3")
M("C17", "plan-log", "plans/transforms.py", "return _np.exp(exogenized_values_after[0])", "return _np.log(exogenized_values_after[0])", "C17-R3")
M("C17", "plan-table-alias", "plans/transforms.py", '"difflog": PlanTransformDiffLog,', '"difflog": PlanTransformDiff,', "C17-R3")
M("C17", "residual-not-reset", "explanatories/main.py", "        data[residual_row, columns] = 0\n", "", "C17-R4")
M("C17", "residual-sign", "explanatories/main.py", 'body = f"{lhs_xtring}-({rhs_xtring})"', 'body = f"({rhs_xtring})-{lhs_xtring}"', "C17-R4")
M("C17", "iterator-not-swapped", "sequentials/_simulate.py", "return _swap_product(_it.product(equations, columns_dates, ), )", "return _it.product(equations, columns_dates, )", "C17-R5")
T("C17", "twin-pct-level", E, 'return f"{lhs_token_lag_printed}*(1+({rhs_xtring})/100)"', 'return f"{lhs_token_lag_printed}+{lhs_token_lag_printed}*({rhs_xtring})/100"')
T("C17", "twin-plan-pct", "plans/transforms.py", "return values_before[self._shift] * (1 + exogenized_values_after[0]/100)", "return values_before[self._shift] + values_before[self._shift]*exogenized_values_after[0]/100")
T("C17", "twin-residual-add-back", "explanatories/main.py", "        data[residual_row, columns] = 0\n        data[residual_row, columns] = self.eval_residual(data, columns, )", "        data[residual_row, columns] = data[residual_row, columns] + self.eval_residual(data, columns, )")

# ------------------------------------------------------------------------------------------------ C04
P = "parsers/_pseudofunctions.py"
M("C04", "pct-formula", P, '"100*(" + code + ")/(" + _shift_all_names(code, shift) + ")-100"', '"100*(" + code + ")/(" + _shift_all_names(code, shift) + ")-1"', "C04-R1")
M("C04", "diff-inner-parens", P, '"(" + "(" + code + ")-(" + _shift_all_names(code, shift) + ")" + ")"', '"(" + code + "-" + _shift_all_names(code, shift) + ")"', "C04-R1")
M("C04", "roc-outer-parens", P, 'return "(" + "(" + code + ")/(" + _shift_all_names(code, shift) + ")" + ")"', 'return "(" + code + ")/(" + _shift_all_names(code, shift) + ")"', "C04-R1")
M("C04", "shift-parens", P, 'return "(" + _shift_all_names(code, shift) + ")"', "return _shift_all_names(code, shift)", "C04-R1")
M("C04", "mov-avg-total", P, '"(" + "(" + "+".join(sequence) + ")/" + str(total) + ")"', '"(" + "(" + "+".join(sequence) + ")/" + str(total+1) + ")"', "C04-R1")
M("C04", "mov-prod-op", P, 'return "(" + "*".join(sequence) + ")"', 'return "(" + "+".join(sequence) + ")"', "C04-R1")
M("C04", "alias-drift", P, '"movavg":\n        (_pseudo_mov_avg, -4),', '"movavg":\n        (_pseudo_mov_sum, -4),', "C04-R3")
M("C04", "alias-default-shift", P, '"difflog":\n        (_pseudo_diff_log, -1),', '"difflog":\n        (_pseudo_diff_log, -4),', "C04-R3")
M("C04", "postprocess-sign", "equations.py", 'equation = "-(" + lhs_rhs[0] + ")+" + lhs_rhs[1]', 'equation = "-" + lhs_rhs[0] + "+" + lhs_rhs[1]', "C04-R2")
M("C04", "ant-shock-parens", "simultaneous/_invariants.py", 'i.human: f"({i.human}+{j.human})"', 'i.human: f"{i.human}+{j.human}"', "C04-R2")
M("C04", "key-typo", "sources.py", 'parsed_content.get("measurement-shocks", )', 'parsed_content.get("measurement_shocks", )', "C04-R4")
M("C04", "kinds-swapped", "sources.py", "self._add_quantities(quantity_inputs, QuantityKind.MEASUREMENT_SHOCK)", "self._add_quantities(quantity_inputs, QuantityKind.TRANSITION_SHOCK)", "C04-R4")
M("C04", "from-lists-route", "sources.py", "self._add_measurement_shocks(measurement_shocks, )", "self._add_measurement_shocks(transition_shocks, )", "C04-R4")
M("C04", "logly-inverted", "sources.py", "unlisted_logly = bool(all_but)", "unlisted_logly = not bool(all_but)", "C04-R4")
M("C04", "shift-all-names-sub", P, "shift += int(by) if by else 0", "shift -= int(by) if by else 0", "C04-R5")
M("C04", "token-print-sign", "incidences/main.py", '_PRINT_TOKEN = "x[({qid},t{shift:+g})]"', '_PRINT_TOKEN = "x[({qid},t-{shift:g})]"', "C04-R5")
T("C04", "twin-pct-rewritten", P, '"100*(" + code + ")/(" + _shift_all_names(code, shift) + ")-100"', '"100*((" + code + ")/(" + _shift_all_names(code, shift) + ")-1)"')
T("C04", "twin-postprocess", "equations.py", 'equation = "-(" + lhs_rhs[0] + ")+" + lhs_rhs[1]', 'equation = "(" + lhs_rhs[1] + ")-(" + lhs_rhs[0] + ")"')

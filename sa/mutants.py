"""
Self-test table: textual edits of /repo/src/irispie files (paths relative to that directory).

kind = 'mutant' : a realistic breakage of a structural clause; the property's check must exit 1 and a report
                  line must mention `rule`.
kind = 'twin'   : a behaviour-preserving rewrite (rename, reorder of commutative operands, equivalent algebra,
                  reformat); the check must stay silent.
`old` must occur exactly once in the file, otherwise the edit is skipped.
"""

TABLE: dict[str, list[dict]] = {}


def M(prop, id, file, old, new, rule):
    TABLE.setdefault(prop, []).append(dict(id=id, kind="mutant", file=file, old=old, new=new, rule=rule))


def T(prop, id, file, old, new):
    TABLE.setdefault(prop, []).append(dict(id=id, kind="twin", file=file, old=old, new=new))


# ------------------------------------------------------------------------------------------------ C02
D = "aldi/differentiators.py"
M("C02", "mul-drop-term", D, "new_diff = self_diff * other_value + self_value * other_diff", "new_diff = self_diff * other_value + self_value * other_value", "C02-R1")
M("C02", "div-sign", D, "new_diff = (self_diff*other_value - self_value*other_diff) / (other_value**2)", "new_diff = (self_diff*other_value + self_value*other_diff) / (other_value**2)", "C02-R1")
M("C02", "rtruediv-power", D, "new_diff = -other*self_diff / (self_value**2)", "new_diff = -other*self_diff / (self_value)", "C02-R1")
M("C02", "log-missing-chain", D, "new_diff = 1 / self.value * self.diff", "new_diff = 1 / self.value", "C02-R1")
M("C02", "exp-value-for-diff", D, "new_diff = new_value * self.diff\n        return type(self).no_context(new_value, new_diff, False)\n\n    def sqrt", "new_diff = new_value * self.value\n        return type(self).no_context(new_value, new_diff, False)\n\n    def sqrt", "C02-R1")
M("C02", "power-exponent", D, "new_diff = other_value * (self_value**(other_value-1)) * self_diff", "new_diff = other_value * (self_value**(other_value)) * self_diff", "C02-R1")
M("C02", "logistic", D, "new_diff = new_value * (1 - new_value) * self.diff", "new_diff = new_value * (1 + new_value) * self.diff", "C02-R1")
M("C02", "logly-factor-dropped", D, "return self._diff if not self._logly else self._diff * self.value", "return self._diff if not self._logly else self._diff", "C02-R1")
M("C02", "neg-value", D, "new_value = -self.value\n        new_diff = -self.diff", "new_value = -self.value\n        new_diff = self.diff", "C02-R1")
M("C02", "sub-value-wrong-op", D, "new_value = self.value - other.value\n            new_diff = self.diff - other.diff", "new_value = self.value + other.value\n            new_diff = self.diff + other.diff", "C02-R1")
M("C02", "maximum-floor-diff", D, "new_diff = orig_diff * multiplier + floor_diff * (1 - multiplier)", "new_diff = orig_diff * multiplier + floor_diff * multiplier", "C02-R1")
M("C02", "fd-one-sided", "aldi/finite_differentiators.py", "return (func(*arg_values_plus) - func(*arg_values_minus)) / (2 * epsilon)", "return (func(*arg_values_plus) - func(*arg_values_minus)) / epsilon", "C02-R4")
M("C02", "fd-eps-sign", "aldi/finite_differentiators.py", "arg_values_minus = _plus_epsilon(arg_values, k, -epsilon, )", "arg_values_minus = _plus_epsilon(arg_values, k, epsilon, )", "C02-R4")
M("C02", "nonflat-k-dropped", "steadiers/_jacobian.py", "_np.hstack((A_k, B_k+k*A_k, )),", "_np.hstack((A_k, B_k+A_k, )),", "C02-R5")
M("C02", "nonflat-stale-point", "steadiers/_jacobian.py", "diff_array_k = self._aldi_context.eval_diff_to_array(steady_array, column_offset + k, )", "diff_array_k = self._aldi_context.eval_diff_to_array(steady_array, column_offset, )", "C02-R3")
M("C02", "system-map-letter", "fords/systems.py", "self.F[smap.F.lhs] = td[smap.F.rhs]", "self.F[smap.F.lhs] = td[smap.G.rhs]", "C02-R5")
M("C02", "system-td-tc-swapped", "fords/systems.py", "td, tc, = descriptor.aldi_context.eval_to_arrays(data_array, column_offset, )", "tc, td, = descriptor.aldi_context.eval_to_arrays(data_array, column_offset, )", "C02-R5")
M("C02", "offset-order", "fords/descriptors.py", "system_eids = system_vectors.transition_eids + system_vectors.measurement_eids", "system_eids = system_vectors.measurement_eids + system_vectors.transition_eids", "C02-R5")
M("C02", "offset-not-exclusive", "aldi/maps.py", "    rhs_offsets.pop()\n    rhs_offsets.insert(0, 0)\n", "", "C02-R5")
M("C02", "stale-jacobian-guess", "steadiers/evaluators.py", "        self._update_steady_array(maybelog_guess, )\n        jacobian = self._jacobian.eval(self._steady_array, self._column_offset, )\n        return jacobian[:", "        jacobian = self._jacobian.eval(self._steady_array, self._column_offset, )\n        return jacobian[:", "C02-R3")
M("C02", "table-adds-undiff-func", "aldi/adaptations.py", '    "maximum": _np.maximum,', '    "maximum": _np.maximum,\n    "log1p": _np.log1p,', "C02-R2") if False else None
T("C02", "twin-mul-commuted", D, "new_diff = self_diff * other_value + self_value * other_diff", "new_diff = other_diff * self_value + other_value * self_diff")
T("C02", "twin-log-rewritten", D, "new_diff = 1 / self.value * self.diff", "new_diff = self.diff / self.value")
T("C02", "twin-sqrt-rewritten", D, "new_diff = 0.5 / _np.sqrt(self.value) * self.diff", "new_diff = self.diff / (2 * _np.sqrt(self.value))")
T("C02", "twin-div-rewritten", D, "new_diff = (self_diff*other_value - self_value*other_diff) / (other_value**2)", "new_diff = self_diff/other_value - self_value*other_diff/other_value**2")
T("C02", "twin-fd-rewritten", "aldi/finite_differentiators.py", "return (func(*arg_values_plus) - func(*arg_values_minus)) / (2 * epsilon)", "return 0.5 * (func(*arg_values_plus) - func(*arg_values_minus)) / epsilon")
T("C02", "twin-nonflat-commuted", "steadiers/_jacobian.py", "_np.hstack((A_k, B_k+k*A_k, )),", "_np.hstack((A_k, k*A_k+B_k, )),")

# ------------------------------------------------------------------------------------------------ C13
F = "series/_temporal.py"
M("C13", "pct-missing-minus-one", F, "lambda x, y: 100*(x/y - 1), neutral_value=None", "lambda x, y: 100*(x/y), neutral_value=None", "C13-R1")
M("C13", "diff-reversed", F, "lambda x, y: x - y, neutral_value=0", "lambda x, y: y - x, neutral_value=0", "C13-R1")
M("C13", "adiff-log-factor", F, "lambda x, y: factor*(_np.log(x) - _np.log(y))", "lambda x, y: (_np.log(x) - _np.log(y))/factor", "C13-R1")
M("C13", "aroc-exponent", F, "lambda x, y: (x/y)**factor, neutral_value=1", "lambda x, y: (x/y)*factor, neutral_value=1", "C13-R1")
M("C13", "cum-pct-forward", F, "lambda x_past, change_curr: x_past * (1 + change_curr/100)", "lambda x_past, change_curr: x_past * (change_curr/100)", "C13-R2")
M("C13", "cum-difflog-backward", F, "lambda x_future, change_future: x_future / _np.exp(change_future)", "lambda x_future, change_future: x_future * _np.exp(change_future)", "C13-R2")
M("C13", "cum-roc-backward", F, "lambda x_future, change_future: x_future / change_future", "lambda x_future, change_future: x_future - change_future", "C13-R2")
M("C13", "roc-from-pct", F, "self.data = 1 + self.data/100", "self.data = self.data/100", "C13-R3")
M("C13", "pct-from-apct", F, "self.data = 100*((1 + self.data/100)**(1/factor) - 1)", "self.data = 100*((1 + self.data/100)**(factor) - 1)", "C13-R3")
M("C13", "undefined-name", F, "lambda x_past, change_curr: x_past * _np.exp(change_curr)", "lambda x_past, change_curr: x_past * exp(change_curr)", "C13-R4")
M("C13", "shift-guard-sign", F, "(int(shift) != shift or shift >= 0)", "(int(shift) != shift or shift > 0)", "C13-R5")
M("C13", "cum-dispatch-key", F, 'self.temporal_cumulation("pct", *args, **kwargs, )', 'self.temporal_cumulation("roc", *args, **kwargs, )', "C13-R5")
T("C13", "twin-pct-rewritten", F, "lambda x, y: 100*(x/y - 1), neutral_value=None", "lambda x, y: 100*x/y - 100, neutral_value=None")
T("C13", "twin-difflog-rewritten", F, "lambda x, y: _np.log(x) - _np.log(y), neutral_value=0", "lambda x, y: _np.log(x/y), neutral_value=0")
T("C13", "twin-cum-pct-rewritten", F, "lambda x_past, change_curr: x_past * (1 + change_curr/100)", "lambda x_past, change_curr: x_past + x_past*change_curr/100")
T("C13", "twin-roc-from-apct", F, "self.data = (1 + self.data/100)**(1/factor)", "self.data = _np.exp(_np.log(1 + self.data/100)/factor)")

# ------------------------------------------------------------------------------------------------ C17
E = "explanatories/_transforms.py"
M("C17", "pct-level-inverse", E, 'return f"{lhs_token_lag_printed}*(1+({rhs_xtring})/100)"', 'return f"{lhs_token_lag_printed}*(({rhs_xtring})/100)"', "C17-R1")
M("C17", "difflog-level-inverse", E, 'return f"{lhs_token_lag_printed}*exp({rhs_xtring})"', 'return f"{lhs_token_lag_printed}+exp({rhs_xtring})"', "C17-R1")
M("C17", "diff-precedence", E, 'return f"{lhs_token_lag_printed}+({rhs_xtring})"', 'return f"{lhs_token_lag_printed}-({rhs_xtring})"', "C17-R1")
M("C17", "roc-lag-mismatch", E, "class LhsTransformRoc(_LhsTransform, ):\n    \"\"\"\n    \"\"\"\n    #[\n\n    _LHS_PATTERN = _re.compile(r\"\\(\\((\\w+)\\)/\\(\\1\\[-1\\]\\)\\)\")", "class LhsTransformRoc(_LhsTransform, ):\n    \"\"\"\n    \"\"\"\n    #[\n\n    _LHS_PATTERN = _re.compile(r\"\\(\\((\\w+)\\)/\\(\\1\\[-2\\]\\)\\)\")", "C17-R") if False else None
M("C17", "pattern-drift-pct", E, r'_LHS_PATTERN = _re.compile(r"\(100\*\((\w+)\)/\(\1\[-1\]\)-100\)")', r'_LHS_PATTERN = _re.compile(r"\(100\*\(\((\w+)\)/\(\1\[-1\]\)-1\)\)")', "C17-R2")
M("C17", "plan-diff", "plans/transforms.py", "return values_before[self._shift] + exogenized_values_after[0]", "return values_before[self._shift] - exogenized_values_after[0]", "C17-R3")
M("C17", "plan-pct", "plans/transforms.py", "return values_before[self._shift] * (1 + exogenized_values_after[0]/100)", "return values_before[self._shift] * (1 + exogenized_values_after[0])", "C17-R3")
M("C17", "plan-log", "plans/transforms.py", "return _np.exp(exogenized_values_after[0])", "return _np.log(exogenized_values_after[0])", "C17-R3")
M("C17", "plan-table-alias", "plans/transforms.py", '"difflog": PlanTransformDiffLog,', '"difflog": PlanTransformDiff,', "C17-R3")
M("C17", "residual-not-reset", "explanatories/main.py", "        data[residual_row, columns] = 0\n", "", "C17-R4")
M("C17", "residual-sign", "explanatories/main.py", 'body = f"{lhs_xtring}-({rhs_xtring})"', 'body = f"({rhs_xtring})-{lhs_xtring}"', "C17-R4")
M("C17", "iterator-not-swapped", "sequentials/_simulate.py", "return _swap_product(_it.product(equations, columns_dates, ), )", "return _it.product(equations, columns_dates, )", "C17-R5")
T("C17", "twin-pct-level", E, 'return f"{lhs_token_lag_printed}*(1+({rhs_xtring})/100)"', 'return f"{lhs_token_lag_printed}+{lhs_token_lag_printed}*({rhs_xtring})/100"')
T("C17", "twin-plan-pct", "plans/transforms.py", "return values_before[self._shift] * (1 + exogenized_values_after[0]/100)", "return values_before[self._shift] + values_before[self._shift]*exogenized_values_after[0]/100")
T("C17", "twin-residual-add-back", "explanatories/main.py", "        data[residual_row, columns] = 0\n        data[residual_row, columns] = self.eval_residual(data, columns, )", "        data[residual_row, columns] = data[residual_row, columns] + self.eval_residual(data, columns, )")

# ------------------------------------------------------------------------------------------------ C04
P = "parsers/_pseudofunctions.py"
M("C04", "pct-formula", P, '"100*(" + code + ")/(" + _shift_all_names(code, shift) + ")-100"', '"100*(" + code + ")/(" + _shift_all_names(code, shift) + ")-1"', "C04-R1")
M("C04", "diff-inner-parens", P, '"(" + "(" + code + ")-(" + _shift_all_names(code, shift) + ")" + ")"', '"(" + code + "-" + _shift_all_names(code, shift) + ")"', "C04-R1")
M("C04", "roc-outer-parens", P, 'return "(" + "(" + code + ")/(" + _shift_all_names(code, shift) + ")" + ")"', 'return "(" + code + ")/(" + _shift_all_names(code, shift) + ")"', "C04-R1")
M("C04", "shift-parens", P, 'return "(" + _shift_all_names(code, shift) + ")"', "return _shift_all_names(code, shift)", "C04-R1")
M("C04", "mov-avg-total", P, '"(" + "(" + "+".join(sequence) + ")/" + str(total) + ")"', '"(" + "(" + "+".join(sequence) + ")/" + str(total+1) + ")"', "C04-R1")
M("C04", "mov-prod-op", P, 'return "(" + "*".join(sequence) + ")"', 'return "(" + "+".join(sequence) + ")"', "C04-R1")
M("C04", "alias-drift", P, '"movavg":\n        (_pseudo_mov_avg, -4),', '"movavg":\n        (_pseudo_mov_sum, -4),', "C04-R3")
M("C04", "alias-default-shift", P, '"difflog":\n        (_pseudo_diff_log, -1),', '"difflog":\n        (_pseudo_diff_log, -4),', "C04-R3")
M("C04", "postprocess-sign", "equations.py", 'equation = "-(" + lhs_rhs[0] + ")+" + lhs_rhs[1]', 'equation = "-" + lhs_rhs[0] + "+" + lhs_rhs[1]', "C04-R2")
M("C04", "ant-shock-parens", "simultaneous/_invariants.py", 'i.human: f"({i.human}+{j.human})"', 'i.human: f"{i.human}+{j.human}"', "C04-R2")
M("C04", "key-typo", "sources.py", 'parsed_content.get("measurement-shocks", )', 'parsed_content.get("measurement_shocks", )', "C04-R4")
M("C04", "kinds-swapped", "sources.py", "self._add_quantities(quantity_inputs, QuantityKind.MEASUREMENT_SHOCK)", "self._add_quantities(quantity_inputs, QuantityKind.TRANSITION_SHOCK)", "C04-R4")
M("C04", "from-lists-route", "sources.py", "self._add_measurement_shocks(measurement_shocks, )", "self._add_measurement_shocks(transition_shocks, )", "C04-R4")
M("C04", "logly-inverted", "sources.py", "unlisted_logly = bool(all_but)", "unlisted_logly = not bool(all_but)", "C04-R4")
M("C04", "shift-all-names-sub", P, "shift += int(by) if by else 0", "shift -= int(by) if by else 0", "C04-R5")
M("C04", "token-print-sign", "incidences/main.py", '_PRINT_TOKEN = "x[({qid},t{shift:+g})]"', '_PRINT_TOKEN = "x[({qid},t-{shift:g})]"', "C04-R5")
T("C04", "twin-pct-rewritten", P, '"100*(" + code + ")/(" + _shift_all_names(code, shift) + ")-100"', '"100*((" + code + ")/(" + _shift_all_names(code, shift) + ")-1)"')
T("C04", "twin-postprocess", "equations.py", 'equation = "-(" + lhs_rhs[0] + ")+" + lhs_rhs[1]', 'equation = "(" + lhs_rhs[1] + ")-(" + lhs_rhs[0] + ")"')

# ------------------------------------------------------------------------------------------------ C09
DT = "dates.py"
M("C09", "lt-becomes-le", DT, "        _check_periods(self, other, )\n        return self.serial < other.serial", "        _check_periods(self, other, )\n        return self.serial <= other.serial", "C09-R1")
M("C09", "eq-guard-dropped", DT, "        _check_periods(self, other, )\n        return self.serial == other.serial", "        return self.serial == other.serial", "C09-R1")
M("C09", "ge-becomes-gt", DT, "return self.serial >= other.serial", "return self.serial > other.serial", "C09-R1")
M("C09", "hash-drops-serial", DT, "return hash((int(self.serial), hash(self.frequency), ))", "return hash((hash(self.frequency), ))", "C09-R1")
M("C09", "guard-compares-names", DT, "if str(type(first)) == str(type(second)):", "if str(type(first)) != str(type(second)):", "C09-R1")
M("C09", "add-off-by-one", DT, "return type(self)(self.serial + int(other))", "return type(self)(self.serial + int(other) + 1)", "C09-R2")
M("C09", "sub-reversed", DT, "        return self.serial - other.serial", "        return other.serial - self.serial", "C09-R2")
M("C09", "sub-int-sign", DT, "return self.__add__(-int(other))", "return self.__add__(int(other))", "C09-R2")
M("C09", "ysf-no-minus-one", DT, "return int(year)*int(freq) + int(per) - 1", "return int(year)*int(freq) + int(per)", "C09-R3")
M("C09", "to-ys-no-plus-one", DT, "return self.serial//self.frequency.value, self.serial%self.frequency.value+1", "return self.serial//self.frequency.value, self.serial%self.frequency.value", "C09-R3")
M("C09", "soy-segment", DT, "return self.from_year_segment(year, 1)", "return self.from_year_segment(year, 0)", "C09-R3")
M("C09", "eopy-year", DT, "return self.from_year_segment(year-1, self.frequency.value)", "return self.from_year_segment(year, self.frequency.value)", "C09-R3")
M("C09", "yoy-direction", DT, "                return self - self.frequency.value", "                return self + self.frequency.value", "C09-R3")
M("C09", "q3-end-table", DT, '"end": {1: (3, 31), 2: (6, 30), 3: (9, 30), 4: (12, 31)},', '"end": {1: (3, 31), 2: (6, 30), 3: (9, 31), 4: (12, 31)},', "C09-R4")
M("C09", "h2-start-table", DT, '"start": {1: (1, 1), 2: (7, 1)},', '"start": {1: (1, 1), 2: (6, 1)},', "C09-R4")
M("C09", "quarter-month-map", DT, "return 1+((month-1)//3)", "return 1+(month//3)", "C09-R4")
M("C09", "daily-int-date", DT, "boy_serial = _dt.date(_dt.date.fromordinal(self.serial).year, 1, 1).toordinal()", "boy_serial = _dt.date(_dt.date.fromordinal(self.serial).year, 1, 1)", "C09-R5")
M("C09", "daily-segment-offset", DT, "        per = self.serial - boy_serial + 1", "        per = self.serial - boy_serial", "C09-R5")
M("C09", "serials-drop-end", DT, "return range(self._start.serial, self._end.serial+_sign(self._step), self._step) if not self.needs_resolve else None", "return range(self._start.serial, self._end.serial, self._step) if not self.needs_resolve else None", "C09-R6")
M("C09", "from-until-plus-one", DT, "serials = range(start_per.serial, end_per.serial + _sign(step), step, )", "serials = range(start_per.serial, end_per.serial + 1, step, )", "C09-R6")
M("C09", "reverse-keeps-step", DT, "        self._step = -self._step\n", "        pass\n", "C09-R6")
M("C09", "undefined-name", DT, "raise _wrongdoings.IrisPieCritical(\"Cannot convert period to daily period.\")", "raise IrisPieCritical(\"Cannot convert period to daily period.\")", "C09-R7")
T("C09", "twin-lt-mirrored", DT, "        _check_periods(self, other, )\n        return self.serial < other.serial", "        _check_periods(other, self, )\n        return other.serial > self.serial")
T("C09", "twin-ysf-reordered", DT, "return int(year)*int(freq) + int(per) - 1", "return int(per) - 1 + int(freq)*int(year)")
T("C09", "twin-quarter-map", DT, "return 1+((month-1)//3)", "return (month+2)//3")
T("C09", "twin-serials", DT, "return range(self._start.serial, self._end.serial+_sign(self._step), self._step) if not self.needs_resolve else None", "return range(self._start.serial, _sign(self._step)+self._end.serial, self._step) if not self.needs_resolve else None")

# ------------------------------------------------------------------------------------------------ C11
M("C11", "monthly-width", DT, 'return f"{year:04g}-{per:02g}"', 'return f"{year:04g}-{per:1g}"', "C11-R1") if False else None
M("C11", "quarterly-letter-case", DT, r'Frequency.QUARTERLY: (7, _re.compile(r"\d\d\d\d-Q\d", ), ),', r'Frequency.QUARTERLY: (7, _re.compile(r"\d\d\d\d-q\d", ), ),', "C11-R1")
M("C11", "quarterly-length", DT, r'Frequency.QUARTERLY: (7, _re.compile(r"\d\d\d\d-Q\d", ), ),', r'Frequency.QUARTERLY: (8, _re.compile(r"\d\d\d\d-Q\d", ), ),', "C11-R1")
M("C11", "ambiguous-monthly", DT, r'Frequency.MONTHLY: (7, _re.compile(r"\d\d\d\d-\d\d", ), ),', r'Frequency.MONTHLY: (7, _re.compile(r"\d\d\d\d-\w\d", ), ),', "C11-R1")
M("C11", "integer-stray-comma", DT, r'Frequency.INTEGER: (None, _re.compile(r"\([\-\+]?\d+\)", ), ),', r'Frequency.INTEGER: (None, _re.compile(r"\([\-\+]?\d+\),", ), ),', "C11-R1")
M("C11", "halfyear-split", DT, 'year, halfyear = sdmx_string.strip().split("-H")', 'year, halfyear = sdmx_string.strip().split("H")', "C11-R2")
M("C11", "quarter-fields-swapped", DT, "        year, quarter = sdmx_string.strip().split(\"-Q\")\n        return klass.from_year_segment(int(year), int(quarter))", "        year, quarter = sdmx_string.strip().split(\"-Q\")\n        return klass.from_year_segment(int(quarter), int(year))", "C11-R2")
M("C11", "repr-ctor", DT, 'def __repr__(self) -> str: return f"qq{self.to_year_segment()}"', 'def __repr__(self) -> str: return f"hh{self.to_year_segment()}"', "C11-R2")
M("C11", "refrequent-args", DT, "        return new_class.from_ymd(year, month, day, )", "        return new_class.from_ymd(year, day, month, )", "C11-R3")
M("C11", "quarter-month-map", DT, "return 1+((month-1)//3)", "return 1+(month//3)", "C11-R3")
M("C11", "q-middle-table", DT, '"middle": {1: (2, 15), 2: (5, 15), 3: (8, 15), 4: (11, 15)},', '"middle": {1: (2, 15), 2: (5, 15), 3: (10, 15), 4: (11, 15)},', "C11-R3")
M("C11", "dispatch-table", DT, "    Frequency.QUARTERLY: QuarterlyPeriod,", "    Frequency.QUARTERLY: HalfyearlyPeriod,", "C11-R4")
T("C11", "twin-pattern-quantifier", DT, r'Frequency.QUARTERLY: (7, _re.compile(r"\d\d\d\d-Q\d", ), ),', r'Frequency.QUARTERLY: (7, _re.compile(r"\d{4}-Q[0-9]", ), ),')
T("C11", "twin-daily-pattern", DT, r'Frequency.MONTHLY: (7, _re.compile(r"\d\d\d\d-\d\d", ), ),', r'Frequency.MONTHLY: (7, _re.compile(r"[0-9]{4}-[0-9]{2}", ), ),')

# ------------------------------------------------------------------------------------------------ C10
S = "series/main.py"
M("C10", "set-data-no-trim", S, "            self.data[pos, c] = d\n        self.trim()\n", "            self.data[pos, c] = d\n", "C10-R1")
M("C10", "replace-data-no-trim", S, "        self.data = new_values\n        self.trim()\n", "        self.data = new_values\n", "C10-R1")
M("C10", "replace-where-no-trim", S, "        self.data[test(self.data)] = new_value\n        self.trim()\n", "        self.data[test(self.data)] = new_value\n", "C10-R1")
M("C10", "apply-no-trim", S, "            new.data = new_data.reshape(self.data.shape[0], 1, )\n            new.trim()\n", "            new.data = new_data.reshape(self.data.shape[0], 1, )\n", "C10-R1")
M("C10", "wrapper-on-original", "series/_functionalize.py", "    out = new.{n}(*args, **kwargs, )", "    out = self.{n}(*args, **kwargs, )", "C10-R2")
M("C10", "wrapper-no-copy", "series/_functionalize.py", "    new = self.copy()", "    new = self", "C10-R2")
M("C10", "elementwise-on-original", "series/_elementwise.py", "            new.{k}(*args, **kwargs, )", "            object.{k}(*args, **kwargs, )", "C10-R2")
M("C10", "shallow-copy", "conveniences/copies.py", "        return _cp.deepcopy(self)", "        return _cp.copy(self)", "C10-R2")
M("C10", "broadcast-argument", S, "        other = other.copy()\n        other._broadcast_variants(self.num_variants, )", "        other._broadcast_variants(self.num_variants, )", "C10-R3")
M("C10", "binop-different-spans", S, "        other_data = other.get_data_from_until(from_until, )", "        other_data = other.get_data_from_until(other.from_until, )", "C10-R4")
M("C10", "binop-start", S, "        new._replace_start_and_values(from_until[0], new_data, )", "        new._replace_start_and_values(from_until[1], new_data, )", "C10-R4")
M("C10", "add-after-off-by-one", S, "    add_after = max(max_pos - num_periods + 1, 0)", "    add_after = max(max_pos - num_periods, 0)", "C10-R5")
M("C10", "add-before-sign", S, "    add_before = max(-min_pos, 0)", "    add_before = max(min_pos, 0)", "C10-R5")
M("C10", "shift-direction", S, "        self.start -= by\n", "        self.start += by\n", "C10-R5")
M("C10", "interp-scale", "series/_filling.py", "    scale_diff = (curr_index - previous_index) / (next_index - previous_index)", "    scale_diff = (curr_index - previous_index) / (next_index - curr_index)", "C10-R6")
M("C10", "moving-pad", "series/_moving.py", "            pad_width=((window_length-1, 0), (0, 0)),", "            pad_width=((window_length, 0), (0, 0)),", "C10-R6")
M("C10", "undefined-name", S, "        if old_date is None:", "        if old_data is None:", "C10-R7")
T("C10", "twin-add-before-commuted", S, "    add_before = max(-min_pos, 0)", "    add_before = max(0, -min_pos)")
T("C10", "twin-trim-via-replace", S, "        self.data[test(self.data)] = new_value\n        self.trim()\n", "        new_values = self.data\n        new_values[test(new_values)] = new_value\n        self._replace_data(new_values)\n")
T("C10", "twin-interp-rewritten", "series/_filling.py", "    return previous_value + diff * scale_diff", "    return diff * scale_diff + previous_value")

# ------------------------------------------------------------------------------------------------ C12
CV = "series/_conversions.py"
M("C12", "window-not-year-aligned", CV, "    start_year = self.start_date.get_year()\n    start_date = self.start_date.create_soy()\n    end_date = self.end_date.create_eoy()", "    start_year = self.start_date.get_year()\n    start_date = self.start_date\n    end_date = self.end_date.create_eoy()", "C12-R1")
M("C12", "factor-inverted", CV, "    factor = self.frequency.value // target_freq", "    factor = target_freq // self.frequency.value", "C12-R1")
M("C12", "daily-slice-end", CV, 't.to_daily(position="end", ) - start_date + 1,', 't.to_daily(position="end", ) - start_date,', "C12-R2")
M("C12", "first-last-swapped", CV, '    "first": _op.itemgetter(0),', '    "first": _op.itemgetter(-1),', "C12-R3")
M("C12", "mean-ignores-nan", CV, '    "mean": _st.mean,', '    "mean": _np.nanmean,', "C12-R3")
M("C12", "discard-always", CV, "    if discard_missing:\n        within_data = within_data[~_np.isnan(within_data)]", "    if True:\n        within_data = within_data[~_np.isnan(within_data)]", "C12-R3")
M("C12", "last-offset", CV, "    high_data[factor-1::factor, :] = flat_high_data[factor-1::factor, :]", "    high_data[factor::factor, :] = flat_high_data[factor::factor, :]", "C12-R4")
M("C12", "middle-sides-differ", CV, "    high_data[factor//2::factor, :] = flat_high_data[factor//2::factor, :]", "    high_data[factor//2::factor, :] = flat_high_data[::factor, :]", "C12-R4")
M("C12", "aggregate-guard-direction", CV, "        if target_freq > self.frequency or target_freq is _dates.Frequency.UNKNOWN", "        if target_freq < self.frequency or target_freq is _dates.Frequency.UNKNOWN", "C12-R5")
T("C12", "twin-slice-reordered", CV, 't.to_daily(position="end", ) - start_date + 1,', '1 + t.to_daily(position="end", ) - start_date,')

# ------------------------------------------------------------------------------------------------ C14
H = "series/_hp.py"
M("C14", "gap-sign", H, "        gap_data = extended_data - trend_data", "        gap_data = trend_data - extended_data", "C14-R1")
M("C14", "log-exp-one-side", H, "            trend_data = _np.exp(trend_data, )\n            gap_data = _np.exp(gap_data, )", "            trend_data = _np.exp(trend_data, )", "C14-R1")
M("C14", "truncate-one-side", H, "            trend_data = trend_data[:-self._num_extra_rows, :]\n            gap_data = gap_data[:-self._num_extra_rows, :]", "            trend_data = trend_data[:-self._num_extra_rows, :]", "C14-R1")
M("C14", "lonf-trend", "series/_ell_one.py", "    trend_data = data - gap_data", "    trend_data = data + gap_data", "C14-R1")
M("C14", "clip-differs", H, "        gap_data = gap_data[clip_start:clip_end, ...]", "        gap_data = gap_data[clip_start:clip_end+1, ...]", "C14-R2")
M("C14", "clip-end", H, "        clip_end = new_end_date - from_until[0] + 1", "        clip_end = new_end_date - from_until[0]", "C14-R2")
M("C14", "hpf-swapped", H, "    trend = type(self)(start_date=start_date, values=trend_data, )\n    gap = type(self)(start_date=start_date, values=gap_data, )", "    trend = type(self)(start_date=start_date, values=gap_data, )\n    gap = type(self)(start_date=start_date, values=trend_data, )", "C14-R2")
T("C14", "twin-gap-rewritten", H, "        gap_data = extended_data - trend_data", "        gap_data = -trend_data + extended_data")

# ------------------------------------------------------------------------------------------------ C20
M("C20", "variant-copy-drops-solution", "simultaneous/_variants.py", 'for i in ("levels", "changes", "solution", ):', 'for i in ("levels", "changes", ):', "C20-R1")
M("C20", "redvar-shares-invariant", "red_vars/main.py", "new._invariant = _co.deepcopy(self._invariant, )", "new._invariant = self._invariant", "C20-R1")
M("C20", "dataslate-variant-alias", "dataslates/_variants.py", "        new.data = self.data.copy()", "        new.data = self.data", "C20-R1") if False else None
M("C20", "redvar-variant-shares-system", "red_vars/_variants.py", "        new.system = self.system.copy()", "        new.system = self.system", "C20-R1") if False else None
M("C20", "expand-variants-alias", "has_variants.py", "self._variants.append(self._variants[-1].copy(), )", "self._variants.append(self._variants[-1], )", "C20-R2")
M("C20", "setstate-no-rebuild", "simultaneous/_invariants.py", "            setattr(self, k, state[k])\n        self._populate_derived_attributes()", "            setattr(self, k, state[k])", "C20-R3")
M("C20", "updater-serialized", "simultaneous/_invariants.py", '        "__description__",\n    )\n\n    _derived_slots = (\n        "dynamic_descriptor",\n        "steady_descriptor",\n        "update_steady_autovalues_in_variant",', '        "__description__",\n        "update_steady_autovalues_in_variant",\n    )\n\n    _derived_slots = (\n        "dynamic_descriptor",\n        "steady_descriptor",', "C20-R3")
M("C20", "equator-func-in-state", "equators/plain.py", '        "max_shift",\n    )\n\n    _nonstate_slots = (\n        "_func",\n    )', '        "max_shift",\n        "_func",\n    )\n\n    _nonstate_slots = (\n    )', "C20-R3")
M("C20", "explanatory-getstate-keeps-func", "explanatories/main.py", '        state["eval_level"] = None\n', "", "C20-R3")
M("C20", "quantity-join-none", "quantities.py", '" ".join(self.attributes or (), ),', '" ".join(self.attributes, ),', "C20-R4")
M("C20", "equation-no-split", "equations.py", 'self = klass(human=human, kind=EquationKind.from_portable(kind), description=description, attributes=set(attributes.split(" ", )), )', 'self = klass(human=human, kind=EquationKind.from_portable(kind), description=description, attributes=set(attributes), )', "C20-R4") if False else None
M("C20", "quantity-fields-swapped", "quantities.py", "        kind, human, logly, description, attributes = portable", "        kind, human, description, logly, attributes = portable", "C20-R4")
M("C20", "flags-dropped", "simultaneous/_invariants.py", "return klass.from_source(source, check_syntax=False, **flags, )", "return klass.from_source(source, check_syntax=False, )", "C20-R4")
M("C20", "ant-shocks-exported", "simultaneous/_invariants.py", '"quantities": _quantities.to_portable(quantities, ),', '"quantities": _quantities.to_portable(self.quantities, ),', "C20-R4")
M("C20", "kind-codes-collide", "quantities.py", '    QuantityKind.ANTICIPATED_SHOCK_VALUE: "#v",', '    QuantityKind.ANTICIPATED_SHOCK_VALUE: "#u",', "C20-R4")
T("C20", "twin-copy-explicit", "red_vars/main.py", "new._invariant = _co.deepcopy(self._invariant, )", "new._invariant = _co.deepcopy(self._invariant)")

# ------------------------------------------------------------------------------------------------ C18
ES = "red_vars/_estimators.py"
M("C18", "none-intercept-deref", ES, "(c.reshape((-1, 1)) if c is not None else 0)", "c.reshape((-1, 1))", "C18-R1")
M("C18", "lag-block-off-by-one", ES, "        y[:, order-i:-i]", "        y[:, order-i+1:-i+1]", "C18-R2") if False else None
M("C18", "lag-block-stop", ES, "        y[:, order-i:-i]", "        y[:, order-i:]", "C18-R2")
M("C18", "y0-start", ES, "    y0 = y[:, order:]", "    y0 = y[:, order-1:]", "C18-R2")
M("C18", "x-start", ES, "    x = data[exogenous_qids, order:]", "    x = data[exogenous_qids, :]", "C18-R2")
M("C18", "regressor-order", ES, "    rhs_est = _np.vstack([y1, x, k, ])[:, where]", "    rhs_est = _np.vstack([x, y1, k, ])[:, where]", "C18-R2")
M("C18", "B-includes-intercept", ES, "        B = beta[:, num_lagged_endogenous:-1]", "        B = beta[:, num_lagged_endogenous:]", "C18-R2")
M("C18", "residual-sign", ES, "    u = y0 - A @ y1 - B @ x - (c", "    u = y0 - A @ y1 + B @ x - (c", "C18-R2")
M("C18", "residual-write-offset", ES, "    data_array[residual_qids, order:] = residual_estimates", "    data_array[residual_qids, order-1:] = residual_estimates", "C18-R2")
M("C18", "ols-transposed", "fords/least_squares.py", "    My = rhs @ lhs.T", "    My = lhs @ rhs.T", "C18-R3")
M("C18", "ols-no-final-T", "fords/least_squares.py", "    return _np.linalg.solve(Mx, My).T", "    return _np.linalg.solve(Mx, My)", "C18-R3")
M("C18", "state-leads", "red_vars/_invariants.py", "Token(qid=qid, shift=-shift, )", "Token(qid=qid, shift=shift, )", "C18-R4")
M("C18", "init-column", "fords/simulators.py", "        first_column - 1,", "        first_column,", "C18-R4")
M("C18", "companion-identity-shape", "red_vars/_variants.py", "dynamic_identity = _np.eye(num_extra, num_endogenous * order, )", "dynamic_identity = _np.eye(num_extra, num_extra, )", "C18-R5")
M("C18", "companion-P-shape", "red_vars/_variants.py", "return _np.eye(num_lagged_endogenous, num_endogenous, dtype=float, )", "return _np.eye(num_endogenous, num_endogenous, dtype=float, )", "C18-R5")
M("C18", "impact-not-padded", "red_vars/_simulators.py", "    exogenous_impact = _np.pad(exogenous_impact, ((0, num_extra), (0, 0)), )\n", "", "C18-R5")
T("C18", "twin-residual-reordered", ES, "    u = y0 - A @ y1 - B @ x - (c", "    u = y0 - B @ x - A @ y1 - (c")
T("C18", "twin-none-guard-if", ES, "    u = y0 - A @ y1 - B @ x - (c.reshape((-1, 1)) if c is not None else 0)", "    u = y0 - A @ y1 - B @ x\n    if c is not None:\n        u = u - c.reshape((-1, 1))")

# ------------------------------------------------------------------------------------------------ C16
M("C16", "check-after-store", "sequentials/_invariants.py", "        if sorted(new_order) != list(range(self.num_equations)):\n            raise ValueError(\"New equation order must be a permutation of integers from 0 to num_equations-1\")\n        #\n        self.explanatories = [\n            self.explanatories[i]\n            for i in new_order\n        ]", "        self.explanatories = [\n            self.explanatories[i]\n            for i in new_order\n        ]\n        if sorted(new_order) != list(range(self.num_equations)):\n            raise ValueError(\"New equation order must be a permutation of integers from 0 to num_equations-1\")", "C16-R1")
M("C16", "check-no-raise", "sequentials/_invariants.py", "            raise ValueError(\"New equation order must be a permutation of integers from 0 to num_equations-1\")", "            ValueError(\"New equation order must be a permutation of integers from 0 to num_equations-1\")", "C16-R1")
M("C16", "reorder-before-compute", "sequentials/main.py", "        eids_reordered = _blazer.sequentialize_strictly(self.incidence_matrix, )\n        self.reorder_equations(eids_reordered, )", "        self.reorder_equations(tuple(range(self.num_equations)), )\n        eids_reordered = _blazer.sequentialize_strictly(self.incidence_matrix, )", "C16-R2")
T("C16", "twin-check-eq-form", "sequentials/_invariants.py", "        if sorted(new_order) != list(range(self.num_equations)):\n            raise ValueError(\"New equation order must be a permutation of integers from 0 to num_equations-1\")", "        if sorted(new_order) == list(range(self.num_equations)):\n            pass\n        else:\n            raise ValueError(\"New equation order must be a permutation of integers from 0 to num_equations-1\")")

# ------------------------------------------------------------------------------------------------ C05
ST = "simultaneous/_steady.py"
M("C05", "writeback-before-check", ST, "        if not success:\n            _throw_block_error(human_block, custom_header, )\n        #\n        # Update variant with steady levels and changes\n        _update_variant_with_final_guess(variant, steady_evaluator, qid_to_kind, qid_to_name, )", "        _update_variant_with_final_guess(variant, steady_evaluator, qid_to_kind, qid_to_name, )\n        if not success:\n            _throw_block_error(human_block, custom_header, )", "C05-R1")
M("C05", "check-dropped", ST, "        if not success:\n            _throw_block_error(human_block, custom_header, )\n", "", "C05-R1")
M("C05", "thrower-no-raise", ST, "    raise _wrongdoings.IrisPieError(message, )", "    _wrongdoings.IrisPieError(message, )", "C05-R1") if False else None
M("C05", "success-ignores-status", "steadiers/solver_dispatcher.py", "    success = exit_status.is_success", "    success = True", "C05-R1")
M("C05", "scipy-success-no-norm", "steadiers/solver_dispatcher.py", '    success = root_final.success and func_norm < solver_settings["tol"]', "    success = True or root_final.success", "C05-R1") if False else None
M("C05", "evaluators-swapped", ST, "        case (False, True, ):\n            return _ft.partial(\n                _steady_nonlinear,\n                evaluator_class=_evaluators.FlatSteadyEvaluator,", "        case (False, True, ):\n            return _ft.partial(\n                _steady_nonlinear,\n                evaluator_class=_evaluators.NonflatSteadyEvaluator,", "C05-R2")
M("C05", "linear-algorithm-swapped", ST, "        case (True, True, ):\n            return _ft.partial(\n                _steady_linear,\n                algorithm=_fs.solve_steady_linear_flat,", "        case (True, True, ):\n            return _ft.partial(\n                _steady_linear,\n                algorithm=_fs.solve_steady_linear_nonflat,", "C05-R2")
M("C05", "match-not-exhaustive", ST, "        case (True, False, ):\n            return _ft.partial(\n                _steady_linear,\n                algorithm=_fs.solve_steady_linear_nonflat,\n            )\n", "", "C05-R2")
M("C05", "changes-not-exponentiated", "steadiers/evaluators.py", "        changes[self._where_logly] = _np.exp(changes[self._where_logly])\n", "", "C05-R3")
M("C05", "split-off-by-one", "steadiers/evaluators.py", "current_guess[self._num_levels:]", "current_guess[self._num_levels+1:]", "C05-R3")
M("C05", "nonflat-array-no-exp", "steadiers/evaluators.py", "        new_paths = new_maybelog_levels.reshape(-1, 1) + self._shift_vec * new_maybelog_changes.reshape(-1, 1)\n        new_paths[self._where_logly, :] = _np.exp(new_paths[self._where_logly, :])", "        new_paths = new_maybelog_levels.reshape(-1, 1) + self._shift_vec * new_maybelog_changes.reshape(-1, 1)", "C05-R3")
M("C05", "stale-jacobian", "steadiers/evaluators.py", "        self._update_steady_array(maybelog_guess, )\n        jacobian = self._jacobian.eval(self._steady_array, self._column_offset, )\n        return jacobian[:", "        jacobian = self._jacobian.eval(self._steady_array, self._column_offset, )\n        return jacobian[:", "C05-R4")
M("C05", "path-no-shift", "steadiers/evaluators.py", "self._shift_vec * new_maybelog_changes.reshape(-1, 1)", "new_maybelog_changes.reshape(-1, 1)", "C05-R5")
M("C05", "steady-array-exp-before-sum", "simultaneous/_variants.py", "        steady_array = levels + changes * shift_vec", "        steady_array = levels * changes ** shift_vec", "C05-R5")
M("C05", "linear-block-sign", "fords/steadiers.py", "        hstack(( A + B, 0*A + (0-1)*B )),", "        hstack(( A + B, 0*A + (0+1)*B )),", "C05-R6")
M("C05", "linear-block-k", "fords/steadiers.py", "        hstack(( A + B, k*A + (k-1)*B )),", "        hstack(( A + B, k*A + k*B )),", "C05-R6")
M("C05", "linear-flat-sum", "fords/steadiers.py", "    Xi = left_div(-(A + B), C, )", "    Xi = left_div(-(A - B), C, )", "C05-R6")
M("C05", "meas-block", "fords/steadiers.py", "        hstack(( G, k*G )),", "        hstack(( G, 0*G )),", "C05-R6")
T("C05", "twin-success-positive-form", ST, "        if not success:\n            _throw_block_error(human_block, custom_header, )\n        #\n        # Update variant with steady levels and changes\n        _update_variant_with_final_guess(variant, steady_evaluator, qid_to_kind, qid_to_name, )", "        if success:\n            _update_variant_with_final_guess(variant, steady_evaluator, qid_to_kind, qid_to_name, )\n        else:\n            _throw_block_error(human_block, custom_header, )")
T("C05", "twin-linear-block-rewritten", "fords/steadiers.py", "        hstack(( A + B, 0*A + (0-1)*B )),", "        hstack(( B + A, -B )),")
T("C05", "twin-path-commuted", "steadiers/evaluators.py", "new_maybelog_levels.reshape(-1, 1) + self._shift_vec * new_maybelog_changes.reshape(-1, 1)", "new_maybelog_changes.reshape(-1, 1) * self._shift_vec + new_maybelog_levels.reshape(-1, 1)")

# ------------------------------------------------------------------------------------------------ C06
SK = "stacked_time/simulators.py"
EV = "stacked_time/_evaluators.py"
M("C06", "bool-return", SK, "        return _nq.ExitStatus.NO_SOLVER_NEEDED", "        success = True\n        return success", "C06-R1")
M("C06", "no-return-status", SK, "    evaluator.update(final_guess, data, )\n    return exit_status", "    evaluator.update(final_guess, data, )", "C06-R1")
M("C06", "ford-returns-none", "fords/simulators.py", "    return _nq.ExitStatus.SUCCESS", "    return None", "C06-R1")
M("C06", "jacobian-before-terminal", EV, "        if needs_terminal:\n            terminator.terminate_simulation(data_array, )\n        jacobian_outcome = jacobian.eval(data_array, )\n        if needs_terminal:\n            jacobian_outcome = terminator.terminate_jacobian(jacobian_outcome, )", "        jacobian_outcome = jacobian.eval(data_array, )\n        if needs_terminal:\n            terminator.terminate_simulation(data_array, )\n        if needs_terminal:\n            jacobian_outcome = terminator.terminate_jacobian(jacobian_outcome, )", "C06-R2")
M("C06", "func-no-terminal", EV, "        if needs_terminal:\n            terminator.terminate_simulation(data_array, )\n        equator_outcome = equator.eval(data_array, )\n        return _np.vstack(equator_outcome, ).flatten(order=\"F\", )", "        equator_outcome = equator.eval(data_array, )\n        return _np.vstack(equator_outcome, ).flatten(order=\"F\", )", "C06-R2")
M("C06", "jacobian-not-terminated", EV, "        jacobian_outcome = jacobian.eval(data_array, )\n        if needs_terminal:\n            jacobian_outcome = terminator.terminate_jacobian(jacobian_outcome, )\n        return jacobian_outcome\n", "        jacobian_outcome = jacobian.eval(data_array, )\n        return jacobian_outcome\n", "C06-R2")
M("C06", "final-guess-not-written", SK, "    evaluator.update(final_guess, data, )\n", "", "C06-R2")
M("C06", "terminator-no-exp", "fords/terminators.py", "        data_array[logly_rows, :] = _np.exp(data_array[logly_rows, :])\n", "", "C06-R3")
M("C06", "terminal-column-offset", "fords/terminators.py", "        first_terminal = last_simulation + 1", "        first_terminal = last_simulation", "C06-R3")
M("C06", "terminal-K-recursion", "fords/terminators.py", "            cum_K = T @ cum_K + K", "            cum_K = T @ cum_K", "C06-R3")
M("C06", "update-no-exp", EV, "        maybelog_guess[index_logly] = _np.exp(maybelog_guess[index_logly])\n", "", "C06-R3")
M("C06", "status-ignored", "simultaneous/_simulate.py", "                if not exit_status.is_success:\n                    when_fails_stream.add(f\"{simulation_header}: {exit_status}\", )\n", "", "C06-R4")
M("C06", "raise-dropped", "simultaneous/_simulate.py", "        when_fails_stream._raise()\n", "", "C06-R4")
M("C06", "slice-drops-last", "frames.py", "        self.slice = slice(self.first, self.last+1, )", "        self.slice = slice(self.first, self.last, )", "C06-R5")
M("C06", "num-columns", "frames.py", "        self.num_simulation_columns = self.simulation_last - self.first + 1", "        self.num_simulation_columns = self.simulation_last - self.first", "C06-R5")
M("C06", "zero-unanticipated-from-first", "frames.py", "        self.zero_unanticipated_slice = slice(self.first+1, None, )", "        self.zero_unanticipated_slice = slice(self.first, None, )", "C06-R5")
M("C06", "columns-to-run", SK, "    columns_to_run = tuple(range(frame.first, frame.simulation_last+1, ))", "    columns_to_run = tuple(range(frame.first, frame.simulation_last, ))", "C06-R5")
T("C06", "twin-num-columns", "frames.py", "        self.num_simulation_columns = self.simulation_last - self.first + 1", "        self.num_simulation_columns = 1 + self.simulation_last - self.first")
T("C06", "twin-status-positive", "simultaneous/_simulate.py", "                if not exit_status.is_success:\n                    when_fails_stream.add(f\"{simulation_header}: {exit_status}\", )\n", "                if exit_status.is_success:\n                    pass\n                else:\n                    when_fails_stream.add(f\"{simulation_header}: {exit_status}\", )\n")

# ------------------------------------------------------------------------------------------------ C07
M("C07", "union-difference-swapped", SK, "        .difference(exogenized_spots)\n        .union(endogenized_spots)", "        .union(exogenized_spots)\n        .difference(endogenized_spots)", "C07-R2")
M("C07", "unanticipated-all-columns", SK, '        | spots_from_register("exogenized_unanticipated", columns_to_run[0:1], )', '        | spots_from_register("exogenized_unanticipated", columns_to_run, )', "C07-R2")
M("C07", "anticipated-first-only", SK, '        spots_from_register("endogenized_anticipated", columns_to_run, )', '        spots_from_register("endogenized_anticipated", columns_to_run[0:1], )', "C07-R2")
M("C07", "register-typo", SK, '        | spots_from_register("endogenized_unanticipated", columns_to_run[0:1], )', '        | spots_from_register("endogenized_unaticipated", columns_to_run[0:1], )', "C07-R1")
M("C07", "copy-after-solve", SK, "    _copy_exogenized_data_to_frame_data(data, exogenized_spots, input_data_array, )\n\n    iter_printer", "    iter_printer", "C07-R2")
M("C07", "copy-from-frame", SK, "    _copy_exogenized_data_to_frame_data(data, exogenized_spots, input_data_array, )", "    _copy_exogenized_data_to_frame_data(data, exogenized_spots, data, )", "C07-R2")
M("C07", "return-order", SK, "    return wrt_spots, exogenized_spots\n", "    return exogenized_spots, wrt_spots\n", "C07-R2")
M("C07", "swap-pair-index", "plans/simulation_plans.py", "            self.endogenize_anticipated(dates, pair[1], *args, **kwargs, )", "            self.endogenize_anticipated(dates, pair[0], *args, **kwargs, )", "C07-R1")
M("C07", "swap-mode-mixed", "plans/simulation_plans.py", "            self.exogenize_anticipated(dates, pair[0], *args, **kwargs, )", "            self.exogenize_unanticipated(dates, pair[0], *args, **kwargs, )", "C07-R1")
M("C07", "insert-wrong-register", "fords/simulators.py", '    incidence = plan_registers["exogenized_anticipated"][:, simulation_slice]', '    incidence = plan_registers["exogenized_unanticipated"][:, simulation_slice]', "C07-R1")
M("C07", "augmented-P-pad", "fords/simulators.py", "        P = _np.pad(P, ((0, num_v_endogenized), (0, 0)), )", "        P = _np.pad(P, ((0, 0), (0, num_v_endogenized)), )", "C07-R3")
M("C07", "augmented-K-not-padded", "fords/simulators.py", "        K = _np.pad(K, (0, num_v_endogenized), )\n", "", "C07-R3")
M("C07", "smooth-split", "fords/simulators.py", "            v_endogenized = xi[-num_v_endogenized:]", "            v_endogenized = xi[:num_v_endogenized]", "C07-R3")
M("C07", "targets-with-noise", "fords/simulators.py", "    H = _np.zeros((num_y, solution.num_w, ), )", "    H = _np.ones((num_y, solution.num_w, ), )", "C07-R3")
T("C07", "twin-set-operators", SK, "        set(wrt_spots)\n        .difference(exogenized_spots)\n        .union(endogenized_spots)", "        (set(wrt_spots) - set(exogenized_spots)) | set(endogenized_spots)")

# ------------------------------------------------------------------------------------------------ C03
K = "fords/kalmans.py"
MK = "simultaneous/_kalmans.py"
M("C03", "total-drops-2pi", K, "            + self.sum_num_obs*self._LOG_2_PI\n            + self.sum_log_det_F", "            + self.sum_log_det_F", "C03-R1")
M("C03", "contrib-half-missing", K, "pe_Fi_pe/self.var_scale + num_obs*self._LOG_2_PI)/2 if num_obs else 0", "pe_Fi_pe/self.var_scale + num_obs*self._LOG_2_PI) if num_obs else 0", "C03-R1")
M("C03", "contrib-unscaled", K, "(log_det_F + num_obs*_np.log(self.var_scale) + pe_Fi_pe/self.var_scale + num_obs*self._LOG_2_PI)/2 if num_obs else 0", "(log_det_F + pe_Fi_pe + num_obs*self._LOG_2_PI)/2 if num_obs else 0", "C03-R1")
M("C03", "empty-period-guard", K, "num_obs*self._LOG_2_PI)/2 if num_obs else 0\n", "num_obs*self._LOG_2_PI)/2\n", "C03-R2")
M("C03", "num-obs-wrong", K, "        cache.all_num_obs[t] = y1.size", "        cache.all_num_obs[t] = y1.shape", "C03-R2")
M("C03", "producer-H-D-swapped", MK, "    return T, P, K, Z, H, D, cov_u, cov_w, v_impact, U,", "    return T, P, K, Z, D, H, cov_u, cov_w, v_impact, U,", "C03-R3")
M("C03", "data-u-w-swapped", MK, "    return y, u, v, w, inx_y.tolist(),", "    return y, w, v, u, inx_y.tolist(),", "C03-R3")
M("C03", "ford-producer-swapped", "fords/simulators.py", "    return T, P, K, Z, H, D, cov_u, cov_w, v_impact, U,", "    return T, P, K, Z, H, D, cov_w, cov_u, v_impact, U,", "C03-R3")
M("C03", "H-unmasked", MK, "    H = solution_v.H[inx_y, :]", "    H = solution_v.H[:, :]", "C03-R4")
M("C03", "mask-from-other-array", MK, "    inx_y = ~_np.isnan(y1_array[:, t], )\n    Z = solution_v.Za[inx_y, :]", "    inx_y = ~_np.isnan(y1_array[:, t], )\n    Z = solution_v.Za[inx_y, :]\n    inx_y = ~_np.isnan(std_w_array[:, t], )", "C03-R4")
M("C03", "cache-only-smooth", K, "        if store_smooth or store_update:", "        if store_smooth:", "C03-R5")
M("C03", "predict-shape-G", K, "        G = Q0 @ Zt_Fi", "        G = Zt_Fi @ Q0", "C03-R6")
M("C03", "predict-shape-Q0", K, "        Q0 = T @ Q1_prev @ T.T + P_cov_u_Pt", "        Q0 = T @ Q1_prev @ T.T + P_cov_u", "C03-R6")
M("C03", "smoother-shape-u", K, "        uk = uk + P_cov_u.T @ r", "        uk = uk + P_cov_u @ r", "C03-R6")
T("C03", "twin-total-rewritten", K, "            + self.sum_num_obs*self._LOG_2_PI\n            + self.sum_log_det_F\n            + self.sum_pe_Fi_pe\n        ) / 2;", "            + self.sum_pe_Fi_pe\n            + self._LOG_2_PI*self.sum_num_obs\n            + self.sum_log_det_F\n        ) * 0.5;")
T("C03", "twin-guard-order", K, "        if store_smooth or store_update:", "        if store_update or store_smooth:")

# ------------------------------------------------------------------------------------------------ C08
M("C08", "predict-u-under-w", K, "            self.predict_med.store(u0, (u_qids, t), )", "            self.predict_med.store(u0, (w_qids, t), )", "C08-R1")
M("C08", "smooth-no-transform", K, "            self.smooth_med.store(xi, (curr_xi_qids, t), rhs_indexes=curr_xi_indexes, transform=self.transform, )", "            self.smooth_med.store(xi, (curr_xi_qids, t), rhs_indexes=curr_xi_indexes, )", "C08-R1")
M("C08", "smooth-u-dropped", K, "            self.smooth_med.store(u, (u_qids, t), )\n", "", "C08-R1")
M("C08", "update-w-under-v", K, "            self.update_med.store(w, (w_qids, t), )", "            self.update_med.store(w, (v_qids, t), )", "C08-R1")
M("C08", "expand-inverted-mask", K, "        full[inx_y] = observed", "        full[~inx_y] = observed", "C08-R1")
M("C08", "no-exp-on-output", K, "            db[name].exp()\n", "", "C08-R2")
M("C08", "logly-rows-from-names", K, "for i, qid in enumerate(squid.y_qids, )\n        if qid_to_logly.get(qid, False)", "for i, qid in enumerate(squid.y_qids, )\n        if not qid_to_logly.get(qid, False)", "C08-R2")
M("C08", "transform-square", K, "            transform=solution_v.Ua,", "            transform=solution_v.T,", "C08-R3")
M("C08", "system-square-T", MK, "    T = solution_v.Ta", "    T = solution_v.T", "C08-R3")
T("C08", "twin-store-order", K, "            self.smooth_med.store(u, (u_qids, t), )\n            self.smooth_med.store(v, (v_qids, t), )", "            self.smooth_med.store(v, (v_qids, t), )\n            self.smooth_med.store(u, (u_qids, t), )")

# ------------------------------------------------------------------------------------------------ C01
SO = "fords/solutions.py"
FS = "fords/simulators.py"
M("C01", "qz-selector-tolerance", SO, "            return abs_beta < (1 + tolerance)*abs_alpha", "            return abs_beta < (1 - tolerance)*abs_alpha", "C01-R1")
M("C01", "stable-le", SO, "            return abs_root < (1 - tolerance)", "            return abs_root < (1 + tolerance)", "C01-R1")
M("C01", "unit-upper-le", SO, "            return abs_root >= (1 - tolerance) and abs_root < (1 + tolerance)", "            return abs_root >= (1 - tolerance) and abs_root <= (1 + tolerance)", "C01-R1")
M("C01", "unit-lower-gap", SO, "            return abs_root >= (1 - tolerance) and abs_root < (1 + tolerance)", "            return abs_root > (1 - tolerance) and abs_root < (1 + tolerance)", "C01-R1")
M("C01", "bk-branches-swapped", SO, "        elif num_unstable > num_forwards:", "        elif num_unstable < num_forwards:", "C01-R1")
M("C01", "slice-S12", SO, "    S12 = S[:num_stable, num_stable:]", "    S12 = S[num_stable:, :num_stable]", "C01-R2")
M("C01", "slice-Z21", SO, "    Z21 = Z[num_forwards:, :num_stable]", "    Z21 = Z[:num_forwards, :num_stable]", "C01-R2")
M("C01", "slice-QDD2", SO, "    Q_DD2 = Q_DD[num_stable:, :]", "    Q_DD2 = Q_DD[:num_stable, :]", "C01-R2")
M("C01", "G-cut-wrong-side", SO, "    G = system.G[:, num_forwards:]", "    G = system.G[:, :num_forwards]", "C01-R")
M("C01", "expansion-order", SO, "        Rk = -X @ _np.linalg.matrix_power(J, k_minus_1, ) @ Ru", "        Rk = -X @ Ru @ _np.linalg.matrix_power(J, k_minus_1, )", "C01-R2")
M("C01", "deviation-forgets-Ka", SO, "            new.Ka = _np.zeros_like(self.Ka, )", "            new.Ka = self.Ka", "C01-R4")
M("C01", "deviation-zeroes-more", SO, "            new.K = _np.zeros_like(self.K, )", "            new.K = _np.zeros_like(self.K, )\n            new.P = _np.zeros_like(self.P, )", "C01-R4")
M("C01", "measurement-D-always", FS, "    D = solution.D if not deviation else 0", "    D = solution.D if deviation else 0", "C01-R4")
M("C01", "sort-leads-last", "incidences/main.py", "    return sorted(tokens, key=lambda x: (-x.shift, x.qid))", "    return sorted(tokens, key=lambda x: (x.shift, x.qid))", "C01-R5")
M("C01", "forward-count-ge", "fords/descriptors.py", "if t.shift>0", "if t.shift>=0", "C01-R5")
M("C01", "solution-vector-drop", "fords/descriptors.py", "        tuple(system_transition_vector[num_forwards:]),", "        tuple(system_transition_vector[:num_forwards]),", "C01-R5")
T("C01", "twin-selector-rewritten", SO, "            return abs_beta < (1 + tolerance)*abs_alpha", "            return abs_beta < abs_alpha + tolerance*abs_alpha")
T("C01", "twin-unit-reordered", SO, "            return abs_root >= (1 - tolerance) and abs_root < (1 + tolerance)", "            return abs_root < (1 + tolerance) and not abs_root < (1 - tolerance)")

# ------------------------------------------------------------------------------------------------ C19
M("C19", "mark-suffix-only", "databoxes/_exports.py", '    return "__" + frequency.name.lower() + "__"', '    return "_" + frequency.name.lower() + "__"', "C19-R1")
M("C19", "mark-value-not-name", "databoxes/_exports.py", '    return "__" + frequency.name.lower() + "__"', '    return "__" + str(frequency.value) + "__"', "C19-R1")
M("C19", "continuation-mark-drift", "databoxes/_imports.py", '            if status and n=="*":', '            if status and n=="+":', "C19-R1")
M("C19", "block-start-column", "databoxes/_imports.py", "            current_start = column + 1", "            current_start = column", "C19-R1")
M("C19", "header-rows", "databoxes/_imports.py", "        num_header_rows = 1 + int(description_row)", "        num_header_rows = 1", "C19-R1")
M("C19", "frequency-alias-first", "dates.py", "    INTEGER = 0\n    YEARLY = 1\n    ANNUAL = 1", "    INTEGER = 0\n    YEARLY = 1\n    YEAR_END = 3", "C19-R1")
M("C19", "copy-not-deep", "databoxes/main.py", "        new_databox = _co.deepcopy(self, )", "        new_databox = type(self)(self)", "C19-R2")
M("C19", "prepend-mutates-argument", "databoxes/main.py", "        other = other.copy()\n", "", "C19-R2")
M("C19", "remove-unresolved", "databoxes/main.py", "        remove_names, *_ \\\n            = self._resolve_source_target_names(remove_names, None, strict_names, )\n", "", "C19-R2")
M("C19", "lockstep-variant-arg", "dataslates/main.py", "            v.remove_periods_from_end(remove, )", "            v.remove_periods_from_end(remove - 1, )", "C19-R3")
M("C19", "invariant-end-slice", "dataslates/_invariants.py", "            self.periods = self.periods[:-num_periods_to_remove]", "            self.periods = self.periods[:-num_periods_to_remove-1]", "C19-R3")
M("C19", "variant-start-slice", "dataslates/_variants.py", "            self.data = self.data[:, num_periods_to_remove:]", "            self.data = self.data[:, num_periods_to_remove+1:]", "C19-R3")
M("C19", "add-duplicates-last", "dataslates/_invariants.py", "_dates.periods_from_until(end_period + 1, new_end_period, )", "_dates.periods_from_until(end_period, new_end_period, )", "C19-R3")
M("C19", "variant-copy-alias", "dataslates/_variants.py", "        new.data = self.data.copy()", "        new.data = self.data", "C19-R3")
M("C19", "fallback-overwrites-all", "dataslates/_variants.py", "            values[index_nan] = _np.float64(fallbacks[name])", "            values[:] = _np.float64(fallbacks[name])", "C19-R3")
M("C19", "overwrites-before-fallbacks", "dataslates/_variants.py", "        self._apply_fallbacks(fallbacks, invariant, )\n        self._apply_overwrites(overwrites, invariant, )", "        self._apply_overwrites(overwrites, invariant, )\n        self._apply_fallbacks(fallbacks, invariant, )", "C19-R3")
T("C19", "twin-mark-fstring", "databoxes/_exports.py", '    return "__" + frequency.name.lower() + "__"', '    return f"__{frequency.name.lower()}__"')
T("C19", "twin-lockstep-rename", "dataslates/main.py", "            v.remove_periods_from_end(remove, )", "            v.remove_periods_from_end(remove)")

# ------------------------------------------------------------------------------------------------ rules added after the seeded-change rounds
KAL = "fords/kalmans.py"
M("C03", "smoother-skips-empty-period", KAL, "    if t <= cache.last_period_of_observations:", "    if t <= cache.last_period_of_observations and cache.all_num_obs[t]:", "C03-R7")
M("C03", "last-obs-unconditional", KAL, "        if any_y:\n            cache.last_period_of_observations = t", "        if True:\n            cache.last_period_of_observations = t", "C03-R7")
T("C03", "twin-guard-flipped", KAL, "    if t <= cache.last_period_of_observations:", "    if cache.last_period_of_observations >= t:")
M("C08", "smoother-skips-empty-period", KAL, "    if t <= cache.last_period_of_observations:", "    if t <= cache.last_period_of_observations and cache.all_num_obs[t]:", "C08-R4")
SOLF = "fords/solutions.py"
M("C08", "expansion-memo-shared", SOLF, "            self.triangular_expansion,\n            self.Pa, self.Xa, self.J, self.Ru,", "            self.square_expansion,\n            self.Pa, self.Xa, self.J, self.Ru,", "C08-R5")
M("C01", "expansion-memo-shared", SOLF, "            self.triangular_expansion,\n            self.Pa, self.Xa, self.J, self.Ru,", "            self.square_expansion,\n            self.Pa, self.Xa, self.J, self.Ru,", "C01-R6")
M("C01", "expansion-memo-not-reset", SOLF, "        self.square_expansion = []\n        self.triangular_expansion = []\n", "        self.square_expansion = []\n", "C01-R6")
T("C01", "twin-expansion-reset-order", SOLF, "        self.square_expansion = []\n        self.triangular_expansion = []\n", "        self.triangular_expansion = []\n        self.square_expansion = []\n")
PLN_ = "plans/simulation_plans.py"
M("C07", "span-end-exclusive", PLN_, "        return per >= self.start and per <= self.end", "        return self.start <= per < self.end", "C07-R1")
M("C07", "span-start-exclusive", PLN_, "        return per >= self.start and per <= self.end", "        return per > self.start and per <= self.end", "C07-R1")
T("C07", "twin-span-chained", PLN_, "        return per >= self.start and per <= self.end", "        return self.start <= per <= self.end")
M("C07", "conditioning-window-mixed", "fords/simulators.py", "        packed = (plan_registers, input_data_array, squid, frame.simulation_slice, )", "        packed = (plan_registers, input_data_array, squid, frame.slice, )", "C07-R3")
M("C07", "conditioning-crop-mixed", "fords/simulators.py", "    curr_xi_exogenized = curr_xi_exogenized[:, frame.simulation_slice]", "    curr_xi_exogenized = curr_xi_exogenized[:, frame.slice]", "C07-R3")
DT = "dates.py"
M("C09", "span-serials-cached", DT, "    @property\n    def _serials(self) -> range | None:", "    @_ft.cached_property\n    def _serials(self) -> range | None:", "C09-R8")
T("C09", "twin-cached-on-immutable-period", DT, "    @property\n    def segment(self, ) -> int:\n        return self.to_year_segment()[1]", "    @_ft.cached_property\n    def segment(self, ) -> int:\n        return self.to_year_segment()[1]")
AR = "series/arip.py"
M("C12", "arip-count-instead-of-distance", AR, "        num_low_periods = where_finite[-1] - where_finite[0]", "        num_low_periods = where_finite.size - 1", "C12-R7")
M("C12", "arip-rate-inverted", AR, "((last_low_value / first_low_value) ** (1 / num_low_periods))", "((first_low_value / last_low_value) ** (1 / num_low_periods))", "C12-R7")
M("C12", "arip-convert-direction", AR, "        return _conversions.convert_diff(low_diff, low_freq, high_freq, )", "        return _conversions.convert_diff(low_diff, high_freq, low_freq, )", "C12-R7")
M("C12", "arip-last-vector", AR, "    return [0, ]*(num_within-1) + [1, ]", "    return [0, ]*num_within + [1, ]", "C12-R7")
M("C12", "arip-mean-vector", AR, "    return [1/num_within, ] * num_within", "    return [1/num_within, ] * (num_within-1) + [0, ]", "C12-R7")
T("C12", "twin-arip-distance-rewritten", AR, "        num_low_periods = where_finite[-1] - where_finite[0]", "        num_low_periods = -(where_finite[0] - where_finite[-1])")
SM = "series/main.py"
M("C13", "yoy-lead", SM, "        self._shift_by_number(-self.frequency.value, )", "        self._shift_by_number(self.frequency.value, )", "C13-R6")
M("C13", "soy-uses-eopy", SM, "            t.create_soy()\n            for t in self.span", "            t.create_eopy()\n            for t in self.span", "C13-R6")
M("C13", "period-yoy-calendar", DT, "                return self - self.frequency.value", "                return self.from_year_segment(self.get_year() - 1, self.to_year_segment()[1])", "C13-R6")
M("C13", "tty-neutral-on-nonnull", SM, "        neutral_periods = tuple(t for t, tty in zipped if tty is None)", "        neutral_periods = tuple(t for t, tty in zipped if tty is not None)", "C13-R6")
M("C13", "shift-number-sign", SM, "        self.start -= by", "        self.start += by", "C13-R6")
T("C13", "twin-yoy-product", SM, "        self._shift_by_number(-self.frequency.value, )", "        self._shift_by_number(-1*self.frequency.value, )")
M("C14", "filter-matrix-aliased", H, "        F = _np.copy(self._F)", "        F = self._F", "C14-R3")
M("C14", "filter-matrix-inplace", H, "        F = _np.copy(self._F)\n        quasi_eye = _np.diag(_np.float64(~_np.isnan(data.flatten(), )))\n        F[:self._num_periods, :self._num_periods] += quasi_eye\n        return F", "        quasi_eye = _np.diag(_np.float64(~_np.isnan(data.flatten(), )))\n        self._F[:self._num_periods, :self._num_periods] += quasi_eye\n        return self._F", "C14-R3")
T("C14", "twin-filter-matrix-copy-method", H, "        F = _np.copy(self._F)", "        F = self._F.copy()")
STD = "simultaneous/_steady.py"
M("C05", "no-unknowns-either", STD, "        has_no_qids = (not block_level_qids) and (not block_change_qids)", "        has_no_qids = not (block_level_qids and block_change_qids)", "C05-R7")
M("C05", "no-unknowns-level-only", STD, "        has_no_qids = (not block_level_qids) and (not block_change_qids)", "        has_no_qids = not block_level_qids", "C05-R7")
T("C05", "twin-no-unknowns-demorgan", STD, "        has_no_qids = (not block_level_qids) and (not block_change_qids)", "        has_no_qids = not (block_level_qids or block_change_qids)")
BLZ = "incidences/blazer.py"
M("C16", "prefetch-last-appended", BLZ, "        eids_last = eids_last_next + eids_last\n        qids_last = qids_last_next + qids_last", "        eids_last = eids_last + eids_last_next\n        qids_last = qids_last + qids_last_next", "C16-R3")
M("C16", "prefetch-first-prepended", BLZ, "        eids_first = eids_first + eids_first_next", "        eids_first = eids_first_next + eids_first", "C16-R3")
M("C05", "prefetch-last-appended", BLZ, "        eids_last = eids_last_next + eids_last\n        qids_last = qids_last_next + qids_last", "        eids_last = eids_last + eids_last_next\n        qids_last = qids_last + qids_last_next", "C05-R8")
M("C06", "terminal-skips-unanticipated-zeroing", "frames.py", "        if self.start == self.simulation_end:", "        if self.start == self.end:", "C06-R5")
FS = "fords/simulators.py"
M("C07", "exogenized-targets-not-logged", FS, "        input_data_array[logly_indexes, :] = _np.log(input_data_array[logly_indexes, :])\n", "        pass\n", "C07-R4")
M("C07", "exogenized-log-in-place", FS, "        input_data_array = input_data_array.copy()\n", "", "C07-R4")
M("C07", "endogenized-writeback-row-major", FS, "        ___.T[incidence_v.T] += v_endogenized", "        ___[incidence_v] += v_endogenized", "C07-R4")
M("C07", "endogenized-std-row-major", FS, "            std_v_endogenized = std_v_array.T[incidence_v.T, ]", "            std_v_endogenized = std_v_array[incidence_v, ]", "C07-R4")
M("C12", "select-as-tuple", "series/_conversions.py", "        select = list(select)", "        select = tuple(select)", "C12-R3")
T("C12", "twin-select-asarray", "series/_conversions.py", "        select = list(select)", "        select = _np.asarray(select)")
LO = "series/_ell_one.py"
M("C14", "lonf-variants-dropped", LO, "    trend_series = Series(num_variants=num_variants, start=start_period, values=trend_data_variants, )", "    trend_series = Series(start=start_period, values=trend_data_variants, )", "C14-R1")
M("C14", "lonf-lists-crossed", LO, "        trend_data_variants.append(trend_data, )\n        gap_data_variants.append(gap_data, )", "        trend_data_variants.append(gap_data, )\n        gap_data_variants.append(trend_data, )", "C14-R1")
M("C14", "lonf-return-swapped", LO, "    return trend_series, gap_series,", "    return gap_series, trend_series,", "C14-R1")
T("C14", "twin-lonf-num-variants-inline", LO, "    num_variants = len(trend_data_variants)\n", "    num_variants = len(gap_data_variants)\n")
M("C03", "info-series-on-base-span", KAL, "        out_info_v = cache.create_out_info(input_ds_v.periods, )", "        out_info_v = cache.create_out_info(span, )", "C03-R8")
M("C03", "contributions-filtered", KAL, "            # if num_obs is not None\n", "            if num_obs\n", "C03-R8")
T("C03", "twin-info-series-root-dataslate", KAL, "        out_info_v = cache.create_out_info(input_ds_v.periods, )", "        out_info_v = cache.create_out_info(input_ds.periods, )")
M("C16", "split-ids-sorted", BLZ, "    extracted = tuple(ids[i] for i in index)", "    index = set(index)\n    extracted = tuple(id_ for i, id_ in enumerate(ids) if i in index)", "C16-R3")
T("C16", "twin-split-ids-loop", BLZ, "    extracted = tuple(ids[i] for i in index)", "    extracted = tuple([ids[j] for j in index])")
M("C16", "failed-order-includes-remainder", BLZ, "        return eids_first + eids_last\n", "        return eids_first + eids_rem + eids_last\n", "C16-R4")
T("C16", "twin-failed-order-raises", BLZ, '            _wrongdoings.IrisPieError("Cannot find strict sequential reordering", )\n        return eids_first + eids_last\n', '            raise _wrongdoings.IrisPieError("Cannot find strict sequential reordering", )\n        return eids_first + eids_rem + eids_last\n')
SQS = "sequentials/_simulate.py"
M("C17", "exogenized-by-truthiness", SQS, "                equation.simulate\n                if implied_value is None\n                else equation.exogenize", "                equation.exogenize\n                if implied_value\n                else equation.simulate", "C17-R7")
M("C17", "exogenized-dispatch-inverted", SQS, "                if implied_value is None\n", "                if implied_value is not None\n", "C17-R7")
T("C17", "twin-exogenized-is-not-none", SQS, "                equation.simulate\n                if implied_value is None\n                else equation.exogenize", "                equation.exogenize\n                if implied_value is not None\n                else equation.simulate")
M("C17", "variant-loop-container", SQS, "            model_v, dataslate_v, plan, vid,", "            model_v, dataslate, plan, vid,", "C17-R6")
M("C18", "exogenous-impact-from-container", "red_vars/_simulators.py", "            exogenous_impact = _simulate_exogenous_impact(model_v, dataslate_v, )", "            exogenous_impact = _simulate_exogenous_impact(model_v, dataslate, )", "C18-R6")
M("C18", "simulate-flat-on-container", "red_vars/_simulators.py", "            model_v, dataslate_v, frame,", "            model_v, dataslate, frame,", "C18-R6")
M("C08", "filter-data-from-container", KAL, "        data_array = input_ds_v.get_data_variant()", "        data_array = input_ds.get_data_variant()", "C08-R6")
M("C19", "resolver-filters-sources-first", "databoxes/main.py", "        if target_names is None:\n            target_names = source_names\n        if isinstance(target_names, str):", "        if not strict_names:\n            source_names = tuple(n for n in source_names if n in context_names)\n        if target_names is None:\n            target_names = source_names\n        if isinstance(target_names, str):", "C19-R2")
T("C19", "twin-resolver-loop", "databoxes/main.py", "            source_target_pairs = tuple((s, t) for s, t in zip(source_names, target_names, ) if s in context_names)", "            source_target_pairs = tuple(p for p in zip(source_names, target_names, ) if p[0] in context_names)")
INV = "simultaneous/_invariants.py"
M("C20", "setstate-defaults-win", INV, "            setattr(self, k, state[k])\n        self._populate_derived_attributes()", "            setattr(self, k, state[k])\n        self.tolerance = (self.tolerance or {}) | _tolerance._DEFAULT_TOLERANCE\n        self._populate_derived_attributes()", "C20-R3")
T("C20", "twin-setstate-restored-wins", INV, "            setattr(self, k, state[k])\n        self._populate_derived_attributes()", "            setattr(self, k, state[k])\n        self.tolerance = _tolerance._DEFAULT_TOLERANCE | (self.tolerance or {})\n        self._populate_derived_attributes()")
M("C20", "zero-array-ignores-variant", "simultaneous/main.py", "        if variant is None:\n            variant = self._variants[0]\n        return variant.create_zero_array(qid_to_logly, **kwargs, )", "        return self._variants[0].create_zero_array(qid_to_logly, **kwargs, )", "C20-R5")
GET = "simultaneous/_get.py"
M("C20", "std-qids-generator", GET, "        return tuple(_quantities.generate_qids_by_kind(self._invariant.quantities, kind, ))\n\n    @_cast_as_output_type\n    @_unpack_singleton_in_dict\n    def get_parameters_stds(", "        return _quantities.generate_qids_by_kind(self._invariant.quantities, kind, )\n\n    @_cast_as_output_type\n    @_unpack_singleton_in_dict\n    def get_parameters_stds(", "C20-R6")
M("C20", "std-names-generator", GET, "        std_qids = tuple(_quantities.generate_qids_by_kind(self._invariant.quantities, _quantities.QuantityKind.ANY_STD, ))\n        for v in self._variants:", "        std_qids = _quantities.generate_qids_by_kind(self._invariant.quantities, _quantities.QuantityKind.ANY_STD, )\n        for v in self._variants:", "C20-R6")
T("C20", "twin-std-names-list", GET, "        std_qids = tuple(_quantities.generate_qids_by_kind(self._invariant.quantities, _quantities.QuantityKind.ANY_STD, ))\n        for v in self._variants:", "        std_qids = list(_quantities.generate_qids_by_kind(self._invariant.quantities, _quantities.QuantityKind.ANY_STD, ))\n        for v in self._variants:")
M("C20", "portable-pairs-not-retupled", "simultaneous/main.py", "            self_v.assign_strict({ n: tuple(v) for n, v in portable_v.items() }, )", "            self_v.assign_strict(portable_v, )", "C20-R4")
M("C20", "change-logly-no-rebuild", "simultaneous/main.py", "        self._invariant._populate_derived_attributes()\n", "", "C20-R7")
M("C10", "trim-start-off-by-one", SM, "            self.start += int(slice_from)", "            self.start += int(slice_from) + 1", "C10-R1")
M("C10", "trim-keeps-one-trailing", SM, "        slice_to = -num_trailing if num_trailing else None", "        slice_to = -num_trailing + 1 if num_trailing > 1 else None", "C10-R1")
M("C10", "trim-all-missing-not-reset", SM, "        if num_trailing == self.data.shape[0]:\n            self.reset()\n            return self\n", "", "C10-R1")
T("C10", "twin-trim-or-none", SM, "        slice_to = -num_trailing if num_trailing else None", "        slice_to = -num_trailing or None")
T("C10", "twin-trim-demorgan", SM, "        if not num_leading and not num_trailing:\n            return self", "        if not (num_leading or num_trailing):\n            return self")
T("C03", "twin-period-loop-explicit-start", KAL, "    for t in range(cache.num_periods, ):\n        cache.all_a0[t] += cache.all_Xi[t] @ delta", "    for t in range(0, cache.num_periods, 1):\n        cache.all_a0[t] += cache.all_Xi[t] @ delta")
SIMU = "simultaneous/_simulate.py"
T("C07", "twin-snapshot-after-create-frames", SIMU, "            input_data_array = dataslate_v.get_data_variant().copy()\n\n            frames = simulator_module.create_frames(\n                model_v, dataslate_v, plan,\n                force_split_frames=force_split_frames,\n            )\n", "            frames = simulator_module.create_frames(\n                model_v, dataslate_v, plan,\n                force_split_frames=force_split_frames,\n            )\n\n            input_data_array = dataslate_v.get_data_variant().copy()\n")
T("C06", "twin-simulation-end-named-params", "stacked_time/simulators.py", "        get_simulation_end=lambda *_, : base_end,", "        get_simulation_end=lambda start, end: base_end,")
M("C06", "stacked-frames-stop-at-frame-end", "stacked_time/simulators.py", "        get_simulation_end=lambda *_, : base_end,", "        get_simulation_end=lambda start, end: end,", "C06-R8")
M("C01", "anticipated-impact-to-frame-end", "fords/shock_simulators.py", "    last_column = frame.simulation_end - dataslate_v.periods[0]", "    last_column = frame.end - dataslate_v.periods[0]", "C01-R8")
M("C02", "lagged-state-read-one-more-back", "fords/systems.py", "            xi_lagged = _get_vector(descriptor, data_array_lagged, tokens, logly, column_offset, )", "            xi_lagged = _get_vector(descriptor, data_array_lagged, tokens, logly, column_offset-1, )", "C02-R6")
T("C02", "twin-lag-in-offset-not-array", "simultaneous/main.py", "shift_in_first_column=min_shift-1, )", "shift_in_first_column=min_shift-2+1, )")
M("C04", "populate-logly-endogenous-only", "sources.py", "            if qty.kind not in QuantityKind.LOGGABLE_VARIABLE:", "            if qty.kind not in QuantityKind.ENDOGENOUS_VARIABLE:", "C04-R7")
M("C14", "hp-stencil-minus-one", H, "            K[i,i+1] = -2", "            K[i,i+1] = -1", "C14-R4")
M("C14", "hp-level-constraint-column-off", H, "            extra_variants[j, i] = 1", "            extra_variants[j-1, i] = 1", "C14-R4")
M("C14", "hp-change-constraint-sign", H, "            extra_rows[i, [j-1, j]] = (-1, 1)", "            extra_rows[i, [j-1, j]] = (1, -1)", "C14-R4")
M("C14", "hp-extra-rows-not-counted", H, "        self._F = _np.hstack((self._F, extra_variants, ))\n        self._num_extra_rows += num_constraints", "        self._F = _np.hstack((self._F, extra_variants, ))", "C14-R4")
T("C14", "twin-hp-stencil-one-loop", H, "        for i in range(self._num_periods-2):\n            K[i,i] = 1\n            K[i,i+2] = 1\n        for i in range(self._num_periods-2):\n            K[i,i+1] = -2", "        for i in range(self._num_periods-2):\n            K[i,i] = 1\n            K[i,i+1] = -2\n            K[i,i+2] = 1")

"""
C05 — steady state returned by solve_steady satisfies the steady-state equations (partial).

  R1  a block that did not converge is never written back: the `success` test (whose failing branch always raises)
      dominates the write-back, and `success` comes from the solver's exit status
  R2  solver dispatch over (is_linear, is_flat) is exhaustive and flag-consistent
  R3  log/exp symmetry between the guess vector and the steady array; levels/changes split at one index
  R4  function and Jacobian are evaluated at the same points (shared with C02-R3)
  R5  steady paths are level + shift*change (in logs for log-variables); shift vector covers min..max+k
  R6  linear steady solver: coefficient blocks are those of A(X+t dX) + B(X+(t-1)dX) + C and F(Y+t dY)+G(X+t dX)+H at t = 0, k
"""
from __future__ import annotations

import ast

from .. import alg, flow
from ..alg import Undecided, sym, num, add, sub, mul
from ..core import (AnalysisError, dotted, unparse, params, walk_no_nested, strip_docstring, squash, assign_value, assignments,
                    calls_to, returns_of, single_return, tuple_names)
from . import c02

SMOD = "irispie.simultaneous._steady"
EMOD = "irispie.steadiers.evaluators"
DMOD = "irispie.steadiers.solver_dispatcher"
VMOD = "irispie.simultaneous._variants"
FMOD = "irispie.fords.steadiers"


def _always_raises(f) -> bool:
    exits = flow.run(flow.Analysis(), strip_docstring(f.body), frozenset())
    return bool(exits) and all(k == "raise" for k, _, _ in exits)


class SuccessFlow(flow.Analysis):
    def __init__(self, success_name, raisers, writeback):
        self.s, self.raisers, self.writeback = success_name, raisers, writeback
        self.bad_sites, self.good_sites = [], []
        self.solve_sites = 0

    def cond(self, test, state, truth):
        t = squash(test)
        if t == f"not{self.s}":
            return frozenset(state | {"ok"}) if truth is False else frozenset(state | {"failed"})
        if t == self.s:
            return frozenset(state | {"ok"}) if truth is True else frozenset(state | {"failed"})
        return state

    def noreturn(self, st):
        return isinstance(st, ast.Expr) and isinstance(st.value, ast.Call) and dotted(st.value.func) in self.raisers

    def stmt(self, st, state):
        if isinstance(st, ast.Assign):
            names = []
            for t in st.targets:
                names += [e.id for e in ast.walk(t) if isinstance(e, ast.Name)]
            if self.s in names:
                self.solve_sites += 1
                state = frozenset(x for x in state if x not in ("ok", "failed"))
                state = frozenset(state | {"pending"})
        for c in (n for n in ast.walk(st) if isinstance(n, ast.Call)):
            if dotted(c.func) in self.writeback:
                if "ok" in state and "failed" not in state:
                    self.good_sites.append(c)
                else:
                    self.bad_sites.append(c)
        return state


def rule_r1(chk):
    chk.rule("C05-R1", "in _steady_nonlinear every path to _update_variant_with_final_guess passes the test of `success` on its "
             "non-failing side; the failing side calls a function that always raises; each solver derives `success` from its exit "
             "status / (root.success and norm < tol) and returns (final_guess, success, exit_status) in the order the caller unpacks", floor=6)
    m = chk.repo.mod(SMOD)
    f = m.func("_steady_nonlinear")
    chk.saw(m, "_steady_nonlinear")
    thrower = m.func("_throw_block_error")
    chk.ob("C05-R1", "simultaneous._steady._throw_block_error", _always_raises(thrower), "every path ends in raise", m.loc(thrower))
    solve_asg = [n for n in ast.walk(f) if isinstance(n, ast.Assign) and isinstance(n.value, ast.Call) and dotted(n.value.func) == "solve"]
    if len(solve_asg) != 1 or not isinstance(solve_asg[0].targets[0], ast.Tuple):
        raise AnalysisError("anchor vanished: `... = solve(steady_evaluator, ...)` in _steady_nonlinear")
    unpack = tuple_names(solve_asg[0].targets[0])
    succ = next((n for n in unpack if "success" in n), None)
    if succ is None:
        chk.undecided("C05-R1", "simultaneous._steady._steady_nonlinear", f"no success flag among {unpack}", m.loc(f))
        return
    an = SuccessFlow(succ, {"_throw_block_error"}, {"_update_variant_with_final_guess"})
    flow.run(an, strip_docstring(f.body), frozenset())
    if not (an.good_sites or an.bad_sites):
        raise AnalysisError("anchor vanished: write-back call in _steady_nonlinear")
    chk.ob("C05-R1", "simultaneous._steady._steady_nonlinear[guard dominates write-back]", not an.bad_sites,
           f"write-back reached only with `{succ}` true ({len(an.good_sites)} path state(s))" if not an.bad_sites else
           "the variant can be updated with a guess whose convergence was not confirmed", m.loc((an.bad_sites or an.good_sites)[0]))
    # the value written back is the solver's final guess
    fg = assignments(f, "steady_evaluator.final_guess")
    ok = len(fg) == 1 and unparse(fg[0].value) == unpack[0]
    chk.ob("C05-R1", "simultaneous._steady._steady_nonlinear[final guess]", ok if fg else None,
           f"steady_evaluator.final_guess = {unparse(fg[0].value) if fg else '?'} (solver returns {unpack})", m.loc(f))
    # dispatchers
    dm = chk.repo.mod(DMOD)
    n_solvers = 0
    for q, g in dm.functions():
        if q.startswith("create_") or q.startswith("_"):
            continue
        r = single_return(g)
        if not isinstance(r, ast.Tuple) or len(r.elts) != 3:
            continue
        n_solvers += 1
        chk.saw(dm, q)
        names = tuple_names(r)
        pos_ok = [("success" in a) == ("success" in b) and ("status" in a) == ("status" in b) for a, b in zip(names, unpack)]
        chk.ob("C05-R1", f"steadiers.solver_dispatcher.{q}[return order]", all(pos_ok), f"returns {names}; caller unpacks {unpack}", dm.loc(g))
        sv = assign_value(g, names[1]) if isinstance(r.elts[1], ast.Name) else r.elts[1]
        src = squash(sv) if sv is not None else ""
        derived = (".is_success" in src) or (".success" in src and "<" in src)
        chk.ob("C05-R1", f"steadiers.solver_dispatcher.{q}[success from exit status]", derived if sv is not None else None,
               f"success = {unparse(sv) if sv is not None else '?'}", dm.loc(g))
    if n_solvers < 2:
        raise AnalysisError(f"anchor vanished: {n_solvers} solver functions in solver_dispatcher")
    # linear path writes what the algorithm returns (no convergence involved) — order of unpack
    lin = m.func("_steady_linear")
    chk.saw(m, "_steady_linear")
    a = [n for n in walk_no_nested(lin) if isinstance(n, ast.Assign) and isinstance(n.value, ast.Call) and dotted(n.value.func) == "algorithm"]
    fm = chk.repo.mod(FMOD)
    for alg_name in ("solve_steady_linear_flat", "solve_steady_linear_nonflat"):
        r = single_return(fm.func(alg_name))
        ok = bool(a) and tuple_names(a[0].targets[0]) == tuple_names(r)
        chk.ob("C05-R1", f"fords.steadiers.{alg_name}[return order]", ok, f"returns {tuple_names(r)}; _steady_linear unpacks {tuple_names(a[0].targets[0]) if a else '?'}", fm.loc(fm.func(alg_name)))


def rule_r2(chk):
    chk.rule("C05-R2", "_choose_steady_solver matches all four (is_linear, is_flat) combinations; linear -> _steady_linear with the "
             "flat/nonflat algorithm of that flag, nonlinear -> _steady_nonlinear with the Flat/Nonflat evaluator of that flag", floor=5)
    m = chk.repo.mod(SMOD)
    f = m.func("_choose_steady_solver")
    chk.saw(m, "_choose_steady_solver")
    cases = {}
    subject = None
    for n in ast.walk(f):
        if isinstance(n, ast.Match):
            subject = squash(n.subject)
            for c in n.cases:
                if isinstance(c.pattern, ast.MatchSequence) and len(c.pattern.patterns) == 2 and all(isinstance(p, ast.MatchSingleton) for p in c.pattern.patterns):
                    key = tuple(p.value for p in c.pattern.patterns)
                    r = c.body[0].value if isinstance(c.body[0], ast.Return) else None
                    cases[key] = r
    ps = params(f)
    if subject is None:
        chk.undecided("C05-R2", "simultaneous._steady._choose_steady_solver", "no match statement recognised", m.loc(f))
        return
    order = [squash(x) for x in ast.parse(subject, mode="eval").body.elts] if subject.startswith("(") else []
    chk.ob("C05-R2", "simultaneous._steady._choose_steady_solver[exhaustive]", set(cases) == {(a, b) for a in (True, False) for b in (True, False)},
           f"cases {sorted(cases)} over {subject}", m.loc(f))
    li, fi = (order.index("is_linear"), order.index("is_flat")) if order == ["is_linear", "is_flat"] or order == ["is_flat", "is_linear"] else (0, 1)
    for key, r in sorted(cases.items()):
        linear, flat = key[li], key[fi]
        if not (isinstance(r, ast.Call) and dotted(r.func) in ("_ft.partial", "functools.partial") and r.args):
            chk.undecided("C05-R2", f"simultaneous._steady._choose_steady_solver[{key}]", "case does not return a partial", m.loc(f))
            continue
        fn = dotted(r.args[0])
        kw = {k.arg: dotted(k.value) or "" for k in r.keywords}
        if linear:
            alg_ = kw.get("algorithm", "")
            ok = fn == "_steady_linear" and alg_.endswith("_flat" if flat else "_nonflat") and ("nonflat" in alg_) == (not flat)
            detail = f"linear={linear}, flat={flat} -> {fn}(algorithm={alg_})"
        else:
            ev = kw.get("evaluator_class", "")
            ok = fn == "_steady_nonlinear" and ev.endswith("FlatSteadyEvaluator" if flat else "NonflatSteadyEvaluator") and ("Nonflat" in ev) == (not flat)
            detail = f"linear={linear}, flat={flat} -> {fn}(evaluator_class={ev})"
        chk.ob("C05-R2", f"simultaneous._steady._choose_steady_solver[linear={linear},flat={flat}]", ok, detail, m.loc(r))
    g = m.func("solve_steady")
    c = calls_to(g, "_choose_steady_solver")
    ok = len(c) == 1 and [squash(a) for a in c[0].args] == ["model_flags.is_linear", "model_flags.is_flat"] and ps == ["is_linear", "is_flat"]
    chk.ob("C05-R2", "simultaneous._steady.solve_steady[flag order]", ok if c else None,
           f"_choose_steady_solver({', '.join(unparse(a) for a in c[0].args) if c else '?'}) with parameters {ps}", m.loc(g))


def _exp_stores(f):
    """(array, index) for statements  X[IDX, ...] = _np.exp(X[IDX, ...])  and same for log"""
    out = []
    for n in walk_no_nested(f):
        if isinstance(n, ast.Assign) and isinstance(n.targets[0], ast.Subscript) and isinstance(n.value, ast.Call) \
                and dotted(n.value.func) in ("_np.exp", "_np.log") and n.value.args and squash(n.value.args[0]) == squash(n.targets[0]):
            t = n.targets[0]
            idx = t.slice.elts[0] if isinstance(t.slice, ast.Tuple) else t.slice
            out.append((dotted(n.value.func).split(".")[-1], unparse(t.value), squash(idx), n))
    return out


def rule_r3(chk):
    chk.rule("C05-R3", "the rows exponentiated when the guess is written into the steady array, the entries exponentiated when levels "
             "and changes are read back, and the entries logged when the initial guess is retrieved are the same index set "
             "(generate_where_logly over wrt_qids); levels and changes are split at one index on both sides", floor=8)
    em = chk.repo.mod(EMOD)
    init = em.func("SteadyEvaluator.__init__")
    wl = assign_value(init, "self._where_logly")
    ok = wl is not None and "generate_where_logly(self.wrt_qids,qid_to_logly" in squash(wl)
    chk.ob("C05-R3", "steadiers.evaluators.SteadyEvaluator._where_logly", ok if wl is not None else None,
           f"_where_logly = {unparse(wl) if wl is not None else '?'}", em.loc(init))
    sites = [("FlatSteadyEvaluator._update_steady_array", "exp"), ("NonflatSteadyEvaluator._update_steady_array", "exp"),
             ("SteadyEvaluator.extract_levels", "exp"), ("SteadyEvaluator.extract_changes", "exp")]
    for q, kind in sites:
        f = em.func(q)
        chk.saw(em, q)
        st = _exp_stores(f)
        if not st:
            chk.bad("C05-R3", f"steadiers.evaluators.{q}", "no exp over the log-variable index: log-variables are left in logs", em.loc(f))
            continue
        for k, arr, idx, node in st:
            chk.ob("C05-R3", f"steadiers.evaluators.{q}[{arr}]", k == kind and idx == "self._where_logly", f"{k} over index {idx}", em.loc(node))
    vm = chk.repo.mod(VMOD)
    r = vm.func("Variant.retrieve_maybelog_values_for_qids")
    chk.saw(vm, "Variant.retrieve_maybelog_values_for_qids")
    st = _exp_stores(r)
    idxv = assign_value(r, "where_logly")
    ok = len(st) == 2 and all(k == "log" and idx == "where_logly" for k, _, idx, _ in st) and idxv is not None \
        and "generate_where_logly(qids,qid_to_logly" in squash(idxv)
    chk.ob("C05-R3", "simultaneous._variants.Variant.retrieve_maybelog_values_for_qids", ok,
           f"logs levels and changes over {unparse(idxv) if idxv is not None else '?'}", vm.loc(r))
    c = calls_to(init, "variant.retrieve_maybelog_values_for_qids")
    ok = len(c) == 1 and [squash(a) for a in c[0].args] == ["self.wrt_qids", "qid_to_logly"]
    chk.ob("C05-R3", "steadiers.evaluators.SteadyEvaluator.__init__[same qids]", ok if c else None,
           "the initial guess is retrieved for wrt_qids, the list _where_logly indexes", em.loc(init))
    # split at _num_levels
    ig = assign_value(init, "self._init_guess")
    nl = assign_value(init, "self._num_levels")
    ok = ig is not None and squash(ig) == "_np.hstack((self._maybelog_init_levels[self._bool_index_wrt_levels],self._maybelog_init_changes[self._bool_index_wrt_changes]))" \
        and nl is not None and squash(nl) == "sum(self._bool_index_wrt_levels)"
    chk.ob("C05-R3", "steadiers.evaluators.SteadyEvaluator.__init__[guess layout]", ok if ig is not None and nl is not None else None,
           "guess = [levels of wrt-level qids ; changes of wrt-change qids], _num_levels = number of level entries", em.loc(init))
    gl = em.func("NonflatSteadyEvaluator._get_maybelog_levels")
    gc = em.func("NonflatSteadyEvaluator._get_maybelog_changes")
    a = [n for n in ast.walk(gl) if isinstance(n, ast.Subscript) and unparse(n.value) == params(gl)[1]]
    b = [n for n in ast.walk(gc) if isinstance(n, ast.Subscript) and unparse(n.value) == params(gc)[1]]
    ok = len(a) == 1 and len(b) == 1 and squash(a[0].slice) == ":self._num_levels" and squash(b[0].slice) == "self._num_levels:"
    chk.ob("C05-R3", "steadiers.evaluators.NonflatSteadyEvaluator[split]", ok if a and b else None,
           f"levels = guess[{unparse(a[0].slice) if a else '?'}], changes = guess[{unparse(b[0].slice) if b else '?'}]", em.loc(gl))
    # write-back reads through the same extractors
    sm = chk.repo.mod(SMOD)
    u = sm.func("_update_variant_with_final_guess")
    chk.saw(sm, "_update_variant_with_final_guess")
    lv = [n for n in walk_no_nested(u) if isinstance(n, ast.Assign) and isinstance(n.value, ast.Call) and dotted(n.value.func) == "steady_evaluator.extract_levels"]
    ul = calls_to(u, "variant.update_levels_from_array")
    ok = len(lv) == 1 and len(ul) == 1 and tuple_names(lv[0].targets[0]) == [unparse(x) for x in ul[0].args]
    chk.ob("C05-R3", "simultaneous._steady._update_variant_with_final_guess[levels]", ok if lv and ul else None,
           "(levels, qids) from extract_levels go to update_levels_from_array in the same order", sm.loc(u))


def rule_r5(chk):
    chk.rule("C05-R5", "steady paths are level + shift*change, built in logs for log-variables and exponentiated afterwards; the shift "
             "vector runs from min_shift to max_shift + add with add >= NONFLAT_STEADY_SHIFT", floor=4)
    em = chk.repo.mod(EMOD)
    f = em.func("NonflatSteadyEvaluator._update_steady_array")
    chk.saw(em, "NonflatSteadyEvaluator._update_steady_array")
    np_ = assign_value(f, "new_paths")

    def call(node, conv):
        if isinstance(node.func, ast.Attribute) and node.func.attr == "reshape":
            return conv(node.func.value)
        return None
    try:
        from ..core import inline_locals
        lv = [n.targets[0].id for n in walk_no_nested(f) if isinstance(n, ast.Assign) and isinstance(n.targets[0], ast.Name) and isinstance(n.value, ast.Call)
              and dotted(n.value.func) == "self._get_maybelog_levels"]
        cv = [n.targets[0].id for n in walk_no_nested(f) if isinstance(n, ast.Assign) and isinstance(n.targets[0], ast.Name) and isinstance(n.value, ast.Call)
              and dotted(n.value.func) == "self._get_maybelog_changes"]
        if np_ is None or len(lv) != 1 or len(cv) != 1:
            raise Undecided("levels / changes / path assignment not recognised")
        got = alg.ToIR(call=call)(inline_locals(f, np_, keep=(lv[0], cv[0])))
        want = add(sym(lv[0]), mul(sym("self._shift_vec"), sym(cv[0])))
        chk.ob("C05-R5", "steadiers.evaluators.NonflatSteadyEvaluator._update_steady_array[path]", alg.equal(got, want),
               f"new_paths = {alg.show_rat(alg.nf(got))}", em.loc(f))
    except (Undecided, TypeError, AttributeError) as e:
        chk.undecided("C05-R5", "steadiers.evaluators.NonflatSteadyEvaluator._update_steady_array[path]", str(e), em.loc(f))
    vm = chk.repo.mod(VMOD)
    g = vm.func("Variant.create_steady_array")
    chk.saw(vm, "Variant.create_steady_array")
    sa = assign_value(g, "steady_array")
    try:
        got = alg.ToIR()(sa)
        chk.ob("C05-R5", "simultaneous._variants.Variant.create_steady_array[path]", alg.equal(got, add(sym("levels"), mul(sym("changes"), sym("shift_vec")))),
               f"steady_array = {alg.show_rat(alg.nf(got))}", vm.loc(g))
    except (Undecided, TypeError, AttributeError) as e:
        chk.undecided("C05-R5", "simultaneous._variants.Variant.create_steady_array[path]", str(e), vm.loc(g))
    st = _exp_stores(g)
    logs = sorted((arr, idx) for k, arr, idx, _ in st if k == "log")
    exps = sorted((arr, idx) for k, arr, idx, _ in st if k == "exp")
    ok = logs == [("changes", "where_logly"), ("levels", "where_logly")] and exps == [("steady_array", "where_logly")]
    # log before the sum, exp after
    if ok:
        line_sum = assignments(g, "steady_array")[0].lineno
        ok = all(n.lineno < line_sum for k, _, _, n in st if k == "log") and all(n.lineno > line_sum for k, _, _, n in st if k == "exp")
    chk.ob("C05-R5", "simultaneous._variants.Variant.create_steady_array[log/exp]", ok,
           f"log over {logs} before the sum; exp over {exps} after it", vm.loc(g))
    sv = assign_value(g, "shift_vec")
    try:
        ok = isinstance(sv, ast.Call) and isinstance(sv.args[0], ast.Call) and dotted(sv.args[0].func) == "range" \
            and squash(sv.args[0].args[0]) == "shift_in_first_column" \
            and alg.equal(alg.ToIR()(sv.args[0].args[1]), add(sym("shift_in_first_column"), sym("num_columns")))
    except (Undecided, AttributeError, IndexError):
        ok = None
    chk.ob("C05-R5", "simultaneous._variants.Variant.create_steady_array[shift vector]", ok,
           "column j holds shift (shift_in_first_column + j)", vm.loc(g))
    h = em.func("_prepare_time_shifts")
    chk.saw(em, "_prepare_time_shifts")
    import sa.fin as fin
    try:
        addv = fin.ev(assign_value(h, "add_shift"), {})
        k = fin.ev(em.assign("NONFLAT_STEADY_SHIFT"), {})
        sv = assign_value(h, "shift_vec")
        rng = next(n for n in ast.walk(sv) if isinstance(n, ast.Call) and dotted(n.func) == "range")
        lo, hi = rng.args[0], rng.args[1]
        mx = assign_value(h, "max_shift")
        ok = addv >= k and squash(lo) == "min_shift" and squash(hi) == "max_shift+1" and squash(mx).endswith("+add_shift")
        chk.ob("C05-R5", "steadiers.evaluators._prepare_time_shifts", ok,
               f"shifts range(min_shift, max_shift+1) with max_shift incl. +{addv} >= NONFLAT_STEADY_SHIFT={k}", em.loc(h))
    except (fin.NotFinite, StopIteration, AttributeError, TypeError) as e:
        chk.undecided("C05-R5", "steadiers.evaluators._prepare_time_shifts", str(e), em.loc(h))


def _blocks(node):
    """vstack((hstack((a,b)), hstack((c,d)))) -> [[a,b],[c,d]] of AST nodes"""
    if not (isinstance(node, ast.Call) and dotted(node.func) in ("vstack", "_np.vstack") and node.args and isinstance(node.args[0], ast.Tuple)):
        return None
    rows = []
    for r in node.args[0].elts:
        if not (isinstance(r, ast.Call) and dotted(r.func) in ("hstack", "_np.hstack") and r.args and isinstance(r.args[0], ast.Tuple)):
            return None
        rows.append(list(r.args[0].elts))
    return rows


def rule_r6(chk):
    chk.rule("C05-R6", "linear steady solver: with the path X + t*dX, the block rows at t = 0 and t = k have the coefficients of "
             "A(X + t dX) + B(X + (t-1) dX) + C in (X, dX), and of F(Y + t dY) + G(X + t dX) + H in (Y, dY) and (X, dX); "
             "the flat solver solves (A+B)X + C = 0 and FY + GX + H = 0", floor=8)
    fm = chk.repo.mod(FMOD)
    f = fm.func("solve_steady_linear_nonflat")
    chk.saw(fm, "solve_steady_linear_nonflat")
    A, B, F, G, X, dX, Y, dY, t = (sym(s) for s in ("A", "B", "F", "G", "X", "dX", "Y", "dY", "t"))
    trans = add(mul(A, add(X, mul(t, dX))), mul(B, add(X, mul(sub(t, num(1)), dX))))
    meas_y = mul(F, add(Y, mul(t, dY)))
    meas_x = mul(G, add(X, mul(t, dX)))
    kval = assign_value(f, "k")
    conv = alg.ToIR(env={"k": sym("k")})
    specs = [("AB", trans, ("X", "dX")), ("FF", meas_y, ("Y", "dY")), ("GG", meas_x, ("X", "dX"))]
    for name, eq, unknowns in specs:
        blk = _blocks(assign_value(f, name))
        if blk is None or len(blk) != 2 or any(len(r) != 2 for r in blk):
            chk.undecided("C05-R6", f"fords.steadiers.solve_steady_linear_nonflat[{name}]", "block structure not recognised", fm.loc(f))
            continue
        for i, tv in enumerate((num(0), sym("k"))):
            for j, u in enumerate(unknowns):
                try:
                    want = alg.subst(alg.diff(eq, u), {"t": tv})
                    got = conv(blk[i][j])
                    chk.ob("C05-R6", f"fords.steadiers.solve_steady_linear_nonflat[{name}[{i}][{j}]]", alg.equal(got, want),
                           f"block = {alg.show_rat(alg.nf(got))}; coefficient of {u} at t={'0' if i == 0 else 'k'} is {alg.show_rat(alg.nf(want))}", fm.loc(blk[i][j]))
                except Undecided as e:
                    chk.undecided("C05-R6", f"fords.steadiers.solve_steady_linear_nonflat[{name}[{i}][{j}]]", str(e), fm.loc(f))
    src_checks = [
        ("CC", "concatenate((C,C))"), ("HH", "concatenate((H,H))"),
        ("Xi_dXi", "left_div(-AB,CC)"), ("Y_dY", "left_div(-FF,GG@Xi_dXi+HH)"),
    ]
    for name, want in src_checks:
        v = assign_value(f, name)
        chk.ob("C05-R6", f"fords.steadiers.solve_steady_linear_nonflat[{name}]", squash(v) == want if v is not None else None,
               f"{name} = {unparse(v) if v is not None else '?'}", fm.loc(f))
    # unknown split: X = first num_xi rows (columns of A), Y = first num_y rows (columns of F)
    nx = [squash(a.value) for a in assignments(f, "num_xi")]
    ny = [squash(a.value) for a in assignments(f, "num_y")]
    ok = nx == ["A.shape[1]"] and ny and ny[-1] == "F.shape[1]"
    chk.ob("C05-R6", "fords.steadiers.solve_steady_linear_nonflat[split]", ok,
           f"num_xi = {nx}, num_y = {ny} (last assignment is used): number of unknowns = number of columns", fm.loc(f))
    try:
        ok = kval is not None and squash(kval) not in ("0",)
    except Exception:
        ok = None
    chk.ob("C05-R6", "fords.steadiers.solve_steady_linear_nonflat[k != 0]", ok, f"second evaluation time k = {unparse(kval) if kval is not None else '?'} (the two block rows are independent)", fm.loc(f))
    g = fm.func("solve_steady_linear_flat")
    chk.saw(fm, "solve_steady_linear_flat")
    for name, want in (("Xi", "left_div(-(A+B),C)"), ("Y", "left_div(-F,G@Xi+H)")):
        v = assign_value(g, name)
        chk.ob("C05-R6", f"fords.steadiers.solve_steady_linear_flat[{name}]", squash(v) == want if v is not None else None,
               f"{name} = {unparse(v) if v is not None else '?'}", fm.loc(g))
    for name in ("dXi", "dY"):
        v = assign_value(g, name)
        ok = v is not None and isinstance(v, ast.Call) and dotted(v.func) == "_np.zeros"
        chk.ob("C05-R6", f"fords.steadiers.solve_steady_linear_flat[{name}]", ok if v is not None else None, "flat steady state has zero change", fm.loc(g))


def rule_r7(chk):
    """truth table of the block-skip guard"""
    from .. import fin
    chk.rule("C05-R7", "finite evaluation of the block-skip guard in _steady_nonlinear over all emptiness combinations: a block is skipped "
             "(and reported solved) only when it has no level unknowns AND no change unknowns, or no equations", floor=8)
    m = chk.repo.mod(SMOD)
    f = m.func("_steady_nonlinear")
    hq, he = assign_value(f, "has_no_qids"), assign_value(f, "has_no_equations")
    skip = None
    for n in ast.walk(f):
        if isinstance(n, ast.If) and any(isinstance(x, ast.Continue) for x in n.body) and "has_no" in squash(n.test):
            skip = n.test
    if hq is None or he is None or skip is None:
        chk.undecided("C05-R7", "simultaneous._steady._steady_nonlinear[skip guard]", "guard shape not recognised", m.loc(f))
        return
    for L in ((), (3,)):
        for C in ((), (4,)):
            for E in ((), ("eq",)):
                try:
                    env = {"block_level_qids": L, "block_change_qids": C, "block_equations": E}
                    env["has_no_qids"] = bool(fin.ev(hq, env))
                    env["has_no_equations"] = bool(fin.ev(he, env))
                    got = bool(fin.ev(skip, env))
                    want = (not L and not C) or not E
                    chk.ob("C05-R7", f"simultaneous._steady._steady_nonlinear[skip levels={bool(L)},changes={bool(C)},equations={bool(E)}]", got == want,
                           f"skip={got}; a block with level unknowns={bool(L)}, change unknowns={bool(C)}, equations={bool(E)} must {'be skipped' if want else 'be solved'}", m.loc(skip))
                except fin.NotFinite as e:
                    chk.undecided("C05-R7", f"simultaneous._steady._steady_nonlinear[skip {bool(L)},{bool(C)},{bool(E)}]", str(e), m.loc(f))


def rule_r10(chk, rid="C05-R10"):
    chk.rule(rid, "model flags passed to steady / solve / simulate override the model's own flags in BOTH directions: "
             "Flags.update_from_kwargs gives, for each of linear / flat / deterministic, the keyword's value when it is given and not "
             "None (an explicit False included) and the model's flag otherwise; Flags.from_kwargs sets exactly the bits whose keyword "
             "(name or is_name) is true - by finite evaluation on every combination of {absent, None, False, True} x {False, True}",
             floor=2, shape_independent=True)
    import itertools
    from .. import fin
    m = chk.repo.mod("irispie.simultaneous._flags")
    f = m.func("Flags.update_from_kwargs")
    g = m.func("Flags.from_kwargs")
    chk.saw(m, "Flags.update_from_kwargs")
    chk.saw(m, "Flags.from_kwargs")
    names = ("linear", "flat", "deterministic")
    bits = {"LINEAR": 1, "FLAT": 2, "DETERMINISTIC": 4}
    consts = fin.module_constants(m)

    class _Enum(fin.FinObj):
        def __getitem__(self, k):
            return getattr(self, k)
    ABSENT = object()
    # from_kwargs
    bad = None
    n = 0
    try:
        for vals in itertools.product((ABSENT, None, False, True), repeat=3):
            for prefix in ("", "is_"):
                kw = {prefix + nm: v for nm, v in zip(names, vals) if v is not ABSENT}
                cls = _Enum(DEFAULT=0, **bits)
                got = fin.run_function(g, {params(g)[0]: cls, g.args.kwarg.arg: kw}, None, consts)
                want = sum(bits[nm.upper()] for nm, v in zip(names, vals) if v is True)
                n += 1
                if got != want:
                    bad = f"from_kwargs({kw}) sets bits {got}, expected {want} (LINEAR=1, FLAT=2, DETERMINISTIC=4)"
                    break
            if bad:
                break
    except (fin.NotFinite, fin.Raised, AttributeError, IndexError) as ex:
        chk.undecided(rid, "simultaneous._flags.Flags.from_kwargs", f"not finitely evaluable: {ex}", m.loc(g))
    else:
        chk.ob(rid, "simultaneous._flags.Flags.from_kwargs", bad is None, bad or f"{n} keyword combinations: exactly the true keywords set their bit", m.loc(g), sure=True)
    # update_from_kwargs
    bad = None
    n = 0
    try:
        for own in itertools.product((False, True), repeat=3):
            for vals in itertools.product((ABSENT, None, False, True), repeat=3):
                kw = {nm: v for nm, v in zip(names, vals) if v is not ABSENT}
                me = fin.FinObj(**{"is_" + nm: o for nm, o in zip(names, own)}, is_nonlinear=not own[0], is_nonflat=not own[1], is_stochastic=not own[2])
                got = {}
                klass = fin.FinObj(from_kwargs=lambda **k: got.update(k) or "flags")
                fin.run_function(f, {params(f)[0]: me, f.args.kwarg.arg: kw}, funcs={"type": lambda o: klass}, env=consts)
                n += 1
                for nm, o, v in zip(names, own, vals):
                    want = o if v in (ABSENT, None) else v
                    have = bool(got.get(nm) or got.get("is_" + nm))
                    if have != want:
                        bad = (f"model flag {nm}={o}, keyword {nm}={'absent' if v is ABSENT else v}: the updated flags have {nm}={have}, expected {want}"
                               + (" - an explicit False does not switch the flag off" if v is False else ""))
                        break
                if bad:
                    break
            if bad:
                break
    except (fin.NotFinite, fin.Raised, AttributeError, IndexError) as ex:
        chk.undecided(rid, "simultaneous._flags.Flags.update_from_kwargs", f"not finitely evaluable: {ex}", m.loc(f))
    else:
        chk.ob(rid, "simultaneous._flags.Flags.update_from_kwargs", bad is None, bad or f"{n} combinations of model flags and keywords: given keywords win (False included), "
               "absent / None keywords inherit", m.loc(f), sure=True)


def rule_r12(chk, rid="C05-R12"):
    chk.rule(rid, "a steady state is reported as found only when the solver says so AND the residual norm is below the tolerance: scipy_root "
             "evaluated finitely on the four combinations of (solver flag, norm below tolerance) - a stationary point of the squared residual "
             "that is not a root must not be stored as a steady state", floor=1, shape_independent=True)
    from .. import fin
    m = chk.repo.mod("irispie.steadiers.solver_dispatcher")
    f = m.func("scipy_root")
    chk.saw(m, "scipy_root")
    bad = None
    try:
        for flag in (False, True):
            for small in (False, True):
                result = fin.FinObj(x="X", fun="FUN", success=flag, status=1 if flag else 0, message="")
                ev_ = fin.FinObj(eval="EVAL", iter_printer=fin.FinObj(print_footer=lambda *a_, **k_: None))
                funcs = {"_sp.optimize.root": lambda *a_, **k_: result, "_sp.linalg.norm": lambda *a_, **k_: (1 if small else 3), "_np.linalg.norm": lambda *a_, **k_: (1 if small else 3)}
                out = fin.run_function(f, dict(zip(params(f), (ev_, "GUESS", {"method": "lm", "tol": 2, "norm_order": 2}))), funcs)
                success = out[1]
                if bool(success) != (flag and small) and bad is None:
                    bad = (f"solver flag {flag}, residual norm {'below' if small else 'above'} the tolerance: success is reported as {bool(success)}, "
                           f"expected {flag and small}")
    except (fin.NotFinite, fin.Raised, TypeError, AttributeError, KeyError, IndexError) as ex:
        chk.undecided(rid, "steadiers.solver_dispatcher.scipy_root[success]", f"not finitely evaluable: {type(ex).__name__}: {ex}", m.loc(f))
        return
    chk.ob(rid, "steadiers.solver_dispatcher.scipy_root[success]", bad is None, bad or "success = solver flag and residual norm below the tolerance (4 combinations)", m.loc(f), sure=True)


def rule_r13(chk, rid="C05-R13"):
    chk.rule(rid, "SteadyPlan.fix / unfix act on the level and, in a non-flat model (a change register exists, whatever is switched on in it), on "
             "the change as well: evaluated finitely on plans with no change register, with one that is all off, and with one partly on",
             floor=2, shape_independent=True)
    from .. import fin
    m = chk.repo.mod("irispie.plans.steady_plans")
    meths = m.methods("SteadyPlan")
    for name, lev, chg in (("fix", "fix_level", "fix_change"), ("unfix", "unfix_level", "unfix_change")):
        f = meths.get(name)
        if f is None:
            raise AnalysisError(f"anchor vanished: SteadyPlan.{name}")
        chk.saw(m, f"SteadyPlan.{name}")
        bad = None
        try:
            for label, reg in (("flat model (no change register)", {}), ("non-flat model, nothing fixed yet", {"x": False, "y": False}), ("non-flat model, y already fixed", {"x": False, "y": True})):
                log = []
                me = fin.FinObj(_fixed_change_register=dict(reg), _fixed_level_register={"x": False, "y": False},
                                any_in_register=lambda nm, *a_, _r=reg: any(_r.values()) if "change" in nm else False,
                                **{lev: lambda *a_, **k_: log.append("level"), chg: lambda *a_, **k_: log.append("change")})
                fin.run_function(f, {params(f)[0]: me, (f.args.vararg.arg if f.args.vararg else "args"): ("x",), (f.args.kwarg.arg if f.args.kwarg else "kwargs"): {}})
                want = ["level"] + (["change"] if reg else [])
                if sorted(log) != sorted(want) and bad is None:
                    bad = f"{label}: {name}('x') acts on {log or 'nothing'}, expected {want}"
        except (fin.NotFinite, fin.Raised, TypeError, AttributeError, KeyError) as ex:
            chk.undecided(rid, f"plans.steady_plans.SteadyPlan.{name}", f"not finitely evaluable: {type(ex).__name__}: {ex}", m.loc(f))
            continue
        chk.ob(rid, f"plans.steady_plans.SteadyPlan.{name}", bad is None, bad or "level always, change whenever the model has a change register", m.loc(f), sure=True)


def run(chk):
    chk.guard(rule_r13, chk)
    chk.guard(rule_r12, chk)
    chk.guard(rule_r10, chk)
    chk.guard(rule_r1, chk)
    chk.guard(rule_r7, chk)
    chk.guard(rule_r2, chk)
    chk.guard(rule_r3, chk)
    chk.guard(c02.rule_r3, chk, rid="C05-R4")
    chk.guard(rule_r5, chk)
    chk.guard(rule_r6, chk)
    from . import c16
    chk.guard(c16.rule_r3, chk, rid="C05-R8")
    chk.guard(c02.rule_r6, chk, rid="C05-R9", sites=(1, 2, 3, 4))
    from .. import unused as _unused
    chk.guard(_unused.apply, chk, "C05-R91")
    from .. import variants as _variants
    chk.guard(_variants.apply_wrappers, chk, "C05-R11", {"simultaneous", "fords", "steadiers", "stacked_time"})
    from .. import args as _args
    chk.guard(_args.apply, chk, "C05-R90", {'incidences', 'simultaneous', 'steadiers'}, 1)
    chk.assumptions = [
        "that converged values satisfy the equations is the solver's numerics: NOT decided",
        "system matrices satisfy A xi_t + B xi_{t-1} + C = 0, F y + G xi + H = 0 (the sign convention of fords.systems.System)",
        "validity of the block ordering beyond the prefetch accumulation order (C05-R8 = C16-R3) is C16; plans beyond name routing are not decided",
    ]

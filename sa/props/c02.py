"""
C02 — Jacobians from algorithmic differentiation equal the true derivatives.

Structural clauses decided (see DESIGN.md §3 C02):
  R1  every differentiation rule of aldi.differentiators.Atom is the formal derivative
      of its own value expression (chain rule), incl. the log-variable factor of Atom.diff
  R2  the function table offered to equations only reaches Atom methods that R1 covers,
      or functions that cannot silently accept an Atom
  R3  plain equator and aldi context are evaluated at the same (array, column) points
  R4  finite-difference fallback is the two-sided quotient with one epsilon
  R5  equation order / row offsets agree between the aldi context and the scatter maps
"""
from __future__ import annotations

import ast

from .. import alg
from ..alg import Undecided, sym, num, add, mul
from ..core import AnalysisError, params, dotted, unparse, norm_stmt, walk_no_nested, strip_docstring, literal
from ..symexec import Interp, Obj, obj, Tup, Opaque, PW, Mask, is_ir

MOD = "irispie.aldi.differentiators"


# ---------------------------------------------------------------------------
# R1
# ---------------------------------------------------------------------------

class AtomInterp(Interp):
    """Interprets Atom methods over abstract atoms Obj('atom', value=IR, diff=IR)."""

    def __init__(self, methods: dict, depth=0):
        super().__init__()
        self.methods = methods
        self.depth = depth

    def mk_atom(self, value, diff):
        return obj("atom", value=value, diff=diff)

    def test(self, node, env):
        # hasattr(X, "_is_atom")
        if isinstance(node, ast.Call) and dotted(node.func) == "hasattr" and len(node.args) == 2:
            if isinstance(node.args[1], ast.Constant) and node.args[1].value == "_is_atom":
                v = self.ev(node.args[0], env)
                return isinstance(v, Obj) and v.kind == "atom"
        # isinstance(x, Real) tests on numeric values: both branches must be right -> fork
        return None

    def call(self, node, env, name):
        # <anything>.no_context(value, diff, logly)
        if isinstance(node.func, ast.Attribute) and node.func.attr == "no_context":
            if len(node.args) < 2:
                raise Undecided("no_context with fewer than 2 positional arguments")
            v, d = self.ev(node.args[0], env), self.ev(node.args[1], env)
            logly = node.args[2] if len(node.args) > 2 else None
            for kw in node.keywords:
                if kw.arg == "logly":
                    logly = kw.value
            if logly is not None and not (isinstance(logly, ast.Constant) and logly.value in (False, None)):
                raise Undecided("rule result flagged logly")
            return self.mk_atom(v, d)
        # numpy identity-like wrappers
        if name and name.split(".")[-1] in ("copy", "array", "asarray", "float64") and node.args:
            return self.ev(node.args[0], env)
        # method call on an abstract atom -> inline
        if isinstance(node.func, ast.Attribute):
            base = self.ev(node.func.value, env)
            if isinstance(base, Obj) and base.kind == "atom":
                return self.inline(node.func.attr, base, [self.ev(a, env) for a in node.args], node)
        return NotImplemented

    def neg(self, v, node, env):
        if isinstance(v, Obj) and v.kind == "atom":
            return self.inline("__neg__", v, [], node)
        return super().neg(v, node, env)

    def inline(self, mname, recv, args, node):
        if self.depth > 4:
            raise Undecided("inlining too deep")
        f = self.methods.get(mname)
        if f is None:
            raise Undecided(f"call to unknown Atom method {mname}")
        ps = params(f)
        env = {ps[0]: recv}
        defaults = f.args.defaults
        nreq = len(ps) - 1 - len(defaults)
        for i, p in enumerate(ps[1:]):
            if i < len(args):
                env[p] = args[i]
            elif i >= nreq:
                env[p] = self.ev(defaults[i - nreq], {})
            else:
                raise Undecided(f"missing argument {p} in call to {mname}")
        sub = AtomInterp(self.methods, self.depth + 1)
        outs = sub.run(f.body, env)
        outs = [r for _, r in outs if r is not None]
        uniq = []
        for r in outs:
            if r not in uniq:
                uniq.append(r)
        if len(uniq) != 1:
            raise Undecided(f"inlined {mname} has {len(uniq)} distinct return values")
        return uniq[0]


def _atom_methods(m):
    """Methods of Atom including aliases `__rmul__ = __mul__`."""
    c = m.cls("Atom")
    meths = {}
    aliases = {}
    for st in c.body:
        if isinstance(st, ast.FunctionDef):
            meths[st.name] = st
        elif isinstance(st, ast.Assign) and len(st.targets) == 1 and isinstance(st.targets[0], ast.Name) \
                and isinstance(st.value, ast.Name):
            aliases[st.targets[0].id] = st.value.id
    for a, b in aliases.items():
        if b in meths:
            meths[a] = meths[b]
    return c, meths, aliases


def _is_rule_method(f: ast.FunctionDef) -> bool:
    """A differentiation rule = non-classmethod, non-property whose returns construct atoms or delegate to rules."""
    for d in f.decorator_list:
        if dotted(d) in ("classmethod", "staticmethod", "property"):
            return False
    if f.name in ("__init__", "__pos__"):
        return False
    return any(isinstance(n, ast.Return) and n.value is not None for n in walk_no_nested(f))


def _check_pair(chk, construct, loc, value, diffx, wrt, region=""):
    """diffx == sum_i d value/d s_i * ds_i"""
    try:
        want = alg.ZERO
        for s, ds in wrt:
            want = add(want, mul(alg.diff(value, s), ds))
        ok = alg.equal(diffx, want)
        detail = (f"value={alg.show_rat(alg.nf(value))}; diff in code={alg.show_rat(alg.nf(diffx))}; "
                  f"chain rule gives {alg.show_rat(alg.nf(want))}")
        chk.ob("C02-R1", construct + region, ok, detail, loc,
               facts={"value": alg.show(value), "diff": alg.show(diffx), "expected": alg.show(want)})
    except Undecided as e:
        chk.undecided("C02-R1", construct + region, f"cannot normalise: {e}", loc)


def _check_pw_value(chk, construct, loc, sem, V):
    """maximum/minimum value per region of the mask lhs<rhs / lhs>rhs"""
    head, a, b = sem
    try:
        dlt = alg.nf(alg.sub(V.lhs, V.rhs))
        if dlt.equals(alg.nf(alg.sub(a, b))):
            order = {"lt": (a, b), "gt": (b, a)}     # (smaller, larger)
        elif dlt.equals(alg.nf(alg.sub(b, a))):
            order = {"lt": (b, a), "gt": (a, b)}
        else:
            chk.undecided("C02-R1", construct + "[value]", "mask does not compare the two operands", loc)
            return
        for reg in ("lt", "gt"):
            small, large = order[reg]
            want = large if head == "maximum" else small
            got = getattr(V, reg)
            chk.ob("C02-R1", construct + f"[value, region {reg}]", alg.equal(got, want),
                   f"value in code={alg.show_rat(alg.nf(got))}; {head} semantics={alg.show_rat(alg.nf(want))}", loc)
    except Undecided as e:
        chk.undecided("C02-R1", construct + "[value]", str(e), loc)


def rule_r1(chk):
    m = chk.repo.mod(MOD)
    chk.rule("C02-R1",
             "for every Atom rule method and operand mode, new_diff == sum over operands of "
             "(formal derivative of the method's own new_value) * operand diff; Atom.diff applies "
             "the log-variable chain factor; maximum/minimum checked per region", floor=22, shape_independent=True)
    c, meths, aliases = _atom_methods(m)
    chk.saw(m, "Atom")
    v, d, ov, od, cc = (sym(x) for x in ("v", "d", "ov", "od", "c"))
    SELF = obj("atom", value=v, diff=d)
    OTHER_ATOM = obj("atom", value=ov, diff=od)

    # -- the diff property: _diff if not logly else _diff*value  (d/dlog x = x d/dx)
    if "diff" not in meths or "value" not in meths:
        raise AnalysisError("anchor vanished: Atom.diff / Atom.value properties")
    dprop = meths["diff"]
    rets = [n for n in walk_no_nested(dprop) if isinstance(n, ast.Return)]
    ok = None
    detail = "shape of Atom.diff not recognised (expected a two-way choice on self._logly)"
    cond = None
    body_ = strip_docstring(dprop.body)
    if len(rets) == 1 and isinstance(rets[0].value, ast.IfExp):
        cond = (rets[0].value.test, rets[0].value.body, rets[0].value.orelse)
    elif len(rets) == 2 and len(body_) in (1, 2) and isinstance(body_[0], ast.If) and len(body_[0].body) == 1 and isinstance(body_[0].body[0], ast.Return):
        other = body_[0].orelse[0] if body_[0].orelse else (body_[1] if len(body_) == 2 else None)
        if isinstance(other, ast.Return):
            cond = (body_[0].test, body_[0].body[0].value, other.value)
    if cond is not None:
        t, e_body, e_orelse = cond
        negated = isinstance(t, ast.UnaryOp) and isinstance(t.op, ast.Not)
        tt = t.operand if negated else t
        plain, logged = (e_body, e_orelse) if negated else (e_orelse, e_body)
        if dotted(tt) == "self._logly":
            ok = False
            conv = alg.ToIR(attr=lambda s: {"self._diff": sym("rawd"), "self.value": v, "self._value": v}.get(s))
            try:
                ok = alg.equal(conv(plain), sym("rawd")) and alg.equal(conv(logged), mul(sym("rawd"), v))
                detail = f"plain={unparse(plain)}; logly={unparse(logged)} (chain rule d/dlog x = x*d/dx)"
            except Undecided as e:
                ok, detail = None, str(e)
    chk.ob("C02-R1", "Atom.diff[log-variable factor]", ok, detail, m.loc(dprop))
    chk.saw(m, "Atom.diff")

    # semantics a rule's VALUE must have: Python data model for dunders, the numpy function the
    # function table binds for named methods
    tabmod = chk.repo.mod("irispie.aldi.adaptations")
    tab = tabmod.assign("_ELEMENTWISE_FUNCTIONS")
    table_heads = {}
    if isinstance(tab, ast.Dict):
        for k, val in zip(tab.keys, tab.values):
            table_heads[literal(k)] = alg.func_head(dotted(val) or "")
    def value_semantics(name, o):
        ops = {"__neg__": alg.neg(v), "__add__": add(v, o), "__radd__": add(o, v), "__sub__": alg.sub(v, o),
               "__rsub__": alg.sub(o, v), "__mul__": mul(v, o), "__rmul__": mul(o, v), "__truediv__": alg.div(v, o),
               "__rtruediv__": alg.div(o, v), "__pow__": alg.pow_(v, o), "__rpow__": alg.pow_(o, v)} if o is not None else \
              {"__neg__": alg.neg(v)}
        if name in ops:
            return ops[name]
        head = table_heads.get(name)
        if head in ("log", "exp", "sqrt", "expit"):
            return alg.app(head, v)
        if head in ("maximum", "minimum"):
            return (head, v, o)
        return None

    n_rules = 0
    from .. import renames as _rn
    _tab = (_rn.table() or {}).get("irispie.aldi.differentiators")
    _ref_atom_methods = {k.split(".", 1)[1] for k in _tab if k.startswith("Atom.")} if _tab else None
    for name, f in sorted(meths.items()):
        if not _is_rule_method(f):
            continue
        if name in ("value", "diff"):
            continue
        real = aliases.get(name, name)
        ps = params(f)
        helper = name.startswith("_") and not name.startswith("__")
        if helper and _ref_atom_methods is not None and name not in _ref_atom_methods:
            # a private helper the rules were not written against (extracted since): its contract (what its parameters stand for)
            # is not known, so it is not an obligation of its own - it is interpreted where the rule methods call it
            chk.note(f"Atom.{name}: private helper not in the reference tree; interpreted through its callers only")
            continue
        if not helper and not name.startswith("__") and name not in table_heads:
            # unreachable from model equations: the function table is the only route to a named method
            chk.note(f"Atom.{name}: rule method not reachable from the function table; not an obligation (dead code)")
            continue
        reflected = name.startswith("__r") and name.endswith("__") and ("__" + name[3:]) in meths
        modes = [("", None)]
        if len(ps) >= 2:
            modes = [("[other=Atom]", OTHER_ATOM), ("[other=number]", cc)]
            if helper or reflected:
                # helpers receive plain values; a reflected dunder only runs when the left operand is not an
                # Atom (Atom's forward dunders never return NotImplemented)
                modes = [("[other=number]", cc)]
        for tag, other in modes:
            construct = f"Atom.{name}{tag}"
            loc = m.loc(f)
            chk.saw(m, f"Atom.{real}")
            env = {ps[0]: SELF}
            if other is not None:
                env[ps[1]] = other
            it = AtomInterp(meths)
            try:
                outs = [r for _, r in it.run(f.body, env) if r is not None]
            except Undecided as e:
                chk.undecided("C02-R1", construct, f"cannot interpret: {e}", loc)
                continue
            if not outs:
                chk.undecided("C02-R1", construct, "no return path interpreted", loc)
                continue
            n_rules += 1
            uniq = []
            for r in outs:
                if r not in uniq:
                    uniq.append(r)
            for k, r in enumerate(uniq):
                path = f"#path{k}" if len(uniq) > 1 else ""
                if helper and isinstance(r, Tup) and len(r.items) == 2:
                    r = obj("atom", value=r.items[0], diff=r.items[1])
                if not (isinstance(r, Obj) and r.kind == "atom"):
                    chk.undecided("C02-R1", construct + path, f"return value is not an atom: {r!r}"[:200], loc)
                    continue
                val, dif = r.get("value"), r.get("diff")
                wrt = [("v", d)]
                if isinstance(other, Obj):
                    wrt.append(("ov", od))
                o_val = ov if isinstance(other, Obj) else (cc if other is not None else None)
                sem = value_semantics(name, o_val)
                if isinstance(val, PW) or isinstance(dif, PW):
                    V = val if isinstance(val, PW) else PW(val, val, val)
                    D = dif if isinstance(dif, PW) else PW(dif, dif, dif)
                    for reg in ("lt", "gt"):
                        _check_pair(chk, construct + path, loc, getattr(V, reg), getattr(D, reg), wrt, f"[region {reg}]")
                    if sem is not None and isinstance(sem, tuple) and sem[0] in ("maximum", "minimum") and V.lhs is not None:
                        _check_pw_value(chk, construct + path, loc, sem, V)
                    continue
                if not (is_ir(val) and is_ir(dif)):
                    chk.undecided("C02-R1", construct + path, "value/diff not numeric", loc)
                    continue
                _check_pair(chk, construct + path, loc, val, dif, wrt)
                if sem is not None and not (isinstance(sem, tuple) and sem[0] in ("maximum", "minimum")):
                    try:
                        okv = alg.equal(val, sem)
                        chk.ob("C02-R1", construct + path + "[value]", okv,
                               f"value in code={alg.show_rat(alg.nf(val))}; operator/function semantics={alg.show_rat(alg.nf(sem))}", loc)
                    except Undecided as e:
                        chk.undecided("C02-R1", construct + path + "[value]", str(e), loc)
    chk.extra["c02_rule_methods"] = n_rules


# ---------------------------------------------------------------------------
# R2
# ---------------------------------------------------------------------------

_SILENT_DUNDERS = ("__abs__", "__lt__", "__gt__", "__le__", "__ge__", "__float__", "__array__",
                   "__array_ufunc__", "__getattr__", "__int__", "__index__", "__bool__")


def rule_r2(chk):
    m = chk.repo.mod("irispie.aldi.adaptations")
    d = chk.repo.mod(MOD)
    chk.rule("C02-R2",
             "every name in adaptations._ELEMENTWISE_FUNCTIONS either dispatches to an Atom rule method "
             "(covered by R1) or cannot silently accept an Atom (Atom defines none of the numeric-protocol "
             "dunders a numpy fallback would use); the generated wrapper dispatches on hasattr(x, name)", floor=6)
    tab = m.assign("_ELEMENTWISE_FUNCTIONS")
    from .. import fin as _fin3
    val = _fin3.module_table(m, "_ELEMENTWISE_FUNCTIONS")
    if isinstance(tab, ast.Dict):
        names = [literal(k) for k in tab.keys]
    elif isinstance(val, dict) and val:
        names = list(val)
    elif isinstance(tab, ast.Call) and dotted(tab.func) == "dict" and tab.keywords and not tab.args:
        names = [k.arg for k in tab.keywords]
    else:
        raise AnalysisError("_ELEMENTWISE_FUNCTIONS is not a table built from constants")
    _, meths, _ = _atom_methods(d)
    chk.saw(m, "_ELEMENTWISE_FUNCTIONS")
    silent = [x for x in _SILENT_DUNDERS if x in meths]
    for n in names:
        if n in meths and _is_rule_method(meths[n]):
            chk.ok("C02-R2", f"adaptations.{n}", f"dispatches to Atom.{n} (rule checked by R1)", m.loc(tab))
        elif n in meths:
            chk.bad("C02-R2", f"adaptations.{n}", f"Atom.{n} exists but is not a differentiation rule", m.loc(tab))
        elif silent:
            chk.bad("C02-R2", f"adaptations.{n}",
                    f"no Atom.{n} rule and Atom defines {silent}: numpy fallback could compute a value without a derivative",
                    m.loc(tab))
        else:
            chk.ok("C02-R2", f"adaptations.{n}", "no Atom rule; Atom defines no numeric-protocol dunder, so the numpy "
                   "fallback raises (function rejected, not mis-differentiated)", m.loc(tab))
    # the exec template: the dispatch must test hasattr(x, '<n>') and call x.<n>
    tmpl = None
    for st in m.tree.body:
        if isinstance(st, ast.For):
            for n in ast.walk(st):
                if isinstance(n, ast.Call) and dotted(n.func) == "exec":
                    tmpl = n
    if tmpl is None:
        raise AnalysisError("anchor vanished: exec-generated wrappers in adaptations")
    from ..tpl import expand_exec_loop
    gen = expand_exec_loop(m, tmpl, {"n": names})
    for n, fn in gen:
        ok = False
        body = strip_docstring(fn.body)
        if len(body) == 1 and isinstance(body[0], ast.If):
            t = body[0].test
            if isinstance(t, ast.Call) and dotted(t.func) == "hasattr" and isinstance(t.args[1], ast.Constant) \
                    and t.args[1].value == fn.name and isinstance(t.args[0], ast.Name) and t.args[0].id == params(fn)[0]:
                r = body[0].body[0]
                if isinstance(r, ast.Return) and isinstance(r.value, ast.Call) and dotted(r.value.func) == f"{params(fn)[0]}.{fn.name}":
                    ok = True
        chk.ob("C02-R2", f"adaptations.{fn.name}[wrapper]", ok,
               "generated wrapper dispatches on hasattr(x, name) to x.name" if ok else
               f"generated wrapper for {fn.name} does not dispatch to the Atom method of the same name", m.loc(tmpl))
    dead = sorted(k for k, f in meths.items() if _is_rule_method(f) and not k.startswith("_") and k not in names)
    for k in dead:
        chk.note(f"Atom.{k} is a rule method that no function-table key reaches (dead rule, not a violation)")


# ---------------------------------------------------------------------------
# R3 evaluation-point agreement
# ---------------------------------------------------------------------------

def _calls_in(f, pred):
    out = []
    for n in ast.walk(f):
        if isinstance(n, ast.Call) and pred(n):
            out.append(n)
    return out


def _local_env(f):
    """name -> expr for single-assignment locals (alias resolution)."""
    env = {}
    counts = {}
    for n in walk_no_nested(f):
        if isinstance(n, ast.Assign) and len(n.targets) == 1 and isinstance(n.targets[0], ast.Name):
            counts[n.targets[0].id] = counts.get(n.targets[0].id, 0) + 1
            env[n.targets[0].id] = n.value
    return {k: v for k, v in env.items() if counts[k] == 1}


def _aff_key(node, env, depth=0):
    """Normal form of an integer-affine expression with single-assignment locals inlined."""
    def attr(s):
        return None
    conv = alg.ToIR()
    def inline(n):
        if isinstance(n, ast.Name) and n.id in env and depth < 5:
            return inline(env[n.id])
        return n
    class T(ast.NodeTransformer):
        def visit_Name(self, n):
            if n.id in env:
                r = env[n.id]
                if isinstance(r, (ast.Name, ast.Attribute, ast.BinOp, ast.Constant, ast.UnaryOp)):
                    return self.visit(r)
            return n
    import copy
    node2 = T().visit(copy.deepcopy(node))
    try:
        return alg.nf(conv(node2)).key()
    except Undecided:
        return ("raw", unparse(node2))


def rule_r3(chk, rid="C02-R3"):
    chk.rule(rid,
             "for every function/Jacobian evaluator pair, the plain equator and the aldi context are evaluated at "
             "the same set of (data array, column) points and after the same state update", floor=8)
    # ---- steady: SteadyEvaluator.eval / eval_func / eval_jacob
    ev = chk.repo.mod("irispie.steadiers.evaluators")
    for q in ("eval", "eval_func", "eval_jacob"):
        f = ev.func(f"SteadyEvaluator.{q}")
        chk.saw(ev, f"SteadyEvaluator.{q}")
        body = strip_docstring(f.body)
        first = body[0]
        upd = isinstance(first, ast.Expr) and isinstance(first.value, ast.Call) and dotted(first.value.func) == "self._update_steady_array" \
            and len(first.value.args) == 1 and isinstance(first.value.args[0], ast.Name) and first.value.args[0].id == params(f)[1]
        chk.ob(rid, f"steadiers.evaluators.SteadyEvaluator.{q}[update first]", bool(upd),
               "first effect is self._update_steady_array(<guess parameter>)" if upd else
               "evaluator does not refresh the steady array from the guess before evaluating", ev.loc(f))
        eq = _calls_in(f, lambda n: dotted(n.func) == "self._equator.eval")
        jc = _calls_in(f, lambda n: dotted(n.func) == "self._jacobian.eval")
        argsets = {tuple(unparse(a) for a in c.args) for c in eq + jc}
        if q == "eval" and not (eq and jc):
            raise AnalysisError("anchor vanished: SteadyEvaluator.eval no longer calls both equator and jacobian")
        ok = len(argsets) == 1
        chk.ob(rid, f"steadiers.evaluators.SteadyEvaluator.{q}[same point]", ok,
               f"equator/jacobian called with {sorted(argsets)}", ev.loc(f))
    # ---- steady: class pairs
    eqm = chk.repo.mod("irispie.steadiers._equators")
    jcm = chk.repo.mod("irispie.steadiers._jacobian")
    pairs = []
    for cname in ("FlatSteadyEvaluator", "NonflatSteadyEvaluator"):
        c = ev.cls(cname)
        ef = ev.class_attr(cname, "_equator_factory")
        jf = ev.class_attr(cname, "_jacobian_factory")
        pairs.append((cname, dotted(ef).split(".")[-1], dotted(jf).split(".")[-1]))
    for cname, eqc, jcc in pairs:
        fe = eqm.func(f"{eqc}.eval")
        fj = jcm.func(f"{jcc}.eval")
        chk.saw(eqm, f"{eqc}.eval"); chk.saw(jcm, f"{jcc}.eval")
        def points(f, callee_suffixes, class_consts):
            env = _local_env(f)
            pts = set()
            ps = params(f)
            for c in _calls_in(f, lambda n: dotted(n.func) and any(dotted(n.func).endswith(s) for s in callee_suffixes)):
                if len(c.args) < 2:
                    pts.add(("?", unparse(c)))
                    continue
                arr = unparse(c.args[0])
                arr = f"param{ps.index(arr)}" if arr in ps else arr
                # canonicalise parameter names by position
                import copy
                class P(ast.NodeTransformer):
                    def visit_Name(self, n):
                        if n.id in ps:
                            return ast.copy_location(ast.Name(id=f"param{ps.index(n.id)}", ctx=ast.Load()), n)
                        return n
                a1 = P().visit(copy.deepcopy(c.args[1]))
                env2 = {k: P().visit(copy.deepcopy(v)) for k, v in env.items()}
                pts.add((arr, _aff_key(a1, env2)))
            return pts
        pe = points(fe, ("._equator.eval",), None)
        pj = points(fj, ("._aldi_context.eval_diff_to_array", "._aldi_context.eval_to_arrays", "._aldi_context.eval"), None)
        ok = pe == pj and len(pe) > 0
        def showpts(p):
            return sorted((a, alg.show_key(k) if k and k[0] in ("P", "R") else str(k)) for a, k in p)
        chk.ob(rid, f"steadiers.{eqc}.eval~{jcc}.eval[evaluation points]", ok,
               f"equator evaluated at {showpts(pe)}; aldi context evaluated at {showpts(pj)}", jcm.loc(fj),
               facts={"equator_points": showpts(pe), "jacobian_points": showpts(pj)})
    # ---- stacked time
    st = chk.repo.mod("irispie.stacked_time._evaluators")
    ce = st.func("create_evaluator")
    chk.saw(st, "create_evaluator")
    eqc = _calls_in(ce, lambda n: dotted(n.func) == "Equator")
    jcc = _calls_in(ce, lambda n: dotted(n.func) == "Jacobian")
    if len(eqc) != 1 or len(jcc) != 1:
        raise AnalysisError("anchor vanished: create_evaluator builds exactly one Equator and one Jacobian")
    ecols = [unparse(k.value) for k in eqc[0].keywords if k.arg == "columns"]
    jcols = [unparse(k.value) for k in jcc[0].keywords if k.arg == "columns_to_eval"]
    chk.ob(rid, "stacked_time._evaluators.create_evaluator[columns]", bool(ecols) and ecols == jcols,
           f"Equator(columns={ecols}) vs Jacobian(columns_to_eval={jcols})", st.loc(ce))
    eeq = unparse(eqc[0].args[0]) if eqc[0].args else None
    jeq = unparse(jcc[0].args[0]) if jcc[0].args else None
    chk.ob(rid, "stacked_time._evaluators.create_evaluator[equations]", eeq is not None and eeq == jeq,
           f"Equator({eeq}, …) vs Jacobian({jeq}, …)", st.loc(ce))
    for q in ("eval_func_jacob", "eval_func", "eval_jacob"):
        f = st.func(f"create_evaluator.{q}")
        chk.saw(st, f"create_evaluator.{q}")
        eq = _calls_in(f, lambda n: dotted(n.func) == "equator.eval")
        jc = _calls_in(f, lambda n: dotted(n.func) == "jacobian.eval")
        argsets = {tuple(unparse(a) for a in c.args) for c in eq + jc}
        chk.ob(rid, f"stacked_time._evaluators.create_evaluator.{q}[same point]", len(argsets) == 1,
               f"equator/jacobian called with {sorted(argsets)}", st.loc(f))
    # ---- stacked-time atom factory: data column = token.shift + columns_to_eval, seed = 1
    jm = chk.repo.mod("irispie.stacked_time._jacobians")
    f = jm.func("Jacobian._atom_factory.create_data_index_for_token")
    chk.saw(jm, "Jacobian._atom_factory")
    rets = [n for n in ast.walk(f) if isinstance(n, ast.Return)]
    ok = False
    if len(rets) == 1 and isinstance(rets[0].value, ast.Tuple) and len(rets[0].value.elts) == 2:
        a, b = rets[0].value.elts
        try:
            ok = unparse(a) == "token.qid" and alg.equal(alg.ToIR()(b), add(sym("token.shift"), sym("columns_to_eval")))
        except Undecided:
            ok = None
    chk.ob(rid, "stacked_time._jacobians.Jacobian._atom_factory[data index]", ok,
           "atom reads (qid, shift + columns_to_eval), the cells PlainEquator's x[qid][t+shift] reads", jm.loc(f))


# ---------------------------------------------------------------------------
# R4 finite differences
# ---------------------------------------------------------------------------

def rule_r4(chk):
    m = chk.repo.mod("irispie.aldi.finite_differentiators")
    chk.rule("C02-R4",
             "finite-difference fallback: two-sided quotient (f(x+e)-f(x-e))/(2e) with one epsilon, "
             "epsilon = max(|x|,1) * positive constant, total derivative sums partial_k*diff_k over all k", floor=4)
    f = m.func("_partial_two_sided_derivative")
    chk.saw(m, "_partial_two_sided_derivative")
    env = _local_env(f)
    rets = [n for n in walk_no_nested(f) if isinstance(n, ast.Return)]
    ok, detail = None, "shape not recognised"
    if len(rets) == 1:
        # model func(*X) as app('f', <X>) ; _plus_epsilon(vals, k, E) as vals + E
        def call(node, conv):
            n = dotted(node.func)
            if n == "func" and len(node.args) == 1 and isinstance(node.args[0], ast.Starred):
                return alg.app("f", conv(node.args[0].value))
            if n == "_plus_epsilon" and len(node.args) == 3:
                return add(sym("x"), conv(node.args[2]))
            if n == "_get_epsilon":
                return sym("eps")
            return None
        class Conv(alg.ToIR):
            def conv(self, node):
                if isinstance(node, ast.Name) and node.id in env:
                    return self.conv(env[node.id])
                return super().conv(node)
        try:
            got = Conv(call=call)(rets[0].value)
            want = alg.div(alg.sub(alg.app("f", add(sym("x"), sym("eps"))), alg.app("f", alg.sub(sym("x"), sym("eps")))),
                           mul(num(2), sym("eps")))
            ok = alg.equal(got, want)
            detail = f"returns {alg.show_rat(alg.nf(got))}"
        except Undecided as e:
            ok, detail = None, str(e)
    chk.ob("C02-R4", "finite_differentiators._partial_two_sided_derivative", ok, detail, m.loc(f))
    # _plus_epsilon: copies and adds epsilon to k-th
    f = m.func("_plus_epsilon")
    chk.saw(m, "_plus_epsilon")
    body = strip_docstring(f.body)
    ok = (len(body) == 3 and isinstance(body[0], ast.Assign) and call_is(body[0].value, ("co_.deepcopy", "copy.deepcopy", "_cp.deepcopy"))
          and isinstance(body[1], ast.AugAssign) and isinstance(body[1].op, ast.Add)
          and unparse(body[1].value) == params(f)[2]
          and isinstance(body[1].target, ast.Subscript) and unparse(body[1].target.slice) == params(f)[1]
          and isinstance(body[2], ast.Return) and unparse(body[2].value) == unparse(body[0].targets[0]) == unparse(body[1].target.value))
    chk.ob("C02-R4", "finite_differentiators._plus_epsilon", ok,
           "deep-copies the argument list and adds epsilon to the k-th entry only" if ok else "unexpected body", m.loc(f))
    # _get_epsilon
    f = m.func("_get_epsilon")
    chk.saw(m, "_get_epsilon")
    env = _local_env(f)
    rets = [n for n in walk_no_nested(f) if isinstance(n, ast.Return)]
    ok, detail = None, "shape not recognised"
    step = m.assign("_RELATIVE_FINITE_DIFF_STEP")
    try:
        stepv = literal(step)
        class Conv2(alg.ToIR):
            def conv(self, node):
                if isinstance(node, ast.Name) and node.id in env:
                    return self.conv(env[node.id])
                return super().conv(node)
        got = Conv2()(rets[0].value)
        want = mul(alg.app("maximum", alg.app("abs", sym(params(f)[0])), num(1)), sym("_RELATIVE_FINITE_DIFF_STEP"))
        ok = alg.equal(got, want) and 0 < stepv < 1e-2
        detail = f"epsilon = {alg.show_rat(alg.nf(got))}, step constant {stepv}"
    except (Undecided, AnalysisError, IndexError) as e:
        ok, detail = None, str(e)
    chk.ob("C02-R4", "finite_differentiators._get_epsilon", ok, detail, m.loc(f))
    # total derivative: sum over range(len(args)); skip only non-atoms
    f = m.func("_calculate_finite_derivatives")
    chk.saw(m, "_calculate_finite_derivatives")
    from .. import fin as _fin2

    class _Sum(_fin2.FinObj):
        def __init__(self, ks=()):
            super().__init__(ks=tuple(ks))
        def __add__(self, o):
            return _Sum(self.ks + o.ks) if isinstance(o, _Sum) else self if o == 0 else NotImplemented
        __radd__ = __add__
    bad, n_ev = None, 0
    try:
        for nargs in (0, 1, 2, 4):
            seen_args = []
            funcs_ = {"_collect_arg_values": lambda *a_: ("VALUES", len(a_)), "_collect_arg_diffs": lambda *a_: ("DIFFS", len(a_)),
                      "_partial_times_inner": lambda fn, k_, v_, d_: seen_args.append((fn, v_, d_)) or _Sum([k_]),
                      "ad_.Atom.no_context": lambda v_, d_, *r_: ("atom", v_, d_) + r_, "func": lambda *v_: ("f",) + v_}
            out = _fin2.run_function(f, {params(f)[0]: funcs_["func"], (f.args.vararg.arg if f.args.vararg else "args"): tuple(f"a{i}" for i in range(nargs))}, funcs_)
            n_ev += 1
            ks = sorted(out[2].ks) if isinstance(out[2], _Sum) else ([] if out[2] == 0 else None)
            if ks != list(range(nargs)) or any(a_[1:] != (("VALUES", nargs), ("DIFFS", nargs)) for a_ in seen_args):
                bad = f"with {nargs} arguments the total derivative sums the partial terms of positions {ks} (each with the collected values and inner derivatives); expected every position 0..{nargs - 1} once"
                break
    except (_fin2.NotFinite, _fin2.Raised, TypeError, IndexError, AttributeError) as ex:
        chk.undecided("C02-R4", "finite_differentiators._calculate_finite_derivatives[sum over all args]", f"not finitely evaluable: {type(ex).__name__}: {ex}", m.loc(f))
    else:
        chk.ob("C02-R4", "finite_differentiators._calculate_finite_derivatives[sum over all args]", bad is None,
               bad or f"new_diff = sum of _partial_times_inner over every argument position ({n_ev} arities)", m.loc(f), sure=True)
    f = m.func("_partial_times_inner")
    chk.saw(m, "_partial_times_inner")
    rets = [n for n in walk_no_nested(f) if isinstance(n, ast.Return)]
    ok = False
    if len(rets) == 1 and isinstance(rets[0].value, ast.IfExp):
        ie = rets[0].value
        ok = (unparse(ie.test) == "arg_diffs[k] is not None" and isinstance(ie.body, ast.BinOp) and isinstance(ie.body.op, ast.Mult)
              and {unparse(ie.body.left).split("(")[0], unparse(ie.body.right).split("(")[0]} == {"_partial_two_sided_derivative", "arg_diffs[k]"}
              and isinstance(ie.orelse, ast.Constant) and ie.orelse.value == 0)
    chk.ob("C02-R4", "finite_differentiators._partial_times_inner", ok,
           "partial_k * diff_k, and 0 exactly when the k-th argument is not an atom" if ok else "unexpected form", m.loc(f))


def call_is(node, names):
    return isinstance(node, ast.Call) and dotted(node.func) in names


# ---------------------------------------------------------------------------
# R5 scatter order
# ---------------------------------------------------------------------------

def rule_r5(chk):
    chk.rule("C02-R5",
             "the equation order given to the aldi Context equals the order used for row offsets; offsets are an "
             "exclusive prefix sum of len(wrt[eid]); raw maps enumerate rhs rows from the offset; System scatters "
             "matrix X through map X from the diff array; steady non-flat Jacobian combines (A,B)/(A,B+kA) from seeds (1, shift)",
             floor=14)
    dm = chk.repo.mod("irispie.fords.descriptors")
    f = dm.func("Descriptor.__init__")
    chk.saw(dm, "Descriptor.__init__")
    order_ctx = None
    for n in ast.walk(f):
        if isinstance(n, ast.Call) and dotted(n.func) == "_custom_order_equations_by_eids" and len(n.args) == 2:
            order_ctx = n.args[1]
    g = dm.func("SystemMap.__init__")
    chk.saw(dm, "SystemMap.__init__")
    env = _local_env(g)
    order_map = None
    for n in ast.walk(g):
        if isinstance(n, ast.Call) and dotted(n.func) == "_maps.create_eid_to_rhs_offset" and n.args:
            a = n.args[0]
            order_map = env.get(a.id, a) if isinstance(a, ast.Name) else a
    if order_ctx is None or order_map is None:
        raise AnalysisError("anchor vanished: equation order expressions in Descriptor/SystemMap")
    def canon(e):
        return unparse(e).replace("self.system_vectors.", "SV.").replace("system_vectors.", "SV.")
    ok = canon(order_ctx) == canon(order_map)
    chk.ob("C02-R5", "fords.descriptors[aldi order == offset order]", ok,
           f"Context order: {canon(order_ctx)}; offset order: {canon(order_map)}", dm.loc(g))
    # the Context also receives the same eid_to_wrt_tokens that offsets are computed from
    ctx_calls = _calls_in(f, lambda n: dotted(n.func) == "Context")
    kw = {k.arg: canon(k.value) for c in ctx_calls for k in c.keywords}
    off_calls = _calls_in(g, lambda n: dotted(n.func) == "_maps.create_eid_to_rhs_offset")
    ok = bool(ctx_calls and off_calls) and kw.get("eid_to_wrts") == canon(off_calls[0].args[1])
    chk.ob("C02-R5", "fords.descriptors[same wrt table]", ok,
           f"Context(eid_to_wrts={kw.get('eid_to_wrts')}) vs create_eid_to_rhs_offset(…, {canon(off_calls[0].args[1]) if off_calls else None})", dm.loc(g))
    # _custom_order_equations_by_eids preserves the eids order
    h = dm.func("_custom_order_equations_by_eids")
    chk.saw(dm, "_custom_order_equations_by_eids")
    rets = [n for n in walk_no_nested(h) if isinstance(n, ast.Return)]
    ok = False
    if len(rets) == 1:
        gens = [n for n in ast.walk(rets[0]) if isinstance(n, (ast.GeneratorExp, ast.ListComp))]
        ok = len(gens) == 1 and unparse(gens[0].generators[0].iter) == params(h)[1] and not gens[0].generators[0].ifs
    chk.ob("C02-R5", "fords.descriptors._custom_order_equations_by_eids", ok,
           "iterates eids in the given order" if ok else "does not iterate the eids argument in order", dm.loc(h))
    # each ArrayMap.static in SystemMap: rows from transition_eids <-> A,B,D ; measurement_eids <-> F,G,J ; columns per letter
    want = {
        "A": ("transition_eids", "transition_variables"),
        "B": ("transition_eids", "lagged_transition_variables"),
        "D": ("transition_eids", "transition_shocks"),
        "F": ("measurement_eids", "measurement_variables"),
        "G": ("measurement_eids", "transition_variables"),
        "J": ("measurement_eids", "measurement_shocks"),
    }
    seen = {}
    for n in ast.walk(g):
        if isinstance(n, ast.Assign) and len(n.targets) == 1 and dotted(n.targets[0]) and dotted(n.targets[0]).startswith("self.") \
                and isinstance(n.value, ast.Call) and dotted(n.value.func) == "_maps.ArrayMap.static":
            letter = dotted(n.targets[0])[5:]
            a = n.value.args
            seen[letter] = (canon(a[0]).replace("SV.", ""), canon(a[2]).replace("SV.", ""), canon(a[1]), canon(a[3]), n)
    for letter, (rows, cols) in want.items():
        if letter not in seen:
            raise AnalysisError(f"anchor vanished: SystemMap.{letter}")
        r, c, wrt, off, node = seen[letter]
        if letter == "B":
            cols = c            # what the columns of B are is decided by evaluation (B[columns] below), not by the name of a local
        ok = (r, c) == (rows, cols) and wrt == "SV.eid_to_wrt_tokens" and off == "eid_to_rhs_offset"
        chk.ob("C02-R5", f"fords.descriptors.SystemMap.{letter}", ok,
               f"rows={r} columns={c} wrt={wrt} offsets={off}; shape_{letter} is (len({rows}), len({cols.replace('lagged_', '')}))", dm.loc(node))
    # what the columns of B are, by finite evaluation of the statements that define them, on token vectors with one-period and
    # two-period lags, leads and static variables: column j of B is x_j lagged once when that token is not itself an element of the
    # vector (then A has the column), and no wrt token can land in both A and B
    from .. import fin as _fin

    class _Tok(_fin.FinObj):
        def __init__(self, qid, shift):
            super().__init__(qid=qid, shift=shift)
        def shifted(self, by):
            return _Tok(self.qid, self.shift + by)
        def __eq__(self, o):
            return isinstance(o, _Tok) and (self.qid, self.shift) == (o.qid, o.shift)
        def __hash__(self):
            return hash((self.qid, self.shift))
        def __repr__(self):
            return f"x{self.qid}{{{self.shift}}}"
    bnode = seen["B"][4]
    bcols = bnode.value.args[2]
    n_vec = 0
    bad = None
    for vec in ([(0, 1), (0, 0), (1, 0)], [(0, 0), (0, -1), (1, 0)], [(0, 1), (0, 0), (0, -1), (0, -2), (1, 0), (2, 0), (2, -1)], [(0, 0)],
                [(1, 2), (1, 1), (0, 0), (1, 0), (0, -1)]):
        tv = [_Tok(*x) for x in vec]
        try:
            helpers = _fin.module_funcs(dm)
            env_b = _fin.run_prefix(g, bnode, {"system_vectors": _fin.FinObj(transition_variables=tuple(tv), transition_eids=(), measurement_eids=())}, helpers)
            cols = list(_fin.ev(bcols, env_b, helpers))
        except (_fin.NotFinite, _fin.Raised) as ex:
            bad = None
            n_vec = 0
            note = f"not finitely evaluable: {ex}"
            break
        n_vec += 1
        want_cols = [t.shifted(-1) if t.shifted(-1) not in tv else None for t in tv]
        if cols != want_cols:
            bad = f"transition vector {tv}: B columns {cols}, but the lag of each element that is not itself in the vector is {want_cols}" \
                  + ("; a token in both A and B is counted twice" if any(c is not None and c in tv for c in cols) else "")
            break
    chk.ob("C02-R5", "fords.descriptors.SystemMap.B[columns]", (bad is None) if n_vec else None,
           bad or (f"on {n_vec} token vectors the columns of B are exactly the once-lagged elements that fall off the vector (None elsewhere)" if n_vec else note),
           dm.loc(bnode), sure=bool(bad))
    # shapes agree with (rows, cols)
    sv = dm.func("SystemVectors.__init__")
    chk.saw(dm, "SystemVectors.__init__")
    shapes = {}
    for n in ast.walk(sv):
        if isinstance(n, ast.Assign) and dotted(n.targets[0]) and dotted(n.targets[0]).startswith("self.shape_"):
            shapes[dotted(n.targets[0])[11:]] = unparse(n.value).replace(" ", "")
    for letter, key, (rows, cols) in (("A", "A_excl_dynid", want["A"]), ("D", "D_excl_dynid", want["D"]),
                                       ("F", "F", want["F"]), ("G", "G", want["G"]), ("J", "J", want["J"])):
        exp = f"(len(self.{rows}),len(self.{cols}))"
        chk.ob("C02-R5", f"fords.descriptors.SystemVectors.shape_{letter}", shapes.get(key) == exp,
               f"shape_{key} = {shapes.get(key)}; map rows/columns need {exp}", dm.loc(sv))
    chk.ob("C02-R5", "fords.descriptors.SystemVectors.shape_B", shapes.get("B_excl_dynid") in ("self.shape_A_excl_dynid", shapes.get("A_excl_dynid")),
           f"shape_B = {shapes.get('B_excl_dynid')}", dm.loc(sv))
    # create_eid_to_rhs_offset: exclusive prefix sum
    mm = chk.repo.mod("irispie.aldi.maps")
    f = mm.func("create_eid_to_rhs_offset")
    chk.saw(mm, "create_eid_to_rhs_offset")
    txt = norm_stmt(f).replace(" ", "")
    acc = [n for n in ast.walk(f) if isinstance(n, ast.Call) and dotted(n.func) and dotted(n.func).endswith("accumulate")]
    ok = False
    if len(acc) == 1 and isinstance(acc[0].args[0], ast.GeneratorExp):
        ge = acc[0].args[0]
        p0, p1 = params(f)[0], params(f)[1]
        ok = (unparse(ge.generators[0].iter) == p0 and unparse(ge.elt).replace(" ", "") == f"len({p1}[{unparse(ge.generators[0].target)}])"
              and ".pop()" in txt and ".insert(0,0)" in txt and f"dict(zip({p0},rhs_offsets))" in txt)
    chk.ob("C02-R5", "aldi.maps.create_eid_to_rhs_offset", ok,
           "offsets = [0] + cumsum(len(wrt[eid]))[:-1], zipped with eids in the same order" if ok else "not an exclusive prefix sum in eids order", mm.loc(f))
    # _get_raw_map_for_single_equation
    f = mm.func("_get_raw_map_for_single_equation")
    chk.saw(mm, "_get_raw_map_for_single_equation")
    gens = [n for n in ast.walk(f) if isinstance(n, ast.GeneratorExp)]
    ok = False
    if gens:
        ge = gens[0]
        it = ge.generators[0].iter
        ok = (isinstance(it, ast.Call) and dotted(it.func) == "enumerate" and unparse(it.args[0]) == "tokens_in_equation_on_rhs"
              and [unparse(k.value) for k in it.keywords if k.arg == "start"] == ["rhs_offset"]
              and isinstance(ge.elt, ast.Tuple) and [unparse(e).replace(" ", "") for e in ge.elt.elts] ==
              ["lhs_row", "lhs_column_offset+token_to_lhs_column[t]", "rhs_row", "rhs_column"]
              and unparse(ge.generators[0].target).replace(" ", "") == "(rhs_row,t)")
    chk.ob("C02-R5", "aldi.maps._get_raw_map_for_single_equation", ok,
           "(lhs_row, column of token, rhs_offset + position of token in equation, rhs_column)" if ok else "unexpected map tuple", mm.loc(f))
    # ArrayMap.static: lhs_row enumerates eids
    f = mm.func("ArrayMap.static")
    chk.saw(mm, "ArrayMap.static")
    fors = [n for n in walk_no_nested(f) if isinstance(n, ast.For)]
    ok = False
    if len(fors) == 1:
        it = fors[0].iter
        call = [n for n in ast.walk(fors[0]) if isinstance(n, ast.Call) and dotted(n.func) == "_get_raw_map_for_single_equation"]
        ok = (unparse(it) == "enumerate(eids)" and unparse(fors[0].target).replace(" ", "") == "(lhs_row,eid)" and len(call) == 1
              and [unparse(a) for a in call[0].args] == ["eid_to_wrt_tokens[eid]", "token_to_lhs_column", "eid_to_rhs_offset[eid]", "lhs_row"])
    chk.ob("C02-R5", "aldi.maps.ArrayMap.static", ok,
           "row k of the matrix is the k-th eid; tokens and offset are looked up by that eid" if ok else "unexpected loop", mm.loc(f))
    # System: self.X[smap.X.lhs] = td[smap.X.rhs]
    sm = chk.repo.mod("irispie.fords.systems")
    f = sm.func("System.__init__")
    chk.saw(sm, "System.__init__")
    env = _local_env(f)
    n_sc = 0
    for n in walk_no_nested(f):
        if isinstance(n, ast.Assign) and isinstance(n.targets[0], ast.Subscript) and dotted(n.targets[0].value) \
                and dotted(n.targets[0].value).startswith("self."):
            letter = dotted(n.targets[0].value)[5:]
            lhs = unparse(n.targets[0].slice)
            rhs = n.value
            if not (isinstance(rhs, ast.Subscript)):
                continue
            src = unparse(rhs.value)
            ridx = rhs.slice.elts[0] if isinstance(rhs.slice, ast.Tuple) else rhs.slice
            ridx = unparse(ridx)
            n_sc += 1
            want_src = "tc" if letter in ("C", "H") else "td"
            ok = lhs == f"smap.{letter}.lhs" and ridx == f"smap.{letter}.rhs" and src == want_src
            chk.ob("C02-R5", f"fords.systems.System.{letter}[scatter]", ok,
                   f"self.{letter}[{lhs}] = {src}[{ridx}] (derivatives come from td, constants from tc)", sm.loc(n))
    if n_sc < 8:
        raise AnalysisError(f"anchor vanished: System.__init__ scatter statements ({n_sc} < 8)")
    tdtc = [n for n in walk_no_nested(f) if isinstance(n, ast.Assign) and isinstance(n.targets[0], ast.Tuple)
            and isinstance(n.value, ast.Call) and dotted(n.value.func) and dotted(n.value.func).endswith("eval_to_arrays")]
    ok = len(tdtc) == 1 and [unparse(e) for e in tdtc[0].targets[0].elts] == ["td", "tc"]
    chk.ob("C02-R5", "fords.systems.System[td, tc unpack]", ok, "td, tc = aldi_context.eval_to_arrays(...) (diff first, value second)", sm.loc(f))
    dd = chk.repo.mod(MOD).func("Context.eval_to_arrays")
    rets = [n for n in walk_no_nested(dd) if isinstance(n, ast.Return)]
    ok = len(rets) == 1 and unparse(rets[0].value).replace(" ", "") in ("(diff,value)", "diff,value")
    env2 = _local_env(dd)
    ok = ok and "x.diff" in unparse(env2.get("diff", ast.Constant(0))) and "x.value" in unparse(env2.get("value", ast.Constant(0)))
    chk.ob("C02-R5", "aldi.differentiators.Context.eval_to_arrays", ok, "returns (stack of .diff, stack of .value)", chk.repo.mod(MOD).loc(dd))
    # steady seeds and combination
    jm = chk.repo.mod("irispie.steadiers._jacobian")
    f = jm.func("_nonflat_create_diff_for_token")
    chk.saw(jm, "_nonflat_create_diff_for_token")
    seeds = [n for n in walk_no_nested(f) if isinstance(n, ast.Assign) and isinstance(n.targets[0], ast.Subscript)
             and unparse(n.targets[0]).replace(" ", "") == "diff[index,:]"]
    ok = len(seeds) == 1 and unparse(seeds[0].value).replace(" ", "") in ("(1,token.shift)",)
    chk.ob("C02-R5", "steadiers._jacobian._nonflat_create_diff_for_token[seeds]", ok,
           "seed (d/dlevel, d/dchange) of level + shift*change is (1, shift)", jm.loc(f))
    f = jm.func("NonflatSteadyJacobian.eval")
    chk.saw(jm, "NonflatSteadyJacobian.eval")
    _check_nonflat_combination(chk, jm, f)


def _check_nonflat_combination(chk, jm, f):
    """
    The returned block matrix must be [[A0, B0], [Ak, Bk + k*Ak]] where X0/Xk are the column-0/column-1
    scatter of the diff array evaluated at offset / offset+k. Here we decide the algebraic form of the
    second row: d/dchange at t+k = B + k*A with A, B from the same evaluation.
    """
    env = _local_env(f)
    rets = [n for n in walk_no_nested(f) if isinstance(n, ast.Return)]
    ok, detail = None, "return shape not recognised"
    if len(rets) == 1 and call_is(rets[0].value, ("_np.vstack", "np.vstack")):
        rows = rets[0].value.args[0]
        if isinstance(rows, ast.Tuple) and len(rows.elts) == 2 and all(call_is(r, ("_np.hstack", "np.hstack")) for r in rows.elts):
            r0 = rows.elts[0].args[0].elts
            r1 = rows.elts[1].args[0].elts
            def src(node):
                """(diff-array name, column) an expression's matrix comes from"""
                if isinstance(node, ast.Name) and node.id in env:
                    v = env[node.id]
                    if isinstance(v, ast.Call) and dotted(v.func) == "self._create_jacobian_matrix":
                        a = v.args[0]
                        if isinstance(a, ast.Subscript) and isinstance(a.slice, ast.Tuple):
                            return (unparse(a.value), unparse(a.slice.elts[1]))
                return None
            try:
                conv = alg.ToIR(env={"k": sym("K")}, attr=lambda s: sym("K") if s.endswith("NONFLAT_STEADY_SHIFT") else None)
                A0, B0 = r0
                Ak, Bk = r1
                sA0, sB0 = src(A0), src(B0)
                # second row second element == (B-like) + K*(A-like) where A-like is r1[0]
                got = conv(Bk)
                a_name = unparse(Ak)
                cands = [nm for nm in alg.symbols(got) if nm not in ("K", a_name)]
                okform = len(cands) == 1 and alg.equal(got, add(sym(cands[0]), mul(sym("K"), sym(a_name))))
                sAk = src(Ak)
                sBk = src(ast.Name(id=cands[0], ctx=ast.Load())) if cands else None
                okcols = bool(sA0 and sB0 and sAk and sBk and sA0[1] == sAk[1] == "0:1" and sB0[1] == sBk[1] == "1:2"
                              and sA0[0] == sB0[0] and sAk[0] == sBk[0])
                ok = bool(okform and okcols)
                detail = (f"row0=({unparse(A0)}, {unparse(B0)}) row1=({unparse(Ak)}, {unparse(Bk)}); "
                          f"sources {sA0},{sB0},{sAk},{sBk}")
            except Undecided as e:
                ok, detail = None, str(e)
    chk.ob("C02-R5", "steadiers._jacobian.NonflatSteadyJacobian.eval[(A,B)/(A,B+kA)]", ok, detail, jm.loc(f))


def rule_r6(chk, rid="C02-R6", sites=(1, 2)):
    """evaluation point alignment: arrays of steady paths are created with the period of their first column, and evaluated at a column offset"""
    from ..core import inline_locals, squash
    chk.rule(rid, "equations and derivatives are evaluated at period 0 of the steady paths: wherever a steady/zero array is created with "
             "shift_in_first_column = S and evaluated at column offset O, S + O == 0 (the array read for the lagged state: S' + O' == -1); "
             "sites: Simultaneous._systemize -> System.__init__ (1), SteadyEvaluator (2), check_steady (3), the steady-autovalue updater (4); "
             f"this property reads sites {sites}", floor=2)

    def kw_of(call, name):
        return next((k.value for k in call.keywords if k.arg == name), None)

    def creations(f):
        return [c for c in ast.walk(f) if isinstance(c, ast.Call) and isinstance(c.func, ast.Attribute) and c.func.attr in ("create_steady_array", "create_zero_array")
                and kw_of(c, "shift_in_first_column") is not None]

    def conv_with(symbols):
        return alg.ToIR(attr=lambda d: sym(symbols[d]) if d in symbols else None, env={k: sym(v) for k, v in symbols.items() if "." not in k})

    def with_aliases(symbols, funcs):
        """a local that is stored into (or read from) an attribute with a symbol stands for the same quantity: self._min_shift = min_shift"""
        out = dict(symbols)
        for g_ in funcs:
            for n_ in ast.walk(g_):
                if isinstance(n_, ast.Assign) and len(n_.targets) == 1:
                    t_, v_ = n_.targets[0], n_.value
                    pairs = list(zip(t_.elts, v_.elts)) if isinstance(t_, ast.Tuple) and isinstance(v_, ast.Tuple) and len(t_.elts) == len(v_.elts) else [(t_, v_)]
                    for a_, b_ in pairs:
                        for x_, y_ in ((a_, b_), (b_, a_)):
                            if isinstance(x_, ast.Name) and dotted(y_) in symbols and x_.id not in out:
                                out[x_.id] = symbols[dotted(y_)]
        return out

    def first_of_loop(g_, e_):
        """an offset that is the variable of a loop / comprehension over a literal tuple stands for its first element"""
        if isinstance(e_, ast.Name):
            for n_ in ast.walk(g_):
                tg, it = (n_.target, n_.iter) if isinstance(n_, (ast.For, ast.comprehension)) else (None, None)
                if isinstance(tg, ast.Name) and tg.id == e_.id and isinstance(it, (ast.Tuple, ast.List)) and it.elts:
                    return it.elts[0]
        return e_

    def decide(construct, s_expr, o_expr, want, symbols, loc):
        try:
            cv = conv_with(symbols)
            total = add(cv(s_expr), cv(o_expr))
            chk.ob(rid, construct, alg.equal(total, num(want)),
                   f"first column holds period {unparse(s_expr)}; evaluated at offset {unparse(o_expr)}: period {alg.show_rat(alg.nf(total))} (want {want})", loc, sure=True)
        except Undecided as e:
            chk.undecided(rid, construct, str(e), loc)

    # 1. _systemize -> System.__init__
    mm = chk.repo.mod("irispie.simultaneous.main")
    f = mm.func("Simultaneous._systemize")
    chk.saw(mm, "Simultaneous._systemize")
    sysm = chk.repo.mod("irispie.fords.systems")
    init = sysm.func("System.__init__")
    chk.saw(sysm, "System.__init__")
    call = next((c for c in ast.walk(f) if isinstance(c, ast.Call) and (dotted(c.func) or "").endswith("System")), None)
    ips = params(init)[1:]
    if 1 not in sites:
        pass
    elif call is None:
        chk.undecided(rid, "simultaneous.main.Simultaneous._systemize[System call]", "call not recognised", mm.loc(f))
    else:
        actual = dict(zip(ips, call.args))
        actual.update({k.arg: k.value for k in call.keywords if k.arg})
        off_caller = inline_locals(f, actual["column_offset"]) if "column_offset" in actual else None
        gv = [c for c in ast.walk(init) if isinstance(c, ast.Call) and dotted(c.func) == "_get_vector" and len(c.args) >= 5]
        by_array = {unparse(c.args[1]): c.args[4] for c in gv}
        for arr, want in (("data_array", 0), ("data_array_lagged", -1)):
            made = [n for n in ast.walk(f) if isinstance(n, ast.Assign) and unparse(n.targets[0]) == unparse(actual.get(arr, ast.Name(id="?"))) and n.value in creations(f)]
            if arr not in by_array or off_caller is None or not made:
                chk.undecided(rid, f"simultaneous.main.Simultaneous._systemize[{arr}]", "creation or read of the array not recognised", mm.loc(f))
                continue
            for mk in made:
                if mk.value.func.attr == "create_zero_array":
                    continue                 # zeros: alignment is immaterial
                s_expr = inline_locals(f, kw_of(mk.value, "shift_in_first_column"))
                # offset used inside System.__init__, in terms of the caller's argument
                o_in = by_array[arr]
                o_txt = unparse(o_in).replace("column_offset", f"({unparse(off_caller)})")
                decide(f"simultaneous.main.Simultaneous._systemize->fords.systems.System.__init__[{arr}]", s_expr, ast.parse(o_txt, mode="eval").body, want,
                       {"self._invariant._min_shift": "m", "self._invariant._max_shift": "M"}, sysm.loc(gv[0]))
    # 2. SteadyEvaluator
    em = chk.repo.mod("irispie.steadiers.evaluators")
    ini = em.func("SteadyEvaluator.__init__")
    chk.saw(em, "SteadyEvaluator.__init__")
    off = em.func("SteadyEvaluator._column_offset")
    rets = [r.value for r in walk_no_nested(off) if isinstance(r, ast.Return)]
    cr = creations(ini)
    if 2 not in sites:
        pass
    elif len(cr) == 1 and len(rets) == 1:
        decide("steadiers.evaluators.SteadyEvaluator[steady array]", kw_of(cr[0], "shift_in_first_column"), rets[0], 0,
               with_aliases({"self._min_shift": "m", "self._column_offset": "OFFSET"}, [ini, off]), em.loc(cr[0]))
        uses = [c for q, g in em.functions() if q.startswith("SteadyEvaluator.") for c in ast.walk(g) if isinstance(c, ast.Call) and isinstance(c.func, ast.Attribute)
                and c.func.attr == "eval" and len(c.args) >= 2 and squash(c.args[0]) == "self._steady_array"]
        okk = bool(uses) and all(squash(c.args[1]) == "self._column_offset" for c in uses)
        chk.ob(rid, "steadiers.evaluators.SteadyEvaluator[evaluated at the offset]", okk if uses else None,
               f"{len(uses)} equator/jacobian evaluations of self._steady_array, all at self._column_offset", em.loc(ini))
    else:
        chk.undecided(rid, "steadiers.evaluators.SteadyEvaluator[steady array]", "creation / offset property not recognised", em.loc(ini))
    # 3. check_steady   4. steady autovalue updater
    for site, modname, qual, array_var in ((3, "irispie.simultaneous._steady", None, None), (4, "irispie.simultaneous._invariants", "_populate_steady_autovalue_updater", None)):
        if site not in sites:
            continue
        m2 = chk.repo.mod(modname)
        cands = [(q, g) for q, g in m2.functions() if creations(g) and (qual is None or q == qual) and "." not in q.replace("Inlay.", "")]
        for q, g in cands:
            chk.saw(m2, q)
            for c in creations(g):
                s_expr = inline_locals(g, kw_of(c, "shift_in_first_column"), skip_calls=True)
                evals = [x for x in ast.walk(g) if isinstance(x, ast.Call) and len(x.args) >= 2 and isinstance(x.args[0], ast.Name) and (
                    (isinstance(x.func, ast.Attribute) and x.func.attr == "eval") or (isinstance(x.func, ast.Name) and x.func.id == "func"))]
                if not evals:
                    chk.undecided(rid, f"{modname.replace('irispie.', '')}.{q}[steady array]", "no evaluation call at an offset recognised", m2.loc(c))
                    continue
                o_expr = inline_locals(g, first_of_loop(g, evals[0].args[1]), skip_calls=True)
                symbols = with_aliases({"equator.min_shift": "m", "self._min_shift": "m"}, [g])
                decide(f"{modname.replace('irispie.', '')}.{q}[steady array]", s_expr, o_expr, 0, symbols, m2.loc(c))


def run(chk):
    chk.guard(rule_r1, chk)
    chk.guard(rule_r2, chk)
    chk.guard(rule_r3, chk)
    chk.guard(rule_r4, chk)
    chk.guard(rule_r5, chk)
    chk.guard(rule_r6, chk)
    from . import c20
    chk.guard(c20.rule_r7, chk, rid="C02-R7")
    from .. import unused as _unused
    chk.guard(_unused.apply, chk, "C02-R91")
    from .. import variants as _variants
    chk.guard(_variants.apply_wrappers, chk, "C02-R9", {"simultaneous", "fords", "steadiers", "stacked_time"})
    from .. import once as _once
    chk.guard(_once.apply, chk, "C02-R8")
    from . import c08 as _c08
    chk.guard(_c08.rule_r10, chk, rid="C02-R10")
    from .. import args as _args
    chk.guard(_args.apply, chk, "C02-R90", {'aldi', 'jacobians', 'period_by_period', 'stacked_time', 'steadiers'}, 1)
    chk.assumptions = [
        "user-supplied context functions are differentiated by the finite-difference wrapper (R4), not by rules",
        "placement of individual cells for a given model depends on run-time maps; only the order/offset algebra is decided",
        "domain restrictions (positive arguments of log/sqrt, kinks of maximum) are outside the clause",
    ]

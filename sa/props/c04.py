"""
C04 — model source text is translated to equations without changing their meaning.

  R1  every pseudofunction builder emits text that normalises to its documented formula, for simple and
      compound arguments, inside a larger expression (precedence), for several shifts
  R2  lhs=rhs is rewritten to -(lhs)+rhs; anticipated shocks are inserted parenthesised; ^ is power
  R3  alias keys map to identical (builder, default shift); name alternation is built from the table keys
  R4  grammar keyword literals, visitor bindings, shortcut rewrites, ModelSource keys and kinds agree
  R5  shift arithmetic: _shift_all_names adds `by`, drops the bracket iff 0; Token print/parse are inverse
"""
from __future__ import annotations

import ast
import re

from .. import alg, modellang
from ..alg import Undecided, sym, num, add, sub, mul, div, pow_, app
from ..core import AnalysisError, dotted, unparse, params, walk_no_nested, strip_docstring, literal
from ..formulas import FORMULAS
from ..tpl import eval_str, run_str_function, NotAString

PMOD = "irispie.parsers._pseudofunctions"


def _shifted_ir(code: str, k: int):
    return alg.parse_model_expr(modellang.ref_shift_all_names(code, k))


def _documented(name: str, code: str, k: int):
    """Documented meaning of pseudofunction `name` applied to `code` with shift k, as IR."""
    X = alg.parse_model_expr(code)
    Y = _shifted_ir(code, k)
    base = name.replace("difflog", "diff_log").replace("movsum", "mov_sum").replace("movavg", "mov_avg").replace("movprod", "mov_prod")
    if base == "shift":
        return Y
    if base in ("diff", "diff_log", "pct", "roc"):
        f = FORMULAS[base]
        # substitute x->X, y->Y simultaneously
        return alg.subst(f, {"x": X, "y": Y})
    if base in ("mov_sum", "mov_avg", "mov_prod"):
        n = abs(k)
        step = 1 if k > 0 else -1
        terms = [_shifted_ir(code, j) for j in range(0, k, step)]
        if base == "mov_prod":
            out = terms[0]
            for t in terms[1:]:
                out = mul(out, t)
            return out
        out = terms[0]
        for t in terms[1:]:
            out = add(out, t)
        return out if base == "mov_sum" else div(out, num(n))
    return None


def rule_r1_r3(chk):
    chk.rule("C04-R1", "for each _PSEUDOFUNC_RESOLUTION entry, argument in {x, a+b[1]*c} and shift in {default,-1,-2,3}: "
             "the emitted text, embedded as q*<text>^p, normalises to q*(documented formula)^p", floor=60, shape_independent=True)
    chk.rule("C04-R3", "alias keys (with/without underscore) map to identical (builder, default shift); the name pattern "
             "is the alternation of the table keys closed by \\b; default shift reaches the builder when none is given", floor=8)
    m, tab, pf = modellang.pseudofunction_table(chk.repo)
    chk.saw(m, "_PSEUDOFUNC_RESOLUTION")
    codes = ["x", "a+b[1]*c"]
    for name, (builder, dshift) in sorted(pf.items()):
        chk.saw(m, builder)
        for code in codes:
            for k in sorted({dshift, -1, -2, 3}):
                construct = f"parsers._pseudofunctions.{name}({code},{k})"
                try:
                    text = modellang.expand(chk.repo, builder, code, k)
                    want = _documented(name, code, k)
                    if want is None:
                        chk.undecided("C04-R1", construct, "no documented formula for this name")
                        continue
                    got = alg.parse_model_expr(f"q*{text}^p")
                    wantq = mul(sym("q"), pow_(want, sym("p")))
                    ok = alg.equal(got, wantq)
                    chk.ob("C04-R1", construct, ok,
                           f"emits {text}; as q*(.)^p = {alg.show_rat(alg.nf(got))[:160]}; documented = {alg.show_rat(alg.nf(wantq))[:160]}",
                           m.loc(m.func(builder)))
                except (Undecided, SyntaxError, NotAString) as e:
                    chk.undecided("C04-R1", construct, f"{type(e).__name__}: {e}", m.loc(m.func(builder)))
    # R3 aliases
    for name, (builder, dshift) in sorted(pf.items()):
        if "_" in name:
            alias = name.replace("_", "")
            if alias in pf:
                chk.ob("C04-R3", f"parsers._pseudofunctions._PSEUDOFUNC_RESOLUTION[{name}~{alias}]", pf[alias] == (builder, dshift),
                       f"{name}->{(builder, dshift)}, {alias}->{pf[alias]}", m.loc(tab))
    # name pattern built from the keys
    npat = m.assign("_PSEUDOFUNC_NAME_PATTERN")
    try:
        text = eval_str(npat, {}, funcs={"_PSEUDOFUNC_RESOLUTION.keys": lambda: list(pf.keys())})
        ok = text == r"\b(" + "|".join(pf.keys()) + r")\b"
        chk.ob("C04-R3", "parsers._pseudofunctions._PSEUDOFUNC_NAME_PATTERN", ok, f"pattern = {text}", m.loc(npat))
        # an alternation is ordered: a key that is a proper prefix of a later key must not pre-empt it; \b closes it
        keys = list(pf.keys())
        bad = [(a, b) for i, a in enumerate(keys) for b in keys[i + 1:] if b.startswith(a) and b != a and not text.endswith(r")\b")]
        chk.ob("C04-R3", "parsers._pseudofunctions._PSEUDOFUNC_NAME_PATTERN[prefix-safe]", not bad,
               "alternation closed by \\b, so a key that prefixes another (diff/diff_log) cannot pre-empt it" if not bad else f"prefix clash {bad}", m.loc(npat))
    except NotAString as e:
        chk.undecided("C04-R3", "parsers._pseudofunctions._PSEUDOFUNC_NAME_PATTERN", str(e), m.loc(npat))
    # _expand_pseudofunction: table lookup by group(1), default shift
    f = m.func("_expand_pseudofunction")
    chk.saw(m, "_expand_pseudofunction")
    from .. import fin as _fin
    bad, n_ev = None, 0
    try:
        for groups, want in ((("diff", "x", None), ("B-diff", "x", -1)), (("movsum", "x+y", " -2 "), ("B-movsum", "x+y", -2)),
                             (("movsum", "z", ""), ("B-movsum", "z", -4)), (("diff", "a*b", "+3"), ("B-diff", "a*b", 3))):
            table = {"diff": (lambda e, s_: ("B-diff", e, s_), -1), "movsum": (lambda e, s_: ("B-movsum", e, s_), -4)}
            match = _fin.FinObj(group=lambda *i, _g=groups: _g[i[0] - 1] if len(i) == 1 else tuple(_g[k - 1] for k in i), groups=lambda _g=groups: tuple(_g))
            got = _fin.run_function(f, {params(f)[0]: match}, _fin.module_funcs(m), {"_PSEUDOFUNC_RESOLUTION": table})
            n_ev += 1
            if got != want:
                bad = f"match groups {groups}: the builder call is {got}, expected {want} (builder and default shift of the same table entry)"
                break
    except (_fin.NotFinite, _fin.Raised, TypeError, KeyError, ValueError) as ex:
        chk.undecided("C04-R3", "parsers._pseudofunctions._expand_pseudofunction", f"not finitely evaluable: {type(ex).__name__}: {ex}", m.loc(f))
    else:
        chk.ob("C04-R3", "parsers._pseudofunctions._expand_pseudofunction", bad is None,
               bad or f"builder and default shift come from the same table entry; builder called with (expression, shift) on {n_ev} matches", m.loc(f), sure=True)
    g = m.func("_resolve_shift")
    chk.saw(m, "_resolve_shift")
    oks = []
    for txt, d, want in ((None, -1, -1), ("", -4, -4), (" -2 ", -1, -2), ("+3", -1, 3), ("-1", -4, -1)):
        try:
            oks.append(run_str_function(g, {params(g)[0]: txt, params(g)[1]: d}) == want)
        except NotAString:
            oks.append(None)
    chk.ob("C04-R3", "parsers._pseudofunctions._resolve_shift", None if None in oks else all(oks),
           "explicit shift text wins, empty/None falls back to the table default (finite evaluation of the body)", m.loc(g))


def rule_r2(chk):
    chk.rule("C04-R2", "equation text lhs=rhs becomes -(lhs)+rhs (also for ===, :=), ^ becomes **, blanks removed; "
             "anticipated shocks are substituted as (u+ant_u)", floor=5)
    em = chk.repo.mod("irispie.equations")
    f = em.func("_postprocess_xtring")
    chk.saw(em, "_postprocess_xtring")
    for text, lhs, rhs in (("A+B=C-D", "A+B", "C-D"), ("A-B===C^2 - D", "A-B", "C**2-D"), ("A*B", None, "A*B")):
        try:
            got = run_str_function(f, {params(f)[0]: text})
            gi = alg.parse_model_expr(got)
            want = alg.parse_model_expr(rhs) if lhs is None else sub(alg.parse_model_expr(rhs), alg.parse_model_expr(lhs))
            chk.ob("C04-R2", f"equations._postprocess_xtring[{text}]", alg.equal(gi, want) and " " not in got,
                   f"{text!r} -> {got!r}", em.loc(f))
        except (NotAString, Undecided, SyntaxError) as e:
            chk.undecided("C04-R2", f"equations._postprocess_xtring[{text}]", str(e), em.loc(f))
    g = em.func("xtring_from_human")
    chk.saw(em, "xtring_from_human")
    src = unparse(g)
    ok = "xtring.replace(':=', '=')" in src and src.index("replace(':=', '=')") < src.index("_postprocess_xtring(")
    chk.ob("C04-R2", "equations.xtring_from_human[:=]", ok, "':=' is rewritten to '=' before the lhs/rhs split", em.loc(g))
    im = chk.repo.mod("irispie.simultaneous._invariants")
    h = im.func("_introduce_anticipated_shocks_for_transition_shocks")
    chk.saw(im, "_introduce_anticipated_shocks_for_transition_shocks")
    dc = [n for n in ast.walk(h) if isinstance(n, ast.DictComp)]
    ok = None
    if len(dc) == 1:
        try:
            val = eval_str(dc[0].value, {"i.human": "u", "j.human": "ant_u"})
            key = eval_str(dc[0].key, {"i.human": "u", "j.human": "ant_u"})
            ok = key == "u" and alg.equal(alg.parse_model_expr(f"k*{val}"), mul(sym("k"), add(sym("u"), sym("ant_u"))))
        except (NotAString, Undecided, SyntaxError):
            ok = None
    chk.ob("C04-R2", "simultaneous._invariants._introduce_anticipated_shocks_for_transition_shocks", ok,
           "shock u is replaced by the parenthesised sum (u+ant_u)", im.loc(h))
    pats = [n for n in ast.walk(h) if isinstance(n, ast.Call) and dotted(n.func) in ("_re.compile", "re.compile")]
    ok = len(pats) == 1 and unparse(pats[0].args[0]).replace(" ", "").startswith("'\\\\b('") and unparse(pats[0].args[0]).replace(" ", "").endswith("')\\\\b'")
    chk.ob("C04-R2", "simultaneous._invariants._introduce_anticipated_shocks_for_transition_shocks[whole words]", ok,
           "shock names are matched as whole words (\\b...\\b)", im.loc(h))


def _grammar_keywords(text: str):
    """rule name -> literal for `X_keyword = keyword_prefix "lit"`; plus alternations"""
    lits = dict(re.findall(r'^\s*(\w+_keyword)\s*=\s*keyword_prefix\s+"([^"]+)"', text, flags=re.M))
    def alt(rule):
        mm = re.search(r"^\s*" + rule + r"\s*=\s*((?:\n?\s*/?\s*\w+_keyword\s*)+)", text, flags=re.M)
        return re.findall(r"\w+_keyword", mm.group(1)) if mm else []
    return lits, {r: alt(r) for r in ("keyword", "qty_keyword", "eqn_keyword")}


def rule_r4(chk):
    chk.rule("C04-R4", "every key ModelSource.from_string reads is a grammar keyword literal; every quantity keyword and the "
             "three equation keywords are read; each keyword in the `keyword` alternation has a visitor; shortcut rewrites "
             "target existing keywords; from_lists routes argument X to _add_X which passes Kind.X", floor=40)
    mm = chk.repo.mod("irispie.parsers.models")
    cm = chk.repo.mod("irispie.parsers.common")
    gdef = mm.assign("_GRAMMAR_DEF")
    try:
        common = literal(cm.assign("GRAMMAR_DEF"))
        gtext = eval_str(gdef, {"_common.GRAMMAR_DEF": common})
    except (NotAString, AnalysisError) as e:
        raise AnalysisError(f"cannot evaluate _GRAMMAR_DEF: {e}")
    chk.saw(mm, "_GRAMMAR_DEF")
    lits, alts = _grammar_keywords(gtext)
    if len(lits) < 15 or not alts["keyword"]:
        raise AnalysisError(f"grammar keywords not recognised ({len(lits)} literals)")
    kw_lits = {lits[r] for r in alts["keyword"] if r in lits}
    sm = chk.repo.mod("irispie.sources")
    f = sm.func("ModelSource.from_string")
    chk.saw(sm, "ModelSource.from_string")
    # by finite evaluation with a recording stand-in for the parsed content: which block keys are asked for, and which keyword of
    # from_lists each block's content reaches
    from .. import fin as _fin
    asked, received = [], {}
    content = _fin.FinObj(get=lambda k, *d: asked.append(k) or (("BLOCK", k) if k not in ("all-but", "log-variables") else ()))
    klass_ = _fin.FinObj(from_lists=lambda **kw: received.update(kw) or "SOURCE")
    funcs_ = _fin.module_funcs(sm, {"_preparser.from_string": lambda *a_, **k_: ("PREPARSED", {"info": 1}), "_models.from_string": lambda *a_, **k_: content,
                                    "_is_all_but_present": lambda x: bool(x)})
    try:
        _fin.run_function(f, {params(f)[0]: klass_, params(f)[1]: "SOURCE TEXT", "context": None, "save_preparsed": ""}, funcs_, _fin.module_constants(sm))
    except (_fin.NotFinite, _fin.Raised, TypeError, AttributeError, KeyError) as ex:
        chk.undecided("C04-R4", "sources.ModelSource.from_string[blocks]", f"not finitely evaluable: {type(ex).__name__}: {ex}", sm.loc(f))
        asked = None
    if asked is not None:
        for k in sorted(set(asked)):
            chk.ob("C04-R4", f"sources.ModelSource.from_string[get {k}]", k in kw_lits,
                   f"key {k!r} {'is' if k in kw_lits else 'is NOT'} a keyword literal of the grammar (a typo drops the block silently)", sm.loc(f), sure=True)
        need = [lits[r] for r in alts["qty_keyword"]] + [lits[r] for r in ("transition_equations_keyword", "measurement_equations_keyword", "steady_autovalues_keyword")] \
            + [lits["log_keyword"], lits["all_but_keyword"]]
        for k in need:
            chk.ob("C04-R4", f"sources.ModelSource.from_string[reads {k}]", k in asked,
                   f"grammar block {k!r} {'is' if k in asked else 'is NOT'} consumed by ModelSource.from_string", sm.loc(f), sure=True)
        # keyword args of from_lists: the content of block some-block arrives as some_block
        for kw_, v_ in sorted(received.items()):
            if isinstance(v_, tuple) and len(v_) == 2 and v_[0] == "BLOCK":
                chk.ob("C04-R4", f"sources.ModelSource.from_string[{kw_}]", v_[1] == kw_.replace("_", "-"),
                       f"{kw_}=parsed_content.get({v_[1]!r})", sm.loc(f), sure=True)
        for k in need:
            if k not in ("log-variables", "all-but"):
                chk.ob("C04-R4", f"sources.ModelSource.from_string[{k} reaches from_lists]", received.get(k.replace("-", "_")) == ("BLOCK", k),
                       f"from_lists receives {k.replace('-', '_')}={received.get(k.replace('-', '_'))!r}", sm.loc(f), sure=True)
    # visitor bindings
    vis = mm.cls("_Visitor")
    bound = set()
    for st in vis.body:
        if isinstance(st, ast.Assign):
            for t in st.targets:
                if isinstance(t, ast.Name):
                    bound.add(t.id)
        elif isinstance(st, ast.FunctionDef):
            bound.add(st.name)
    for r in alts["keyword"]:
        chk.ob("C04-R4", f"parsers.models._Visitor[visit_{r}]", f"visit_{r}" in bound,
               f"visitor for grammar rule {r} {'exists' if f'visit_{r}' in bound else 'is missing (generic_visit returns a list, not the name)'}", mm.loc(vis))
    # shortcut keywords
    sk = mm.assign("_SHORTCUT_KEYWORDS")
    human_prefix = re.search(r'human_prefix\s*=\s*"([^"]+)"', common).group(1)
    for elt in sk.elts:
        try:
            long = eval_str(elt.elts[1], {"_common.HUMAN_PREFIX": human_prefix})
            short = eval_str(elt.elts[0].args[0], {"_common.HUMAN_PREFIX": human_prefix})
        except (NotAString, AttributeError, IndexError) as e:
            chk.undecided("C04-R4", "parsers.models._SHORTCUT_KEYWORDS", str(e), mm.loc(sk))
            continue
        ok = long.startswith(human_prefix) and long[len(human_prefix):] in kw_lits and short.endswith(r"\b")
        chk.ob("C04-R4", f"parsers.models._SHORTCUT_KEYWORDS[{short}]", ok, f"{short} -> {long}", mm.loc(elt))
    # underscore rewrite yields hyphenated keyword
    us = mm.func("_replace_underscores_by_hyphens")
    ok = "sub('\\\\1-\\\\2'" in unparse(us)
    chk.ob("C04-R4", "parsers.models._replace_underscores_by_hyphens", ok, "!a_b is rewritten to !a-b", mm.loc(us))
    # from_lists routing and kinds
    fl = sm.func("ModelSource.from_lists")
    chk.saw(sm, "ModelSource.from_lists")
    n_routes = 0
    for n in walk_no_nested(fl):
        if isinstance(n, ast.Call) and dotted(n.func) and dotted(n.func).startswith("self._add_") and len(n.args) == 1 and isinstance(n.args[0], ast.Name):
            X = dotted(n.func)[len("self._add_"):]
            n_routes += 1
            chk.ob("C04-R4", f"sources.ModelSource.from_lists[_add_{X}]", n.args[0].id == X,
                   f"_add_{X}({n.args[0].id})", sm.loc(n))
    if n_routes < 9:
        raise AnalysisError(f"anchor vanished: from_lists routes ({n_routes} < 9)")
    for name, g in sm.methods("ModelSource").items():
        if not name.startswith("_add_"):
            continue
        for n in walk_no_nested(g):
            if isinstance(n, ast.Call) and dotted(n.func) in ("self._add_quantities", "self._add_equations") and len(n.args) == 2:
                kind = dotted(n.args[1]) or ""
                X = name[len("_add_"):]
                want = X.upper()[:-1] if X.endswith("s") and not X.endswith("values") else X.upper()
                # kinds are singular of the plural method name
                want_q = f"QuantityKind.{want}" if dotted(n.func).endswith("quantities") else f"EquationKind.{want}"
                if X == "steady_autovalues":
                    want_q = "EquationKind.STEADY_AUTOVALUES"
                chk.ob("C04-R4", f"sources.ModelSource.{name}[kind]", kind == want_q,
                       f"{name} passes {kind} (name says {want_q})", sm.loc(n))
                chk.saw(sm, f"ModelSource.{name}")
    # _add_equations: dynamic = first version, steady = second version if present else first
    ae = sm.func("ModelSource._add_equations")
    chk.saw(sm, "ModelSource._add_equations")
    src = unparse(ae).replace(" ", "")
    ok = ("return_handle_white_spaces(ein[1][0])" in src and "return_handle_white_spaces(ein[1][1]ifein[1][1]elseein[1][0])" in src
          and "self.dynamic_equations+=_create_equations(equation_inputs,kind,start_entry,_human_func_dynamic)" in src
          and "self.steady_equations+=_create_equations(equation_inputs,kind,start_entry,_human_func_steady)" in src)
    chk.ob("C04-R4", "sources.ModelSource._add_equations[dynamic/steady versions]", ok,
           "dynamic equation = text before !!, steady equation = text after !! or the dynamic text", sm.loc(ae))
    vb = mm.func("_Visitor.visit_eqn_body")
    src = unparse(vb).replace(" ", "")
    ok = "dynamic=_deblank(visited_children[0])" in src and "steady=_deblank(visited_children[1])" in src and "return(dynamic,steady)" in src
    chk.ob("C04-R4", "parsers.models._Visitor.visit_eqn_body", ok, "returns (dynamic, steady) in grammar order eqn_version eqn_steady", mm.loc(vb))
    # the all-but flag must be recorded whatever the log list contains (an empty list with !all-but means "all")
    chk.rule("C04-R6", "the !all-but flag is recorded unconditionally: the visitor call that stores it is reached on every path (no early "
             "return before it, no enclosing condition), so `!log-variables !all-but` with an empty list means all variables", floor=1, shape_independent=True)
    adders = []
    for name, g in mm.methods("_Visitor").items():
        env_ = {n.targets[0].id: n.value for n in walk_no_nested(g) if isinstance(n, ast.Assign) and isinstance(n.targets[0], ast.Name)}
        for c in ast.walk(g):
            if isinstance(c, ast.Call) and unparse(c.func) == "self._add" and c.args:
                a0 = c.args[0]
                a0 = env_.get(a0.id, a0) if isinstance(a0, ast.Name) else a0
                if isinstance(a0, ast.Constant) and a0.value == "all-but":
                    adders.append((name, g, c))
    if not adders:
        chk.bad("C04-R6", "parsers.models._Visitor[all-but recorded]", "no visitor records the !all-but flag", mm.loc(vis))
    for name, g, c in adders:
        early = [r for r in walk_no_nested(g) if isinstance(r, ast.Return) and r.lineno < c.lineno]
        cond = []
        cur = c
        while getattr(cur, "_parent", None) is not None and cur._parent is not g:
            cur = cur._parent
            if isinstance(cur, ast.If):
                cond.append(unparse(cur.test))
        ok = not early and not cond
        chk.ob("C04-R6", f"parsers.models._Visitor.{name}[all-but unconditional]", ok,
               "the flag is recorded on every visit" if ok else
               f"the flag is recorded only when {cond or 'an earlier return is not taken'}: '!log-variables !all-but' with an empty list loses it", mm.loc(c))
    # _populate_logly: listed -> not all_but ; unlisted -> all_but
    pl = sm.func("ModelSource._populate_logly")
    chk.saw(sm, "ModelSource._populate_logly")
    from .. import fin
    ps = params(pl)
    bad, n_cases = None, 0
    try:
        for all_but in (True, False, None, 0, 1, "", "x"):
            for listed in (("a", "b"), (), None, ["a"]):
                qs = [fin.FinObj(kind="V", human=h, logly="untouched") for h in ("a", "b", "c")] + [fin.FinObj(kind="P", human="a", logly="untouched")]
                env = {"self.quantities": qs, "QuantityKind.LOGGABLE_VARIABLE": ("V",), "self": "SELF"}
                fin.run_function(pl, {ps[1]: listed, ps[2]: all_but}, env=env)
                n_cases += 1
                for q in qs:
                    want = ((q.human in (listed or ())) != bool(all_but)) if q.kind == "V" else "untouched"
                    if q.logly != want and not (want != "untouched" and bool(q.logly) == want and isinstance(q.logly, bool)):
                        bad = (listed, all_but, q.human, q.kind, q.logly, want)
                        break
                if bad:
                    break
            if bad:
                break
        chk.ob("C04-R4", "sources.ModelSource._populate_logly", bad is None,
               f"{n_cases} cases (listed names x !all-but flag): a loggable variable is a log-variable iff (it is listed) != (!all-but present); other kinds untouched"
               if bad is None else f"log list {bad[0]}, all_but={bad[1]!r}: {bad[3]} quantity {bad[2]!r} gets logly={bad[4]!r} (want {bad[5]!r})", sm.loc(pl), sure=True)
    except fin.NotFinite as ex:
        chk.undecided("C04-R4", "sources.ModelSource._populate_logly", f"not evaluable: {ex}", sm.loc(pl))


def rule_r5(chk):
    chk.rule("C04-R5", "_shift_all_names adds `by` to each existing shift and drops the bracket iff the sum is 0 (finite "
             "evaluation of _replace over shifts x by); Token.print_xtring and _resolve_shift_str are inverse on [+k]/[-k]; "
             "Token.shifted adds", floor=20)
    m = chk.repo.mod(PMOD)
    f = m.func("_shift_all_names._replace")
    chk.saw(m, "_shift_all_names")
    for sh_txt in (None, "-1", "+2", "3", " -2 "):
        for by in (0, -1, 2, -3, None):
            old = int(sh_txt.replace(" ", "")) if sh_txt else 0
            k = old + (by or 0)
            want = f"nm[{k}]" if k else "nm"
            try:
                got = run_str_function(f, {"by": by}, funcs={"match.group": lambda i, s=sh_txt: {1: "nm", 2: s}[i],
                                                               "eval": lambda t: int(t.replace(" ", ""))})
                chk.ob("C04-R5", f"parsers._pseudofunctions._shift_all_names[{sh_txt!r}+{by}]", got == want,
                       f"name with shift {sh_txt!r} shifted by {by} -> {got!r} (expected {want!r})", m.loc(f))
            except NotAString as e:
                chk.undecided("C04-R5", f"parsers._pseudofunctions._shift_all_names[{sh_txt!r}+{by}]", str(e), m.loc(f))
    # Token printing
    im = chk.repo.mod("irispie.incidences.main")
    pt = literal(im.assign("_PRINT_TOKEN"))
    pz = literal(im.assign("_PRINT_ZERO_SHIFT_TOKEN"))
    chk.saw(im, "Token.print_xtring")
    for k in (-2, -1, 1, 3):
        s = pt.format(qid=7, shift=k)
        mm_ = re.fullmatch(r"x\[\((\d+),(.+)\)\]", s)
        ok = None
        if mm_:
            try:
                ok = mm_.group(1) == "7" and alg.equal(alg.parse_expr(mm_.group(2)), add(sym("t"), num(k)))
            except (Undecided, SyntaxError):
                ok = None
        chk.ob("C04-R5", f"incidences.main._PRINT_TOKEN[shift {k}]", ok, f"prints {s}: column index must be t{k:+d}", im.rel)
    s = pz.format(qid=7)
    chk.ob("C04-R5", "incidences.main._PRINT_ZERO_SHIFT_TOKEN", s == "x[(7,t)]", f"prints {s}", im.rel)
    f = im.func("Token.print_xtring")
    src = unparse(f).replace(" ", "")
    ok = "_PRINT_TOKEN.format(qid=self.qid,shift=self.shift)ifself.shiftelse_PRINT_ZERO_SHIFT_TOKEN.format(qid=self.qid)" in src
    chk.ob("C04-R5", "incidences.main.Token.print_xtring", ok, "shifted tokens use _PRINT_TOKEN, zero shift uses the zero-shift form", im.loc(f))
    f = im.func("Token.shifted")
    rets = [n for n in walk_no_nested(f) if isinstance(n, ast.Return)]
    ok = len(rets) == 1 and unparse(rets[0].value).replace(" ", "") in ("Token(self.qid,self.shift+by)", "Token(self.qid,by+self.shift)")
    chk.ob("C04-R5", "incidences.main.Token.shifted", ok, "Token(qid, shift+by)", im.loc(f))
    em = chk.repo.mod("irispie.equations")
    g = em.func("_resolve_shift_str")
    chk.saw(em, "_resolve_shift_str")
    for txt, want in ((None, 0), ("[-1]", -1), ("[+2]", 2), ("[3]", 3)):
        try:
            got = run_str_function(g, {params(g)[0]: txt})
            chk.ob("C04-R5", f"equations._resolve_shift_str[{txt}]", got == want, f"{txt!r} -> {got!r}", em.loc(g))
        except NotAString as e:
            chk.undecided("C04-R5", f"equations._resolve_shift_str[{txt}]", str(e), em.loc(g))
    # xtring_from_human: token = Token(name_to_id[group 1], shift from group 2), printed in place
    h = em.func("xtring_from_human._replace_human_with_x")
    src = unparse(h).replace(" ", "")
    ok = ("name=match.group(1)" in src and "qid=name_to_id[name]" in src and "shift=_resolve_shift_str(match.group(2))" in src
          and "new_token=Token(qid,shift)" in src and "returnnew_token.print_xtring()" in src)
    chk.ob("C04-R5", "equations.xtring_from_human._replace_human_with_x", ok,
           "each name occurrence is replaced by the token of (its qid, its own shift)", em.loc(h))


def rule_r7(chk):
    chk.rule("C04-R7", "which quantities can be log-variables is decided by one constant everywhere: the assignment of the log status "
             "(ModelSource._populate_logly), its validation (the log-variable name check in sources.py) and the qid->logly map "
             "(quantities.create_qid_to_logly) all test `kind in QuantityKind.LOGGABLE_VARIABLE`, and that constant is "
             "transition | measurement | exogenous variables", floor=4, shape_independent=True)
    sm = chk.repo.mod("irispie.sources")
    qm = chk.repo.mod("irispie.quantities")
    sites = []
    for mod in (sm, qm):
        for q, f in mod.functions():
            for n in ast.walk(f):
                if isinstance(n, ast.Compare) and len(n.ops) == 1 and isinstance(n.ops[0], (ast.In, ast.NotIn)) and unparse(n.left).endswith(".kind"):
                    k = dotted(n.comparators[0]) or ""
                    if k.split(".")[-1].endswith("_VARIABLE") and ("logly" in unparse(f).lower() or "log_" in q.lower() or "log" in q.lower()):
                        sites.append((mod, q, n, k.split(".")[-1]))
    for mod, q, n, k in sites:
        chk.saw(mod, q)
        chk.ob("C04-R7", f"{mod.name.replace('irispie.', '')}.{q}[kind filter]", k == "LOGGABLE_VARIABLE",
               f"tests kind against QuantityKind.{k}" + ("" if k == "LOGGABLE_VARIABLE" else " while the other sites use LOGGABLE_VARIABLE: the log status of the kinds "
                                                          "in the difference (exogenous variables) is validated but never assigned, or the reverse"), mod.loc(n), sure=True)
    if len(sites) < 3:
        raise AnalysisError(f"anchor vanished: only {len(sites)} log-status kind filters found")
    d = qm.class_attr("QuantityKind", "LOGGABLE_VARIABLE")
    parts = sorted(x.id for x in ast.walk(d) if isinstance(x, ast.Name)) if d is not None else []
    chk.ob("C04-R7", "quantities.QuantityKind.LOGGABLE_VARIABLE", parts == ["EXOGENOUS_VARIABLE", "MEASUREMENT_VARIABLE", "TRANSITION_VARIABLE"] if d is not None else None,
           f"LOGGABLE_VARIABLE = {unparse(d) if d is not None else '?'}", qm.loc(d) if d is not None else qm.rel, sure=True)


def rule_r8(chk, rid="C04-R8"):
    chk.rule(rid, "the three recognisers of a time shift agree: the tokenizer of the final equation text (quantities.QUANTITY_OCCURRENCE_PATTERN, "
             "applied after blanks are removed) fixes what a shift is; every signed integer it accepts, with blanks inserted anywhere, is also "
             "accepted inside the square brackets by the pseudofunction name shifter (_NAME_MAYBE_WITH_SHIFT) and inside the curly braces by "
             "standardize_time_shifts, and whatever standardize_time_shifts writes into square brackets is accepted by the name shifter - "
             "decided as language inclusions between the parsed patterns (a shift the shifter does not see is silently left unshifted)",
             floor=3, shape_independent=True)
    from .. import rx, rxlint
    rxlint.self_check()
    qm = chk.repo.mod("irispie.quantities")
    sm = chk.repo.mod("irispie.parsers._shifts")
    pm = chk.repo.mod(PMOD)
    def pat(mod, name):
        v = rxlint.module_strings(chk.repo, mod).get(name)
        if v is None:
            raise AnalysisError(f"anchor vanished: pattern {name} in {mod.name} is not a string built from constants")
        chk.saw(mod, "<module>")
        return v
    final = rx.parse(pat(qm, "QUANTITY_OCCURRENCE_PATTERN"))
    inner = rxlint.between(final, "[", "]")
    if inner is None:
        raise AnalysisError("anchor vanished: no [ ... ] in QUANTITY_OCCURRENCE_PATTERN")
    integers = rx.compile_regex(r"[+\-]?\d+")
    domain = rxlint.blank_insertion(rxlint.intersection(rxlint.sub_dfa(inner), integers))
    name_tree = rx.parse(pat(pm, "_NAME_MAYBE_WITH_SHIFT"))
    square = rxlint.between(name_tree, "[", "]")
    curly_tree = rx.parse(pat(sm, "_CURLY_TIME_SHIFT_PATTERN"))
    curly = rxlint.between(curly_tree, "{", "}")
    curly_group = rxlint.group_tree(curly_tree, 1)
    if square is None or curly is None or curly_group is None:
        raise AnalysisError("anchor vanished: bracketed shift in _NAME_MAYBE_WITH_SHIFT / _CURLY_TIME_SHIFT_PATTERN")
    sq = rxlint.sub_dfa(square)
    def nice_witness(a, b):
        # prefer a plain padded integer as the witness
        for w in (" -1 ", "-1 ", " -1", " +1 ", "+1", "-1", "- 1", "1 0"):
            if a.accepts(w) and not b.accepts(w):
                return w
        return rx.included(a, b)[1]
    ok, _ = rx.included(domain, sq)
    chk.ob(rid, "parsers._pseudofunctions._NAME_MAYBE_WITH_SHIFT[square-bracket shift]", ok,
           "accepts every blank-padded signed integer the final tokenizer accepts" if ok else
           f"does not accept the shift {nice_witness(domain, sq)!r} that the final tokenizer reads as an integer once blanks are removed: inside a pseudofunction "
           "the name keeps its bracket and is not shifted", pm.loc(pm.tree.body[0]), sure=True)
    cu = rxlint.sub_dfa(curly)
    ok, _ = rx.included(domain, cu)
    chk.ob(rid, "parsers._shifts._CURLY_TIME_SHIFT_PATTERN[curly shift]", ok,
           "accepts every blank-padded signed integer the final tokenizer accepts" if ok else
           f"does not accept the shift {nice_witness(domain, cu)!r} in curly braces", sm.loc(sm.tree.body[0]), sure=True)
    cg = rxlint.sub_dfa(curly_group)
    ok, w = rx.included(cg, sq)
    chk.ob(rid, "parsers._shifts.standardize_time_shifts[output accepted downstream]", ok,
           "what is written into square brackets is a shift for the name shifter" if ok else f"writes [{w}] which the name shifter does not recognise",
           sm.loc(sm.tree.body[0]), sure=True)


def rule_r9(chk, rid="C04-R9"):
    chk.rule(rid, "no pattern of the front end (parsers, sources, quantities, equations) has a greedy unbounded repeat of a wide atom (., a negated "
             "set) directly followed by a closing literal or backreference the atom also matches: under sub/search semantics such a span "
             "runs to the LAST closer and swallows the text between two separate spans (block comments, brackets); the lazy form stops at "
             "the first", floor=15, shape_independent=True)
    from .. import rx, rxlint
    n_ex = rxlint.self_check()
    n = 0
    for m in chk.repo.modules.values():
        top = m.name.split(".")[1] if "." in m.name else m.name
        if top not in ("parsers", "sources", "quantities", "equations"):
            continue
        short = m.name.replace("irispie.", "")
        for name, s_, flags, node in rxlint.patterns(chk.repo, m):
            try:
                tree = rx.parse(s_)
            except AnalysisError:
                continue
            n += 1
            spans = rxlint.greedy_spans(tree, dotall="DOTALL" in flags or "(?s" in s_)
            key = f"{short}.{name or 'pattern@' + (chk_function_name(m, node) or 'module')}"
            if spans:
                chk.bad(rid, key, f"{s_!r}: {spans[0]}; two separate spans are merged into one match", m.loc(node))
            else:
                chk.ok(rid, key, f"{s_[:60]!r}: no greedy span over its own closer", m.loc(node))
    chk.ok(rid, "self-check", f"{n_ex} embedded examples classified as expected; {n} patterns parsed", "")


def chk_function_name(m, node):
    for q, f in m.functions():
        if f.lineno <= node.lineno <= (f.end_lineno or f.lineno):
            return q
    return None


def run(chk):
    chk.guard(rule_r8, chk)
    chk.guard(rule_r9, chk)
    chk.guard(rule_r1_r3, chk)
    chk.guard(rule_r2, chk)
    chk.guard(rule_r4, chk)
    chk.guard(rule_r5, chk)
    chk.guard(rule_r7, chk)
    from .. import unused as _unused
    chk.guard(_unused.apply, chk, "C04-R91")
    from .. import args as _args
    chk.guard(_args.apply, chk, "C04-R90", {'equations', 'parsers', 'sources'}, 1)
    chk.assumptions = [
        "_shift_all_names is modelled on identifiers with optional [k]; its regex on arbitrary text is not decided",
        "regex behaviour on arbitrary nestings, Jinja, !for/!if expansion and substitution ordering are run-time text processing",
        "parsimonious parses the grammar as written",
    ]

"""
C20 — copies, pickles, variants and the portable form are independent, equivalent models.

  R1  copy coverage: every slot a method reads is assigned by copy(); slots shared by reference are never
      mutated after construction
  R2  new parameter variants are copies
  R3  pickle: slots == serialized + derived; getstate/setstate iterate the serialized tuple; every derived slot is
      rebuilt; exec-generated / local callables are never part of pickled state
  R4  portable: writer tuples and reader unpacks agree position by position and join<->split; kind code tables are
      injective; every key written is read and reaches a consumer
"""
from __future__ import annotations

import ast

from ..core import AnalysisError, dotted, unparse, params, all_params, walk_no_nested, strip_docstring, literal


def _slots(mod, cls):
    v = mod.class_attr(cls, "__slots__")
    if isinstance(v, (ast.Tuple, ast.List)):
        return [literal(e) for e in v.elts]
    if isinstance(v, ast.BinOp) and isinstance(v.op, ast.Add):
        out = []
        for side in (v.left, v.right):
            t = mod.class_attr(cls, side.id)
            out += [literal(e) for e in t.elts]
        return out
    raise AnalysisError(f"{mod.name}:{cls}.__slots__ not a literal")


def _self_loads(f, selfname="self"):
    return {n.attr for n in ast.walk(f) if isinstance(n, ast.Attribute) and isinstance(n.value, ast.Name) and n.value.id == selfname
            and isinstance(n.ctx, ast.Load)}


def _copy_facts(mod, cls, slots):
    """slot -> 'copied' | 'shared' | missing, from the body of copy()"""
    f = mod.func(f"{cls}.copy")
    rets = [n for n in walk_no_nested(f) if isinstance(n, ast.Return)]
    if len(rets) == 1 and isinstance(rets[0].value, ast.Call) and dotted(rets[0].value.func) in ("_cp.deepcopy", "_co.deepcopy", "copy.deepcopy"):
        return f, {s: "copied" for s in slots}, "deepcopy"
    facts = {}
    newname = None
    for n in walk_no_nested(f):
        if isinstance(n, ast.Assign) and isinstance(n.targets[0], ast.Name) and isinstance(n.value, ast.Call) \
                and unparse(n.value.func) in ("type(self)", "klass", cls):
            newname = n.targets[0].id
    if newname is None:
        raise AnalysisError(f"{mod.name}:{cls}.copy does not create `new = type(self)()`")

    def classify(value):
        src = unparse(value)
        if isinstance(value, ast.Call) and isinstance(value.func, ast.Attribute) and value.func.attr in ("copy", "deepcopy"):
            return "copied"
        if isinstance(value, ast.Call) and dotted(value.func) in ("_cp.deepcopy", "_co.deepcopy", "copy.deepcopy", "list", "dict", "tuple"):
            return "copied"
        if isinstance(value, ast.ListComp) and isinstance(value.elt, ast.Call) and isinstance(value.elt.func, ast.Attribute) and value.elt.func.attr == "copy":
            return "copied"
        return "shared"
    for n in ast.walk(f):
        if isinstance(n, ast.Assign) and isinstance(n.targets[0], ast.Attribute) and isinstance(n.targets[0].value, ast.Name) \
                and n.targets[0].value.id == newname:
            s = n.targets[0].attr
            c = classify(n.value)
            # `if flag: new.x = self.x.copy() else: new.x = self.x` -> the default branch decides; record best
            facts[s] = "copied" if c == "copied" or facts.get(s) == "copied" else c
        if isinstance(n, ast.For) and isinstance(n.iter, (ast.Tuple, ast.List, ast.Attribute)):
            names = [literal(e) for e in n.iter.elts] if isinstance(n.iter, (ast.Tuple, ast.List)) else (slots if unparse(n.iter) == "self.__slots__" else [])
            sets = [c for c in ast.walk(n) if isinstance(c, ast.Call) and dotted(c.func) == "setattr" and len(c.args) == 3 and unparse(c.args[0]) == newname]
            for c in sets:
                for s in names:
                    facts[s] = classify(c.args[2])
    return f, facts, "custom"


COPY_CLASSES = [
    ("irispie.simultaneous._variants", "Variant"),
    ("irispie.red_vars._variants", "System"),
    ("irispie.red_vars._variants", "Variant"),
    ("irispie.dataslates._variants", "Variant"),
    ("irispie.simultaneous.main", "Simultaneous"),
    ("irispie.red_vars.main", "RedVAR"),
    ("irispie.dataslates.main", "Dataslate"),
    ("irispie.sequentials.main", "Sequential"),
    ("irispie.sequentials._variants", "Variant"),
    ("irispie.simultaneous._invariants", "Invariant"),
    ("irispie.dataslates._invariants", "Invariant"),
]

# slots whose values are immutable by construction (tuples of periods, numbers) — sharing them is not aliasing
IMMUTABLE = {
    ("irispie.red_vars._variants", "Variant", "fitted_periods"): "tuple of periods",
    ("irispie.red_vars._variants", "Variant", "_eigenvalues"): "tuple of numbers (cache)",
    ("irispie.red_vars._variants", "Variant", "_max_abs_eigenvalue"): "number (cache)",
    ("irispie.red_vars._variants", "Variant", "_companion_T"): "cache derived from system.A; rebuilt on demand, never written in place",
}


def _class_method_nodes(repo, modname, cls):
    """methods of the class and of Inlay/Mixin bases resolvable through import aliases"""
    mod = repo.mod(modname)
    out = []
    seen = set()

    def rec(m, c):
        if (m.name, c) in seen:
            return
        seen.add((m.name, c))
        cd = m.cls(c)
        for st in cd.body:
            if isinstance(st, (ast.FunctionDef, ast.AsyncFunctionDef)):
                out.append((m, f"{c}.{st.name}", st))
        for b in cd.bases:
            d = dotted(b)
            if not d:
                continue
            parts = d.split(".")
            if len(parts) == 1:
                if m.has(parts[0]):
                    rec(m, parts[0])
                else:
                    tgt = m.aliases.get(parts[0])
                    if tgt and tgt.rsplit(".", 1)[0] in repo.modules:
                        rec(repo.modules[tgt.rsplit(".", 1)[0]], tgt.rsplit(".", 1)[1])
            else:
                tgt = m.aliases.get(parts[0])
                if tgt and tgt in repo.modules and repo.modules[tgt].has(parts[1]):
                    rec(repo.modules[tgt], parts[1])
    rec(mod, cls)
    # inlay decorators: def inlay(klass): klass.m = f  -> module functions taking self
    return out


_FOREIGN = {}


def _foreign_attr_loads(repo):
    """attribute names loaded from objects other than self/new anywhere in the package"""
    key = id(repo)
    if key not in _FOREIGN:
        out = set()
        for mm in repo.modules.values():
            for n in ast.walk(mm.tree):
                if isinstance(n, ast.Attribute) and isinstance(n.ctx, ast.Load) and not (isinstance(n.value, ast.Name) and n.value.id in ("self", "new")):
                    out.add(n.attr)
        _FOREIGN[key] = out
    return _FOREIGN[key]


def rule_r1(chk):
    chk.rule("C20-R1", "for each model/variant class: slots read by any method are assigned by copy() (or copy is deepcopy); a slot that "
             "copy() shares by reference is immutable by construction or is never mutated through the owner after construction", floor=20)
    for modname, cls in COPY_CLASSES:
        mod = chk.repo.mod(modname)
        slots = _slots(mod, cls)
        f, facts, kind = _copy_facts(mod, cls, slots)
        chk.saw(mod, f"{cls}.copy")
        short = modname.replace("irispie.", "")
        if kind == "deepcopy":
            chk.ok("C20-R1", f"{short}.{cls}.copy", f"deepcopy of the whole object ({len(slots)} slots)", mod.loc(f))
            continue
        meths = _class_method_nodes(chk.repo, modname, cls)
        read = set()
        for m2, q, node in meths:
            if q.endswith(".copy") or q.endswith(".__init__"):
                continue
            read |= _self_loads(node) & set(slots)
        # a slot is also "read" when any code in the package loads an attribute of that name from some object
        read |= {a for a in slots if a in _foreign_attr_loads(chk.repo) and not a.startswith("__")}
        for s in slots:
            st = facts.get(s)
            construct = f"{short}.{cls}.copy[{s}]"
            if st is None:
                if s in read:
                    chk.bad("C20-R1", construct, f"slot {s!r} is read by methods but copy() never assigns it (the copy gets the constructor default)", mod.loc(f))
                else:
                    chk.ok("C20-R1", construct, f"slot {s!r} is not assigned by copy() and no method reads it", mod.loc(f))
                continue
            if st == "copied":
                chk.ok("C20-R1", construct, "assigned from a copy", mod.loc(f))
                continue
            # shared by reference
            why = IMMUTABLE.get((modname, cls, s))
            if why:
                chk.ok("C20-R1", construct, f"shared by reference; immutable: {why}", mod.loc(f))
                continue
            # look for mutation through the owner
            muts = []
            for m2, q, node in meths:
                if q.endswith(".__init__") or q.endswith(".copy") or q.endswith(".skeleton"):
                    continue
                for n in ast.walk(node):
                    ts = n.targets if isinstance(n, ast.Assign) else [n.target] if isinstance(n, ast.AugAssign) else []
                    for t in ts:
                        b, depth = t, 0
                        while isinstance(b, (ast.Attribute, ast.Subscript)):
                            if isinstance(b, ast.Attribute) and isinstance(b.value, ast.Attribute) and isinstance(b.value.value, ast.Name) \
                                    and b.value.value.id == "self" and b.value.attr == s:
                                muts.append(f"{q}: {unparse(t)}")
                            b = b.value
                    if isinstance(n, ast.Call) and isinstance(n.func, ast.Attribute) and isinstance(n.func.value, ast.Attribute) \
                            and unparse(n.func.value) == f"self.{s}" and n.func.attr.startswith(("set_", "update", "assign", "add_", "remove", "rename", "reset", "append", "extend", "pop", "clear")):
                        muts.append(f"{q}: {unparse(n.func)}()")
            chk.ob("C20-R1", construct, not muts,
                   "shared by reference and never mutated through the owner" if not muts else
                   f"shared by reference between copy and original, but mutated through the owner: {muts[:3]}", mod.loc(f), facts={"mutations": muts})


def rule_r2(chk):
    chk.rule("C20-R2", "has_variants.Mixin.expand_num_variants appends copies of the last variant; shrink only drops", floor=2)
    m = chk.repo.mod("irispie.has_variants")
    f = m.func("Mixin.expand_num_variants")
    chk.saw(m, "Mixin.expand_num_variants")
    apps = [n for n in ast.walk(f) if isinstance(n, ast.Call) and unparse(n.func) == "self._variants.append"]
    ok = len(apps) == 1 and unparse(apps[0].args[0]).replace(" ", "") == "self._variants[-1].copy()"
    chk.ob("C20-R2", "has_variants.Mixin.expand_num_variants", ok, f"appends {unparse(apps[0].args[0]) if apps else '?'}", m.loc(f))
    g = m.func("Mixin.shrink_num_variants")
    from .. import fin
    bad = None
    try:
        for have in (1, 2, 3, 5):
            for new_num in (1, 2, 3, 5, 7):
                final = {}
                env = {"self": "SELF", "self._variants": list(range(have)), "self.num_variants": have}
                try:
                    fin.run_function(g, {params(g)[1]: new_num}, env=env, final_env=final, funcs={"Exception": Exception, "ValueError": ValueError})
                except fin.Raised:
                    bad = (have, new_num, "raises", None)
                    break
                want = list(range(min(have, new_num)))
                if list(final.get("self._variants", env["self._variants"])) != want:
                    bad = (have, new_num, list(final.get("self._variants")), want)
                    break
            if bad:
                break
        chk.ob("C20-R2", "has_variants.Mixin.shrink_num_variants", bad is None,
               "keeps the first new_num variants and nothing else (20 cases: 1..5 variants x requested 1..7)" if bad is None else
               f"{bad[0]} variants, shrink to {bad[1]}: {bad[2]} (want the variants {bad[3]})", m.loc(g), sure=True)
    except fin.NotFinite as ex:
        chk.undecided("C20-R2", "has_variants.Mixin.shrink_num_variants", f"not evaluable: {ex}", m.loc(g))
    sm = chk.repo.mod("irispie.simultaneous.main")
    for q in ("Simultaneous.__getstate__", "Simultaneous.__setstate__"):
        h = sm.func(q)
        keys = {n.value for n in ast.walk(h) if isinstance(n, ast.Constant) and isinstance(n.value, str) and n.value.startswith("_")}
        chk.ob("C20-R2", f"simultaneous.main.{q}", keys == set(_slots(sm, "Simultaneous")), f"state keys {sorted(keys)} == slots", sm.loc(h))


def _callable_attr_sites(repo):
    """(module, class, attr, node, how) for attributes bound to exec-generated or local functions"""
    out = []
    for mod in repo.modules.values():
        for q, f in mod.functions():
            local_funcs = {n.name for n in ast.walk(f) if isinstance(n, ast.FunctionDef) and n is not f}
            mf_locals = set()
            for n in walk_no_nested(f):
                if isinstance(n, ast.Assign) and isinstance(n.value, ast.Call) and dotted(n.value.func) and dotted(n.value.func).endswith("make_function"):
                    t = n.targets[0]
                    first = t.elts[0] if isinstance(t, ast.Tuple) else t
                    if isinstance(first, ast.Attribute) and isinstance(first.value, ast.Name) and first.value.id == "self":
                        out.append((mod, q, first.attr, n, "make_function"))
                    elif isinstance(first, ast.Name):
                        mf_locals.add(first.id)
            for n in walk_no_nested(f):
                if isinstance(n, ast.Assign) and isinstance(n.targets[0], ast.Attribute) and isinstance(n.targets[0].value, ast.Name) \
                        and n.targets[0].value.id == "self" and isinstance(n.value, (ast.Name, ast.Lambda)):
                    if isinstance(n.value, ast.Lambda) or n.value.id in local_funcs or n.value.id in mf_locals:
                        out.append((mod, q, n.targets[0].attr, n, "local function / closure"))
    return out


def rule_r3(chk):
    chk.rule("C20-R3", "pickle discipline: Invariant/PlainEquator slots == serialized + derived, getstate and setstate iterate the same "
             "serialized tuple, every derived slot is (transitively) assigned by the rebuild called from setstate; an attribute bound to "
             "an exec-generated or local function belongs to a class whose getstate omits it and whose setstate rebuilds it", floor=10)
    # --- Invariant
    im = chk.repo.mod("irispie.simultaneous._invariants")
    ser = [literal(e) for e in im.class_attr("Invariant", "_serialized_slots").elts]
    der = [literal(e) for e in im.class_attr("Invariant", "_derived_slots").elts]
    sl = im.class_attr("Invariant", "__slots__")
    ok = unparse(sl).replace(" ", "") in ("_serialized_slots+_derived_slots", "_derived_slots+_serialized_slots") and not (set(ser) & set(der))
    chk.ob("C20-R3", "simultaneous._invariants.Invariant.__slots__", ok, f"{len(ser)} serialized + {len(der)} derived, disjoint", im.loc(sl))
    gs, ss = im.func("Invariant.__getstate__"), im.func("Invariant.__setstate__")
    chk.saw(im, "Invariant.__getstate__"); chk.saw(im, "Invariant.__setstate__")
    ok = "forkinself._serialized_slots" in unparse(gs).replace(" ", "") and "getattr(self,k)" in unparse(gs).replace(" ", "")
    chk.ob("C20-R3", "simultaneous._invariants.Invariant.__getstate__", ok, "state = {k: getattr(self, k) for k in _serialized_slots}", im.loc(gs))
    src = unparse(ss).replace(" ", "")
    ok = "forkinself._serialized_slots:" in src and "setattr(self,k,state[k])" in src and src.rstrip().endswith("self._populate_derived_attributes()")
    chk.ob("C20-R3", "simultaneous._invariants.Invariant.__setstate__", ok, "restores the serialized slots, then rebuilds the derived ones", im.loc(ss))
    _restore_is_verbatim(chk, im, "Invariant", ss, ser)
    # derived slots assigned transitively
    pd = im.func("Invariant._populate_derived_attributes")
    chk.saw(im, "Invariant._populate_derived_attributes")
    assigned = set()
    work, seen = [pd], set()
    while work:
        fn = work.pop()
        if id(fn) in seen:
            continue
        seen.add(id(fn))
        for n in ast.walk(fn):
            if isinstance(n, (ast.Assign, ast.AugAssign)):
                for t in (n.targets if isinstance(n, ast.Assign) else [n.target]):
                    for x in ast.walk(t):
                        if isinstance(x, ast.Attribute) and isinstance(x.value, ast.Name) and x.value.id == "self":
                            assigned.add(x.attr)
            if isinstance(n, ast.Call):
                d = dotted(n.func)
                if d and im.has(d) and any(unparse(a) == "self" for a in n.args):
                    work.append(im.func(d))
                if d and d.startswith("self.") and im.has("Invariant." + d[5:]):
                    work.append(im.func("Invariant." + d[5:]))
    for s in der:
        chk.ob("C20-R3", f"simultaneous._invariants.Invariant[derived {s}]", s in assigned,
               "rebuilt by _populate_derived_attributes" if s in assigned else "derived slot is never rebuilt after unpickling", im.loc(pd))
    # from_source must also build derived slots through the same routine
    fs = im.func("Invariant.from_source")
    ok = any(isinstance(n, ast.Call) and unparse(n.func) == "self._populate_derived_attributes" for n in ast.walk(fs))
    chk.ob("C20-R3", "simultaneous._invariants.Invariant.from_source[derived]", ok, "construction and unpickling share the rebuild routine", im.loc(fs))
    # --- PlainEquator
    pm = chk.repo.mod("irispie.equators.plain")
    st = [literal(e) for e in pm.class_attr("PlainEquator", "_state_slots").elts]
    ns = [literal(e) for e in pm.class_attr("PlainEquator", "_nonstate_slots").elts]
    ok = unparse(pm.class_attr("PlainEquator", "__slots__")).replace(" ", "") == "_state_slots+_nonstate_slots"
    chk.ob("C20-R3", "equators.plain.PlainEquator.__slots__", ok, f"{len(st)} state + {len(ns)} non-state", pm.rel)
    gs, ss = pm.func("PlainEquator.__getstate__"), pm.func("PlainEquator.__setstate__")
    chk.saw(pm, "PlainEquator.__getstate__"); chk.saw(pm, "PlainEquator.__setstate__")
    ok = "forkinself._state_slots" in unparse(gs).replace(" ", "")
    chk.ob("C20-R3", "equators.plain.PlainEquator.__getstate__", ok, "pickles exactly the state slots", pm.loc(gs))
    src = unparse(ss).replace(" ", "")
    ok = "forninself._state_slots:" in src and "setattr(self,n,state[n])" in src and "self._create_function()" in src
    chk.ob("C20-R3", "equators.plain.PlainEquator.__setstate__", ok, "restores state slots and recreates the function", pm.loc(ss))
    _restore_is_verbatim(chk, pm, "PlainEquator", ss, st)
    cf = pm.func("PlainEquator._create_function")
    rebuilt = {x.attr for n in ast.walk(cf) if isinstance(n, ast.Assign) for t in n.targets for x in ast.walk(t)
               if isinstance(x, ast.Attribute) and isinstance(x.value, ast.Name) and x.value.id == "self"}
    for s in ns:
        chk.ob("C20-R3", f"equators.plain.PlainEquator[non-state {s}]", s in rebuilt, "recreated by _create_function", pm.loc(cf))
    # --- callables
    sites = _callable_attr_sites(chk.repo)
    if len(sites) < 3:
        raise AnalysisError(f"anchor vanished: only {len(sites)} attributes bound to generated callables found")
    checked = set()
    for mod, q, attr, node, how in sites:
        cls = q.split(".")[0] if "." in q else None
        owner = None
        if cls and mod.has(cls) and isinstance(mod._lookup(cls), ast.ClassDef):
            owner = (mod, cls)
        elif q == "_populate_steady_autovalue_updater":
            owner = (im, "Invariant")
        if owner is None:
            chk.note(f"{mod.rel}:{q} binds self.{attr} to a generated callable; owner class not resolved")
            continue
        om, oc = owner
        key = (om.name, oc, attr)
        if key in checked:
            continue
        checked.add(key)
        short = om.name.replace("irispie.", "")
        has_gs = om.has(f"{oc}.__getstate__") and om.has(f"{oc}.__setstate__")
        if not has_gs:
            # is the class ever part of a pickled model? SimpleNamespace-like helpers are not; model parts are
            chk.bad("C20-R3", f"{short}.{oc}.{attr}[callable in pickled state]",
                    f"self.{attr} is bound to a {how} (pickle cannot serialise it by reference) and {oc} defines no __getstate__/__setstate__", mod.loc(node))
            continue
        if (om.name, oc) == ("irispie.simultaneous._invariants", "Invariant"):
            omitted = attr in der
        elif (om.name, oc) == ("irispie.equators.plain", "PlainEquator"):
            omitted = attr in ns
        else:
            gsrc = unparse(om.func(f"{oc}.__getstate__"))
            omitted = f'"{attr}"' in gsrc or f"'{attr}'" in gsrc
            omitted = omitted and ("None" in gsrc or "pop" in gsrc or "del" in gsrc or "not in" in gsrc or "!=" in gsrc)
            ssn = om.func(f"{oc}.__setstate__")
            rebuilt = any(isinstance(x, ast.Attribute) and isinstance(x.value, ast.Name) and x.value.id == "self" and x.attr == attr
                          for n in ast.walk(ssn) if isinstance(n, ast.Assign) for t in n.targets for x in ast.walk(t))
            omitted = omitted and rebuilt
        chk.ob("C20-R3", f"{short}.{oc}.{attr}[callable in pickled state]", omitted,
               f"{how}; omitted by __getstate__ and rebuilt by __setstate__" if omitted else f"{how} is part of the pickled state", mod.loc(node))


def _restore_is_verbatim(chk, mod, cls, setstate, serialized):
    """after the restore loop, a serialized slot is not overwritten - except by a merge in which the restored value wins"""
    short = mod.name.replace("irispie.", "")
    stores = []
    for n in ast.walk(setstate):
        ts = n.targets if isinstance(n, ast.Assign) else [n.target] if isinstance(n, ast.AugAssign) else []
        for t in ts:
            if isinstance(t, ast.Attribute) and isinstance(t.value, ast.Name) and t.value.id == "self" and t.attr in serialized:
                stores.append((t.attr, n))
    verdict, detail = True, f"no serialized slot of {cls} is re-assigned after it was restored from the state"
    for attr, n in stores:
        v = n.value
        me = f"self.{attr}"

        def is_me(x):
            return unparse(x) == me or (isinstance(x, ast.BoolOp) and isinstance(x.op, ast.Or) and unparse(x.values[0]) == me)
        if isinstance(n, ast.Assign) and isinstance(v, ast.BinOp) and isinstance(v.op, ast.BitOr) and is_me(v.right) and not is_me(v.left):
            continue                          # defaults | restored: restored keys win
        if isinstance(n, ast.Assign) and isinstance(v, ast.Dict) and v.keys and v.keys[-1] is None and is_me(v.values[-1]):
            continue                          # {**defaults, **restored}
        if isinstance(n, ast.Assign) and isinstance(v, ast.BinOp) and isinstance(v.op, ast.BitOr) and is_me(v.left):
            verdict, detail = False, (f"line {n.lineno}: {unparse(n)[:90]} - in a dict merge the RIGHT operand wins, so the restored {attr} is "
                                      "overwritten by the other operand (a copy/unpickled model silently loses its own settings)")
            break
        verdict, detail = None, f"line {n.lineno}: serialized slot {attr} is re-assigned in __setstate__: {unparse(n)[:80]}"
    chk.ob("C20-R3", f"{short}.{cls}.__setstate__[restore is verbatim]", verdict, detail, mod.loc(setstate))


def _written_keys(mod, f):
    """string keys of the dictionary a to_portable-like function returns: a dict literal, a dict assembled by subscript stores on the
    returned local, or (by finite evaluation with the module constants) a comprehension"""
    rets = [n.value for n in walk_no_nested(f) if isinstance(n, ast.Return) and n.value is not None]
    if len(rets) != 1:
        raise AnalysisError(f"{f.name}: {len(rets)} return statements")
    r = rets[0]
    if isinstance(r, ast.Dict) and all(isinstance(k, ast.Constant) for k in r.keys):
        return [k.value for k in r.keys]
    if isinstance(r, ast.Name):
        keys = [n.targets[0].slice.value for n in walk_no_nested(f) if isinstance(n, ast.Assign) and isinstance(n.targets[0], ast.Subscript)
                and isinstance(n.targets[0].value, ast.Name) and n.targets[0].value.id == r.id and isinstance(n.targets[0].slice, ast.Constant)]
        lit = [n.value for n in walk_no_nested(f) if isinstance(n, ast.Assign) and isinstance(n.targets[0], ast.Name) and n.targets[0].id == r.id and isinstance(n.value, ast.Dict)]
        keys = [k.value for d in lit for k in d.keys if isinstance(k, ast.Constant)] + keys
        if keys:
            return keys
    raise AnalysisError(f"{f.name}: the keys of the returned dictionary are not recognised")


def _read_keys(repo, mod, f, pname, depth=2):
    """constant keys read from the parameter `pname` in f, and in module-level helpers the whole parameter is handed to"""
    out = {n.slice.value for n in ast.walk(f) if isinstance(n, ast.Subscript) and isinstance(n.value, ast.Name) and n.value.id == pname and isinstance(n.slice, ast.Constant)}
    out |= {n.args[0].value for n in ast.walk(f) if isinstance(n, ast.Call) and isinstance(n.func, ast.Attribute) and n.func.attr in ("get", "pop")
            and isinstance(n.func.value, ast.Name) and n.func.value.id == pname and n.args and isinstance(n.args[0], ast.Constant)}
    if depth:
        for c in ast.walk(f):
            if isinstance(c, ast.Call) and isinstance(c.func, ast.Name) and mod.has(c.func.id):
                g = mod.func(c.func.id)
                for i, a in enumerate(c.args):
                    if isinstance(a, ast.Name) and a.id == pname and i < len(params(g)):
                        out |= _read_keys(repo, mod, g, params(g)[i], depth - 1)
    return out


def rule_r4(chk):
    chk.rule("C20-R4", "portable form: Quantity/Equation tuples agree with from_portable position by position; a field written with "
             "' '.join is read back with .split(' '); joined fields cannot be None; kind code tables are injective; every key the "
             "invariant writes is read, and values forwarded with ** reach a parameter or kwargs.get key of the callee; quantities/"
             "equations generated by from_source are not exported as if they were source", floor=12)
    for modname, cls in (("irispie.quantities", "Quantity"), ("irispie.equations", "Equation")):
        m = chk.repo.mod(modname)
        short = modname.replace("irispie.", "")
        tp, fp = m.func(f"{cls}.to_portable"), m.func(f"{cls}.from_portable")
        chk.saw(m, f"{cls}.to_portable"); chk.saw(m, f"{cls}.from_portable")
        ret = [n for n in walk_no_nested(tp) if isinstance(n, ast.Return)][0].value
        unp = [n for n in walk_no_nested(fp) if isinstance(n, ast.Assign) and isinstance(n.targets[0], ast.Tuple) and unparse(n.value) == params(fp)[1]]
        if not isinstance(ret, ast.Tuple) or len(unp) != 1:
            raise AnalysisError(f"{modname}:{cls} portable tuple not recognised")
        names = [e.id for e in unp[0].targets[0].elts]
        chk.ob("C20-R4", f"{short}.{cls}[arity]", len(ret.elts) == len(names), f"writes {len(ret.elts)} fields, reads {len(names)}", m.loc(tp))
        fsrc = unparse(fp)
        for i, (e, nm) in enumerate(zip(ret.elts, names)):
            w = unparse(e)
            field = None
            for cand in ("kind", "human", "logly", "description", "attributes"):
                if f"self.{cand}" in w or (cand == "human" and "complement.human" in w and "self.human" in w):
                    field = cand
                    break
            if "complement.human" in w:
                field = "complement_human"
            okname = field is None or nm == field or nm.replace("_", "") == field.replace("_", "")
            chk.ob("C20-R4", f"{short}.{cls}[position {i}]", okname, f"position {i}: writes {w} ; read as {nm!r}", m.loc(tp))
            if "join(" in w:
                sep = w.split(".join(")[0]
                # how the reader uses the name
                uses = [unparse(n) for n in ast.walk(fp) if isinstance(n, ast.keyword) and nm in {x.id for x in ast.walk(n.value) if isinstance(x, ast.Name)}]
                ok = all(f"{nm}.split({sep}" in u.replace(", )", ")").replace(",)", ")") for u in uses) and bool(uses)
                chk.ob("C20-R4", f"{short}.{cls}[{nm} join/split]", ok,
                       f"written with {sep}.join; read with {uses}", m.loc(fp))
                # None safety of the joined field
                fld = w.split(".join(")[1].rstrip(") ,")
                guarded = " or " in fld or "if " in w
                # dataclass default of the field
                dflt = None
                for st in m.cls(cls).body:
                    if isinstance(st, ast.AnnAssign) and isinstance(st.target, ast.Name) and f"self.{st.target.id}" == fld.strip():
                        dflt = unparse(st.value) if st.value is not None else None
                omit_sites = []
                if dflt == "None" and not guarded:
                    attrname = fld.strip().split(".")[-1]
                    for mm in chk.repo.modules.values():
                        for n in ast.walk(mm.tree):
                            if isinstance(n, ast.Call) and dotted(n.func) in (cls, f"_quantities.{cls}", f"_equations.{cls}") and n.keywords \
                                    and not any(k.arg == attrname for k in n.keywords) and not any(k.arg is None for k in n.keywords):
                                omit_sites.append(mm.loc(n))
                chk.ob("C20-R4", f"{short}.{cls}[{nm} None-safe]", not omit_sites,
                       f"{fld} defaults to None and is joined unconditionally; constructed without it at {omit_sites[:3]} (TypeError in to_portable)"
                       if omit_sites else "joined field is never None", m.loc(tp))
        # round trip by finite evaluation: from_portable(to_portable(x)) constructs x again, field by field - with the values the fields
        # really take (log status is TRI-state: None = not loggable, False, True; descriptions may be empty; several attributes)
        from .. import fin
        import itertools as _it2

        class _K(fin.FinObj):
            def __init__(self):
                super().__init__(made=[])
            def __call__(self, **kw):
                self.made.append(kw)
                return fin.FinObj(**kw)
        kind_of = {"KIND_A": "#a", "KIND_B": "#b"}
        funcs = {f"{cls}Kind.from_portable": lambda c: {v: k for k, v in kind_of.items()}[c], "str": str, "bool": bool}
        bad = None
        n_rt = 0
        try:
            for kind, human, logly, desc, attrs in _it2.product(kind_of, ("x", "a + b = c"), (None, False, True), ("", "some text"), ({"one"}, {"a", "b"})):
                fields = dict(kind=fin.FinObj(to_portable=lambda k=kind: kind_of[k]), human=human, description=desc, attributes=set(attrs))
                if cls == "Quantity":
                    fields["logly"] = logly
                elif logly is not None:
                    continue
                me = fin.FinObj(**fields)
                args = {params(tp)[0]: me}
                other_human = human + " !!" if cls == "Equation" and desc else human
                if cls == "Equation":
                    args[params(tp)[1]] = fin.FinObj(**dict(fields, human=other_human))
                portable = fin.run_function(tp, args, funcs)
                k = _K()
                fin.run_function(fp, {params(fp)[0]: k, params(fp)[1]: portable}, dict(funcs, **{params(fp)[0]: k}))
                n_rt += 1
                want = [dict(fields, kind=kind)] + ([dict(fields, kind=kind, human=other_human)] if cls == "Equation" else [])
                got = k.made
                for w_, g_ in zip(want, got):
                    diff = [(fld, w_[fld], g_.get(fld, "<missing>")) for fld in w_ if g_.get(fld, "<missing>") is not w_[fld] and (g_.get(fld, "<missing>") != w_[fld]
                            or type(g_.get(fld)) is not type(w_[fld]))]
                    if diff:
                        fld, a_, b_ = diff[0]
                        bad = f"{cls}({', '.join(f'{x}={y!r}' for x, y in w_.items() if x != 'kind')}) comes back with {fld}={b_!r} instead of {a_!r}"
                        break
                if len(got) != len(want):
                    bad = f"from_portable constructs {len(got)} object(s), expected {len(want)}"
                if bad:
                    break
        except (fin.NotFinite, fin.Raised, TypeError, AttributeError, KeyError, ValueError) as ex:
            chk.undecided("C20-R4", f"{short}.{cls}[round trip]", f"not finitely evaluable: {type(ex).__name__}: {ex}", m.loc(fp))
        else:
            chk.ob("C20-R4", f"{short}.{cls}[round trip]", bad is None, bad or f"{n_rt} objects (tri-state log status, empty and non-empty descriptions, one and two attributes) "
                   "are reconstructed field by field, with the same types", m.loc(fp), sure=True)
        # kind tables
        tab = m.assign("_TO_PORTABLES")
        codes = [literal(v) for v in tab.values]
        chk.ob("C20-R4", f"{short}._TO_PORTABLES[injective]", len(set(codes)) == len(codes), f"codes {codes}", m.loc(tab))
        inv = m.assign("_FROM_PORTABLES")
        ok = unparse(inv).replace(" ", "") == "{v:kfork,vin_TO_PORTABLES.items()}"
        chk.ob("C20-R4", f"{short}._FROM_PORTABLES", ok, "inverse of _TO_PORTABLES", m.loc(inv))
    # invariant keys
    im = chk.repo.mod("irispie.simultaneous._invariants")
    tp, fp = im.func("Invariant.to_portable"), im.func("Invariant.from_portable")
    chk.saw(im, "Invariant.to_portable"); chk.saw(im, "Invariant.from_portable")
    written = _written_keys(im, tp)
    read = _read_keys(chk.repo, im, fp, params(fp)[1])
    for k in written:
        chk.ob("C20-R4", f"simultaneous._invariants.Invariant.portable[{k}]", k in read, f"key {k!r} written; {'read' if k in read else 'never read'} by from_portable", im.loc(fp))
    # ** forwarding of flags: what Flags.to_portable writes, Flags.from_kwargs reads back (finite evaluation of the round trip), and the
    # chain from_portable -> from_source -> Flags.from_kwargs hands the dictionary on with **
    fl = chk.repo.mod("irispie.simultaneous._flags")
    from .. import fin as _fin
    import itertools as _it3
    ftp, ffk = fl.func("Flags.to_portable"), fl.func("Flags.from_kwargs")
    chk.saw(fl, "Flags.to_portable"); chk.saw(fl, "Flags.from_kwargs")

    class _Enum(_fin.FinObj):
        def __getitem__(self, k):
            return getattr(self, k)
    fkeys, bad_rt = None, None
    try:
        consts = _fin.module_constants(fl)
        for lin, flat, det in _it3.product((False, True), repeat=3):
            me = _fin.FinObj(is_linear=lin, is_flat=flat, is_deterministic=det, is_nonlinear=not lin, is_nonflat=not flat, is_stochastic=not det)
            d = _fin.run_function(ftp, {params(ftp)[0]: me}, None, consts)
            fkeys = list(d)
            back = _fin.run_function(ffk, {params(ffk)[0]: _Enum(DEFAULT=0, LINEAR=1, FLAT=2, DETERMINISTIC=4), ffk.args.kwarg.arg: dict(d)}, None, consts)
            if back != lin * 1 + flat * 2 + det * 4 and bad_rt is None:
                bad_rt = f"flags linear={lin}, flat={flat}, deterministic={det} are written as {d} and read back as bits {back} (LINEAR=1, FLAT=2, DETERMINISTIC=4)"
        chk.ob("C20-R4", "simultaneous._flags.Flags[portable round trip]", bad_rt is None, bad_rt or f"all 8 flag combinations survive to_portable -> from_kwargs (keys {fkeys})",
               fl.loc(ftp), sure=True)
    except (_fin.NotFinite, _fin.Raised, TypeError, AttributeError, KeyError) as ex:
        chk.undecided("C20-R4", "simultaneous._flags.Flags[portable round trip]", f"not finitely evaluable: {type(ex).__name__}: {ex}", fl.loc(ftp))
    fkeys = fkeys or []
    fp_all = [fp] + [im.func(c.func.id) for c in ast.walk(fp) if isinstance(c, ast.Call) and isinstance(c.func, ast.Name) and im.has(c.func.id)]
    star_calls = [(n, kw) for g_ in fp_all for n in ast.walk(g_) if isinstance(n, ast.Call) for kw in n.keywords if kw.arg is None and unparse(kw.value) == "flags"]
    if not star_calls:
        chk.bad("C20-R4", "simultaneous._invariants.Invariant.from_portable[flags]", "flags are read from the portable but forwarded nowhere", im.loc(fp))
    for call, kw in star_calls:
        callee = dotted(call.func)
        accepted = set()
        target = None
        if callee == "ModelSource":
            sm = chk.repo.mod("irispie.sources")
            target = sm.func("ModelSource.__init__")
        elif callee and callee.endswith(".from_source"):
            target = im.func("Invariant.from_source")
        if target is not None:
            accepted |= set(all_params(target))
            accepted |= {n.args[0].value for n in ast.walk(target) if isinstance(n, ast.Call) and unparse(n.func) == "kwargs.get" and n.args and isinstance(n.args[0], ast.Constant)}
            # kwargs forwarded on to Flags.from_kwargs
            if any(isinstance(n, ast.Call) and unparse(n.func).endswith("Flags.from_kwargs") and any(k.arg is None for k in n.keywords) for n in ast.walk(target)):
                accepted |= set(fkeys)          # handed on with ** to Flags.from_kwargs, whose reading of these keys is decided by the round trip above
        dropped = [k for k in fkeys if k not in accepted]
        chk.ob("C20-R4", f"simultaneous._invariants.Invariant.from_portable[flags -> {callee}]", not dropped,
               f"flags keys {fkeys} forwarded with ** to {callee}, which accepts {sorted(accepted)[:12]}" if not dropped else
               f"flags keys {dropped} are forwarded to {callee}, which neither names nor reads them: the flags are dropped", im.loc(call))
    # generated twins exported: to_portable exports self.quantities wholesale while from_source re-introduces anticipated shocks
    fs = im.func("Invariant.from_source")
    regenerates = any(isinstance(n, ast.Call) and dotted(n.func) == "_introduce_anticipated_shocks_for_transition_shocks" for n in ast.walk(fs))
    q_tab = chk.repo.mod("irispie.quantities").assign("_TO_PORTABLES")
    exported_kinds = [dotted(k).split(".")[-1] for k in q_tab.keys]
    exports_all = "_quantities.to_portable(self.quantities" in unparse(tp).replace(" ", "")
    bad = regenerates and exports_all and "ANTICIPATED_SHOCK_VALUE" in exported_kinds
    chk.ob("C20-R4", "simultaneous._invariants.Invariant.to_portable[generated anticipated shocks]", not bad,
           "quantities of kind ANTICIPATED_SHOCK_VALUE (and equations already rewritten to (u+ant_u)) are exported, and from_source "
           "introduces them again on import" if bad else "generated quantities are not exported as source", im.loc(tp))
    # equations: the portable tuple is (kind, DYNAMIC text, STEADY text or None, ...): the writer is called on the dynamic equation with the
    # steady one as its complement, and the reader restores them in the same roles
    em = chk.repo.mod("irispie.equations")
    etp = em.func("to_portable")
    chk.saw(em, "to_portable")
    eps = params(etp)
    comps = [n for n in ast.walk(etp) if isinstance(n, (ast.ListComp, ast.GeneratorExp)) and isinstance(n.elt, ast.Call) and isinstance(n.elt.func, ast.Attribute)
             and n.elt.func.attr == "to_portable"]
    ok, detail = None, "comprehension over (dynamic, steady) pairs not recognised"
    if len(comps) == 1 and len(eps) >= 2:
        g = comps[0].generators[0]
        if isinstance(g.iter, ast.Call) and dotted(g.iter.func) == "zip" and isinstance(g.target, ast.Tuple) and len(g.target.elts) == 2 and len(g.iter.args) == 2:
            role = {unparse(t): unparse(a) for t, a in zip(g.target.elts, g.iter.args)}
            recv = role.get(unparse(comps[0].elt.func.value))
            arg = role.get(unparse(comps[0].elt.args[0])) if comps[0].elt.args else None
            dyn = next((p_ for p_ in eps if "dynamic" in p_), eps[0])
            ste = next((p_ for p_ in eps if "steady" in p_), eps[1])
            ok = recv == dyn and arg == ste
            detail = f"{unparse(comps[0].elt)} with the receiver from {recv} and the complement from {arg}" + ("" if ok else
                     f": the tuple is written by the {recv.split('_')[0] if recv else '?'} equation, so the dynamic and steady texts change places in the portable form")
    chk.ob("C20-R4", "equations.to_portable[dynamic writes, steady complements]", ok, detail, em.loc(comps[0]) if comps else em.loc(etp), sure=ok is not None)
    # model level
    sm = chk.repo.mod("irispie.simultaneous.main")
    tp, fp = sm.func("Simultaneous.to_portable"), sm.func("Simultaneous.from_portable")
    written = _written_keys(sm, tp)
    read = _read_keys(chk.repo, sm, fp, params(fp)[1])
    for k in written:
        chk.ob("C20-R4", f"simultaneous.main.Simultaneous.portable[{k}]", k in read, f"key {k!r} {'read' if k in read else 'never read'}", sm.loc(fp))
    # the portable form is meant for JSON (to_portable_file): tuples come back as lists. The variant values are written as
    # (level, change) tuples and the assignment path tells tuples (level, change) from lists (one value per variant) by type.
    vm = chk.repo.mod("irispie.simultaneous._variants")
    vtp = vm.func("Variant.to_portable")
    chk.saw(vm, "Variant.to_portable")
    vret = [n for n in walk_no_nested(vtp) if isinstance(n, ast.Return)][0].value
    writes_tuple = isinstance(vret, ast.DictComp) and isinstance(vret.value, ast.Tuple)
    am = chk.repo.mod("irispie.simultaneous._assigns")
    by_type = any(isinstance(n, ast.Call) and dotted(n.func) == "isinstance" and len(n.args) == 2 and unparse(n.args[1]) == "tuple"
                  for q, f in am.functions() for n in ast.walk(f))
    calls = [n for n in ast.walk(fp) if isinstance(n, ast.Call) and isinstance(n.func, ast.Attribute) and n.func.attr in ("assign_strict", "assign")]
    if not calls or not writes_tuple:
        chk.undecided("C20-R4", "simultaneous.main.Simultaneous.from_portable[variant values survive JSON]",
                      "variant values are not written as tuples / no assign call recognised", sm.loc(fp))
    else:
        arg = calls[0].args[0] if calls[0].args else None
        retupled = isinstance(arg, ast.DictComp) and isinstance(arg.value, ast.Call) and dotted(arg.value.func) == "tuple"
        if isinstance(arg, ast.Name):
            av = [n.value for n in ast.walk(fp) if isinstance(n, ast.Assign) and unparse(n.targets[0]) == arg.id]
            retupled = any(isinstance(v, ast.DictComp) and isinstance(v.value, ast.Call) and dotted(v.value.func) == "tuple" for v in av)
        ok = True if (retupled or not by_type) else False
        chk.ob("C20-R4", "simultaneous.main.Simultaneous.from_portable[variant values survive JSON]", ok,
               "(level, change) pairs are converted back to tuples before assignment" if retupled else
               ("assignment does not discriminate tuple from list" if not by_type else
                "to_portable writes (level, change) tuples, JSON returns lists, and assign reads a list as values for consecutive variants "
                "(isinstance(value, tuple) in _assigns): the steady-state changes are dropped after to_portable_file/from_portable_file"), sm.loc(calls[0]))


VARIANT_PARAMS = ("variant", "variants", "vid", "variant_id")
UNUSED_VARIANT_PARAM_OK = {
    ("irispie.sequentials._simulate", "_simulate_v", "vid"): "the data slate handed in is already the variant's; vid is kept for a uniform dispatch signature",
    ("irispie.simultaneous._steady", "_steady_linear", "vid"): "works on the variant object it is given; vid only mirrors _steady_nonlinear's signature",
    ("irispie.stackers.main", "Stacker._extract_data_arrays", "variant"): "the data array handed in is already the variant's",
}


def rule_r5(chk):
    chk.rule("C20-R5", "variant selection is honoured: every function with a variant-selecting parameter (variant, variants, vid, variant_id) "
             "reads it somewhere in its body (an ignored selector answers from variant 0 for every variant); three named exceptions "
             "receive data that is already per-variant", floor=30, shape_independent=True)
    n_used = 0
    for m in chk.repo.modules.values():
        for q, f in m.functions():
            ps = [p_ for p_ in all_params(f) if p_ in VARIANT_PARAMS]
            if not ps:
                continue
            body = strip_docstring(f.body)
            trivial = all(isinstance(st, (ast.Pass, ast.Raise)) or (isinstance(st, ast.Expr) and isinstance(st.value, ast.Constant)) for st in body)
            if trivial:
                continue
            for p_ in ps:
                used = any(isinstance(x, ast.Name) and x.id == p_ for st in body for x in ast.walk(st))
                key = (m.name, q, p_)
                short = m.name.replace("irispie.", "")
                if used:
                    n_used += 1
                    chk.ok("C20-R5", f"{short}.{q}[{p_}]", "selector is read", m.loc(f))
                elif key in UNUSED_VARIANT_PARAM_OK:
                    chk.ok("C20-R5", f"{short}.{q}[{p_}]", f"unused by design: {UNUSED_VARIANT_PARAM_OK[key]}", m.loc(f))
                else:
                    chk.bad("C20-R5", f"{short}.{q}[{p_}]", f"parameter {p_!r} is never read: the caller's choice of variant is ignored "
                            "(typically variant 0 answers for all)", m.loc(f))
                chk.saw(m, q)


def rule_r7(chk, rid="C20-R7"):
    chk.rule(rid, "derived state follows the state it is derived from: a copy / unpickled Invariant rebuilds its derived slots from the "
             "serialized ones, so any store into a serialized slot that _populate_derived_attributes reads (quantities, equations, "
             "context), made after construction, is followed in the same function by a rebuild on the same object - otherwise the "
             "original keeps stale descriptors and differs from its own copy", floor=2)
    im = chk.repo.mod("irispie.simultaneous._invariants")
    ser = [literal(e) for e in im.class_attr("Invariant", "_serialized_slots").elts]
    pd = im.func("Invariant._populate_derived_attributes")
    chk.saw(im, "Invariant._populate_derived_attributes")
    reads = set()
    work, seen = [pd], set()
    while work:
        fn = work.pop()
        if id(fn) in seen:
            continue
        seen.add(id(fn))
        for n in ast.walk(fn):
            if isinstance(n, ast.Attribute) and isinstance(n.value, ast.Name) and n.value.id in ("self", params(fn)[0] if params(fn) else "self") and isinstance(n.ctx, ast.Load):
                reads.add(n.attr)
            if isinstance(n, ast.Call):
                d = dotted(n.func)
                if d and im.has(d) and any(unparse(a) == "self" for a in n.args):
                    work.append(im.func(d))
    deps = sorted(set(ser) & reads)
    chk.ob(rid, "simultaneous._invariants.Invariant[inputs of the derived slots]", bool(deps), f"derived slots are computed from {deps}", im.loc(pd))
    constructors = ("__init__", "__setstate__", "from_source", "from_portable", "__new__", "copy", "__deepcopy__")
    n_sites = 0
    for m in chk.repo.modules.values():
        if not m.name.startswith("irispie.simultaneous"):
            continue
        for q, f in m.functions():
            in_invariant = m is im and q.startswith("Invariant.")
            if in_invariant and q.split(".")[-1] in constructors:
                continue
            for n in walk_no_nested(f):
                ts = n.targets if isinstance(n, ast.Assign) else [n.target] if isinstance(n, ast.AugAssign) else []
                for t in ts:
                    if not (isinstance(t, ast.Attribute) and t.attr in deps):
                        continue
                    owner = unparse(t.value)
                    if not (owner.endswith("._invariant") or (in_invariant and owner == "self")):
                        continue
                    n_sites += 1
                    rebuilt = any(isinstance(c, ast.Call) and unparse(c.func) == f"{owner}._populate_derived_attributes" and c.lineno >= n.lineno
                                  for c in walk_no_nested(f))
                    chk.saw(m, q)
                    chk.ob(rid, f"{m.name.replace('irispie.', '')}.{q}[{owner}.{t.attr}]", rebuilt,
                           f"assigns {owner}.{t.attr} and then calls {owner}._populate_derived_attributes()" if rebuilt else
                           f"assigns {owner}.{t.attr} (an input of the descriptors/equators) without rebuilding them: the model keeps the old derived "
                           "state while its copy or pickle rebuilds it from the new value", m.loc(n))
    if n_sites == 0:
        chk.ok(rid, "simultaneous[stores into derived-slot inputs after construction]", "none", im.rel)


def rule_r8(chk):
    chk.rule("C20-R8", "one value per variant: in generate_steady_items (Databox.steady / Databox.zero) the arrays of the variants are stacked "
             "along a new last axis, and the value of a non-time-series quantity (parameter, std) is read along THAT axis at the first "
             "period - not along the period axis at the first variant (axis bookkeeping over the subscripts)", floor=2, shape_independent=True)
    m = chk.repo.mod("irispie.simultaneous._steady_boxable_protocols")
    f = m.func("generate_steady_items")
    chk.saw(m, "generate_steady_items")
    st = [n for n in ast.walk(f) if isinstance(n, ast.Assign) and isinstance(n.value, ast.Call) and (dotted(n.value.func) or "").endswith("stack")]
    if len(st) != 1:
        chk.undecided("C20-R8", "simultaneous._steady_boxable_protocols.generate_steady_items[stack]", "stacking of the per-variant arrays not recognised", m.loc(f))
        return
    kw = {k.arg: k.value for k in st[0].value.keywords}
    axis = literal(kw["axis"]) if "axis" in kw and isinstance(kw["axis"], ast.Constant) else None
    src = kw.get("arrays") or (st[0].value.args[0] if st[0].value.args else None)
    from ..core import inline_locals
    over_variants = src is not None and "self._variants" in unparse(inline_locals(f, src))
    arr = unparse(st[0].targets[0])
    chk.ob("C20-R8", "simultaneous._steady_boxable_protocols.generate_steady_items[stack]", (axis == 2 and over_variants) if axis is not None else None,
           f"{arr} = stack(one array per variant, axis={axis}): axes (quantity, period, variant)", m.loc(st[0]), sure=True)
    if axis != 2:
        return
    # follow the axes through `x = arr[i, :, :]`
    roles = {arr: ["quantity", "period", "variant"]}
    changed = True
    while changed:
        changed = False
        for n in ast.walk(f):
            if isinstance(n, ast.Assign) and isinstance(n.targets[0], ast.Name) and isinstance(n.value, ast.Subscript) and unparse(n.value.value) in roles \
                    and n.targets[0].id not in roles:
                idx = n.value.slice.elts if isinstance(n.value.slice, ast.Tuple) else [n.value.slice]
                base = roles[unparse(n.value.value)]
                if len(idx) == len(base):
                    roles[n.targets[0].id] = [r for r, i in zip(base, idx) if isinstance(i, ast.Slice)]
                    changed = True
    reads = []
    for n in ast.walk(f):
        if isinstance(n, ast.Call) and (dotted(n.func) or "").endswith("unpack_singleton") and n.args:
            for sub in ast.walk(n.args[0]):
                if isinstance(sub, ast.Subscript) and unparse(sub.value) in roles:
                    idx = sub.slice.elts if isinstance(sub.slice, ast.Tuple) else [sub.slice]
                    base = roles[unparse(sub.value)]
                    if len(idx) == len(base):
                        kept = [r for r, i in zip(base, idx) if isinstance(i, ast.Slice)]
                        reads.append((sub, kept, base))
    if not reads:
        chk.undecided("C20-R8", "simultaneous._steady_boxable_protocols.generate_steady_items[value per variant]", "read of the non-time-series value not recognised", m.loc(f))
    for sub, kept, base in reads:
        chk.ob("C20-R8", "simultaneous._steady_boxable_protocols.generate_steady_items[value per variant]", kept == ["variant"],
               f"{unparse(sub)} on axes {base} keeps {kept}" + ("" if kept == ["variant"] else ": the list handed to unpack_singleton runs over periods of ONE variant, so every "
                                                               "variant of the steady databox gets variant 0's parameter / std"), m.loc(sub), sure=True)


def run(chk):
    chk.guard(rule_r1, chk)
    chk.guard(rule_r2, chk)
    chk.guard(rule_r3, chk)
    chk.guard(rule_r4, chk)
    chk.guard(rule_r5, chk)
    chk.guard(rule_r7, chk)
    chk.guard(rule_r8, chk)
    from .. import gens
    gens.apply(chk, "C20-R6", {"simultaneous", "sequentials", "red_vars", "has_variants", "quantities", "equations", "attributes", "stackers"}, 15,
               "a generator consumed inside the loop over variants serves variant 0 only")
    from .. import unused as _unused
    chk.guard(_unused.apply, chk, "C20-R91")
    from .. import args as _args
    chk.guard(_args.apply, chk, "C20-R90", {'equations', 'has_variants', 'quantities', 'red_vars', 'sequentials', 'simultaneous'}, 1)
    chk.assumptions = [
        "ndarray.copy / dict.copy of scalars / deepcopy produce independent values",
        "behavioural equivalence of a copy (steady state, solution, simulation) is numerical and not decided",
        "dill can serialise what pickle cannot; the rule is stated for pickle",
    ]

"""
C10 — a Series is a period-indexed map: reads, writes, alignment, trim, isolation.

  R1  trim typestate: in the write/arithmetic entry points every store to data/start is followed by a trim
      on every path to a normal exit (directly or through a callee that always ends trimmed)
  R2  functional forms (generated wrappers): copy first, mutate only the copy, return it; copy() is deepcopy
  R3  method forms never mutate a non-receiver argument (transitive effect summaries)
  R4  binary operands are cut by one common span and the result starts at its first period
  R5  position arithmetic of writes and shifts
  R6  interpolation / moving-window helpers are the documented period-by-period formulas
"""
from __future__ import annotations

import ast

from .. import alg, flow, fin
from ..alg import Undecided, sym, num, add, sub, mul, div
from ..core import AnalysisError, dotted, unparse, params, all_params, walk_no_nested, strip_docstring, literal
from ..seriesmodel import SeriesModel

# Stores that cannot create an all-missing edge row (one line of reason each)
NONDIRTY = {
    "trim": "establishes the invariant (axiom; its own arithmetic is checked separately)",
    "reset": "re-initialises to the empty series",
    "__init__": "constructor; populators are entry points themselves",
    "abs": "element-wise NaN-preserving map", "round": "element-wise NaN-preserving map", "logistic": "element-wise NaN-preserving map",
    "_broadcast_variants": "repeats a column; rows keep their missing status",
    "expand_num_variants": "repeats the last column", "shrink_num_variants": "column selection; not a write in the clause",
    "extract_variants": "column selection; not a write in the clause", "alter_num_variants": "column count only",
    "_shift_by_number": "moves start only; data rows untouched", "_shift_yoy": "moves start only",
    "set_start": "moves start only", "redate": "moves start only",
    "clip": "clause limits the no-edge-NaN claim to writes and operators; clip only narrows the window",
    "empty": "makes the series empty before a set_data (used by cumulators)",
    "roc_from_pct": "element-wise map", "pct_from_roc": "element-wise map", "pct_from_apct": "element-wise map",
    "roc_from_apct": "element-wise map", "roc_from_aroc": "element-wise map",
}

ENTRY_POINTS = [
    "set_data", "__setitem__", "_replace_data", "_replace_start_and_values", "from_start_and_array", "_binop", "apply",
    "overlay_by_span", "underlay_by_span", "overlay", "underlay", "replace_where", "temporal_change",
    "_shift_soy", "_shift_eopy", "_shift_tty", "hstack", "moving_window", "fill_missing", "extrapolate",
    "__neg__", "__add__", "__sub__", "__mul__", "__truediv__", "__pow__", "__radd__", "__rsub__", "__rmul__", "__rtruediv__",
    "_cumulate_forward", "_cumulate_backward", "iter_variants", "_get_data_and_recreate",
]

FRESH_CTORS = ("Series", "klass", "type(self)")


class TrimFlow(flow.Analysis):
    """state = frozenset of (object name, 'C'|'D')"""

    def __init__(self, model: SeriesModel, trimming: set, dirtying: set, fn):
        self.m, self.trimming, self.dirtying, self.fn = model, trimming, dirtying, fn
        ps = params(fn.node)
        self.self_name = ps[0] if ps else "self"
        self.param_defaults = {}
        a = fn.node.args
        pos = a.posonlyargs + a.args
        for p, d in zip(pos[len(pos) - len(a.defaults):], a.defaults):
            self.param_defaults[p.arg] = d
        for p, d in zip(a.kwonlyargs, a.kw_defaults):
            if d is not None:
                self.param_defaults[p.arg] = d
        self.stores = []

    # -- helpers
    @staticmethod
    def get(state, name):
        for n, f in state:
            if n == name:
                return f
        return None

    @staticmethod
    def put(state, name, flag):
        return frozenset({(n, f) for n, f in state if n != name} | {(name, flag)})

    def cond(self, test, state, truth):
        # `if trim:` on a boolean parameter defaulting to True: the entry point is analysed for the default
        if isinstance(test, ast.Name) and test.id in self.param_defaults:
            d = self.param_defaults[test.id]
            if isinstance(d, ast.Constant) and isinstance(d.value, bool):
                return state if truth == d.value else None
        return state

    def noreturn(self, st):
        return False

    def stmt(self, st, state):
        # stores
        targets = []
        if isinstance(st, ast.Assign):
            targets = st.targets
        elif isinstance(st, (ast.AugAssign, ast.AnnAssign)):
            targets = [st.target]
        value = getattr(st, "value", None)
        # calls inside the statement, in source order
        if value is not None or isinstance(st, ast.Expr):
            for c in sorted((n for n in ast.walk(st) if isinstance(n, ast.Call)), key=lambda n: (n.lineno, n.col_offset)):
                state = self.call(c, state)
        for t in targets:
            base = t
            while isinstance(base, ast.Subscript):
                base = base.value
            if isinstance(base, ast.Attribute) and isinstance(base.value, ast.Name) and base.attr in ("data", "start"):
                obj = base.value.id
                # X.data = -X.data / +X.data : element-wise, keeps which cells are missing
                if isinstance(value, ast.UnaryOp) and isinstance(value.op, (ast.USub, ast.UAdd)) and unparse(value.operand) == f"{obj}.data" \
                        and base.attr == "data" and t is base:
                    continue
                if self.get(state, obj) is not None:
                    state = self.put(state, obj, "D")
                    self.stores.append(st)
            elif isinstance(t, ast.Name) and value is not None:
                state = self.bind(t.id, value, state)
        return state

    def bind(self, name, value, state):
        if isinstance(value, ast.Call):
            f = value.func
            if isinstance(f, ast.Attribute) and f.attr == "copy" and isinstance(f.value, ast.Name):
                src = self.get(state, f.value.id)
                return self.put(state, name, src or "C")       # copy of an invariant-respecting argument is clean
            fn = unparse(f)
            if fn in FRESH_CTORS or fn.endswith(".as_empty"):
                return self.put(state, name, "C")
        if isinstance(value, ast.IfExp):
            # new = Series(...) if new is None else new
            for br in (value.body, value.orelse):
                if isinstance(br, ast.Call) and unparse(br.func) in FRESH_CTORS:
                    cur = self.get(state, name)
                    return self.put(state, name, cur or "C")
        return state

    def call(self, c, state):
        f = c.func
        # getattr(type(self), 'prefix_' + x)(self, other)
        if isinstance(f, ast.Call) and dotted(f.func) == "getattr" and len(f.args) == 2 and isinstance(f.args[1], ast.BinOp) \
                and isinstance(f.args[1].left, ast.Constant) and c.args and isinstance(c.args[0], ast.Name):
            prefix = f.args[1].left.value
            cands = [n for n in self.m.methods if n.startswith(prefix)]
            obj = c.args[0].id
            if cands and self.get(state, obj) is not None:
                if all(n in self.trimming for n in cands):
                    return self.put(state, obj, "C")
                if any(n in self.dirtying for n in cands):
                    return self.put(state, obj, "D")
            return state
        if isinstance(f, ast.Attribute) and isinstance(f.value, ast.Name):
            obj, meth = f.value.id, f.attr
            if self.get(state, obj) is None:
                return state
            if meth == "_shallow_copy_data" and c.args and isinstance(c.args[0], ast.Name):
                src = self.get(state, c.args[0].id)
                return self.put(state, obj, src or "C")
            if meth in self.trimming:
                return self.put(state, obj, "C")
            if meth in self.dirtying:
                return self.put(state, obj, "D")
            return state
        # getattr(self, name)(...)  dynamic dispatch on self (shift): conservatively unchanged unless all candidates known
        return state


def _direct_store(fn) -> bool:
    for n in walk_no_nested(fn.node):
        ts = n.targets if isinstance(n, ast.Assign) else [n.target] if isinstance(n, (ast.AugAssign,)) else []
        for t in ts:
            b = t
            while isinstance(b, ast.Subscript):
                b = b.value
            if isinstance(b, ast.Attribute) and isinstance(b.value, ast.Name) and b.value.id == (params(fn.node) or ["self"])[0] \
                    and b.attr in ("data", "start"):
                return True
    return False


def _analyse(model, fn, trimming, dirtying, entry_flag):
    an = TrimFlow(model, trimming, dirtying, fn)
    ps = params(fn.node)
    init = {(ps[0], entry_flag)} if ps else set()
    # an explicit output parameter named `new`
    if "new" in all_params(fn.node):
        init.add(("new", entry_flag))
    exits = flow.run(an, strip_docstring(fn.node.body), frozenset(init))
    return an, [e for e in exits if e[0] in ("return", "fall")]


def trim_summaries(model):
    """Fixpoint: trimming = all normal exits clean from a dirty entry; dirtying = some exit dirty from a clean entry."""
    elementwise = {f.name for f in model.generated_methods if f.template and "_elementwise" in f.mod.name}
    nondirty = set(NONDIRTY) | elementwise
    trimming = {"trim"}
    dirtying = {n for n, f in model.methods.items() if _direct_store(f) and n not in nondirty}
    for _ in range(10):
        changed = False
        for name, fn in model.methods.items():
            if name in nondirty:
                continue
            ps = params(fn.node)
            if not ps:
                continue
            _, ex = _analyse(model, fn, trimming, dirtying, "D")
            is_trimming = bool(ex) and all(TrimFlow.get(s, ps[0]) == "C" for _, s, _ in ex)
            _, ex2 = _analyse(model, fn, trimming, dirtying, "C")
            is_dirtying = any(TrimFlow.get(s, ps[0]) == "D" for _, s, _ in ex2)
            if is_trimming and name not in trimming:
                trimming.add(name); changed = True
            if not is_trimming and name in trimming and name != "trim":
                trimming.discard(name); changed = True
            if is_dirtying != (name in dirtying):
                (dirtying.add if is_dirtying else dirtying.discard)(name); changed = True
        if not changed:
            break
    return trimming, dirtying, nondirty


def assign_value_of(f, name):
    vals = [n.value for n in walk_no_nested(f) if isinstance(n, ast.Assign) and len(n.targets) == 1 and isinstance(n.targets[0], ast.Name) and n.targets[0].id == name]
    return vals[-1] if vals else None


class _Rows:
    """abstract data array: the rows [lo, hi) of the original array"""
    _fin_attrs = ("size", "shape")

    def __init__(self, lo, hi):
        self.lo, self.hi = lo, max(lo, hi)

    @property
    def size(self):
        return self.hi - self.lo

    @property
    def shape(self):
        return (self.hi - self.lo, 1)

    def __getitem__(self, idx):
        sl = idx[0] if isinstance(idx, tuple) else idx
        if not isinstance(sl, slice) or (isinstance(idx, tuple) and any(x is not Ellipsis and x != slice(None) for x in idx[1:])):
            raise fin.NotFinite("only row slices of the data are modelled")
        a, b, step = sl.indices(self.hi - self.lo)
        if step != 1:
            raise fin.NotFinite("strided slice")
        return _Rows(self.lo + a, self.lo + b)


class _BoolArr(fin.FinObj):
    """exact boolean array, 1-D or 2-D, with the numpy reductions the edge-row helper may use"""

    def __init__(self, data):
        super().__init__(data=data, ndim=2 if data and isinstance(data[0], list) else 1)

    def _reduce(self, fn, axis=None):
        if self.ndim == 1:
            return fn(self.data)
        if axis is None:
            return fn(x for r in self.data for x in r)
        if axis in (1, -1):
            return _BoolArr([fn(r) for r in self.data])
        if axis == 0:
            return _BoolArr([fn(col) for col in zip(*self.data)]) if self.data else _BoolArr([])
        raise fin.NotFinite("axis")

    def any(self, axis=None, **kw): return self._reduce(any, axis)
    def all(self, axis=None, **kw): return self._reduce(all, axis)

    def __invert__(self):
        return _BoolArr([[not x for x in r] for r in self.data] if self.ndim == 2 else [not x for x in self.data])

    def __getitem__(self, k):
        if self.ndim == 1 and isinstance(k, slice):
            return _BoolArr(self.data[k])
        if self.ndim == 1 and isinstance(k, int):
            return self.data[k]
        raise fin.NotFinite("index of a boolean array")

    def __len__(self): return len(self.data)
    def __iter__(self): return iter(self.data)
    def tolist(self): return list(self.data)

    @property
    def shape(self):
        return (len(self.data),) if self.ndim == 1 else (len(self.data), len(self.data[0]) if self.data else 0)

    @property
    def size(self):
        return len(self.data) if self.ndim == 1 else sum(len(r) for r in self.data)


class _NanData(fin.FinObj):
    def __init__(self, rows):
        super().__init__(rows=rows, shape=(len(rows), len(rows[0]) if rows else 2), ndim=2)


def _argmax(v, **kw):
    d = list(v.data) if isinstance(v, _BoolArr) else list(v)
    return d.index(True) if True in d else 0


NAN_FUNCS = {"_np.isnan": lambda d, **kw: _BoolArr([[x is None for x in r] for r in d.rows]), "_np.all": lambda v, axis=None, **kw: v.all(axis=axis),
             "_np.any": lambda v, axis=None, **kw: v.any(axis=axis), "_np.argmax": _argmax, "_np.logical_not": lambda v: ~v,
             "_np.flatnonzero": lambda v: [i for i, x in enumerate(v.data) if x], "_np.nonzero": lambda v: ([i for i, x in enumerate(v.data) if x],),
             "_np.count_nonzero": lambda v: sum(1 for x in v.data if x), "_np.where": lambda v: ([i for i, x in enumerate(v.data) if x],)}


def missing_edge_rows_by_evaluation(f):
    """_get_num_leading_trailing_missing_rows evaluated on every pattern of missing cells of a 2-variant array with up to 4 rows: a row
    counts as missing only when ALL variants are missing; (0, n) when nothing is observed"""
    import itertools
    n_cases = 0
    try:
        for n in range(1, 5):
            for cells in itertools.product((0, 1, 2, 3), repeat=n):          # bit 0: variant 0 missing, bit 1: variant 1 missing
                rows = [[None if c & 1 else 1.0, None if c & 2 else 2.0] for c in cells]
                got = fin.run_function(f, {params(f)[0]: _NanData(rows)}, NAN_FUNCS)
                n_cases += 1
                observed = [c != 3 for c in cells]
                if not any(observed):
                    want = (0, n)
                else:
                    want = (observed.index(True), observed[::-1].index(True))
                if tuple(int(x) for x in got) != want:
                    pat = ["".join("." if x is None else "x" for x in r) for r in rows]
                    return False, (f"rows {pat} (x observed, . missing; two variants): returns (leading, trailing) = {tuple(got)}, expected {want} - "
                                   "a row is missing only when every variant is missing")
    except (fin.NotFinite, fin.Raised, TypeError, AttributeError, ValueError, IndexError) as ex:
        return None, f"not finitely evaluable: {type(ex).__name__}: {ex}"
    return True, f"{n_cases} patterns of missing cells (2 variants, up to 4 rows): leading / trailing rows with no observation in any variant"


def _trim_by_evaluation(f):
    """trim() evaluated by the checker on every (rows, leading missing, trailing missing) with rows <= 4: afterwards the data are exactly
    the rows between the first and the last observation and the start has advanced by the number of leading missing rows; empty and
    all-missing series are reset."""
    cases = 0
    try:
        for n in range(0, 5):
            combos = [(l, t_) for l in range(0, n + 1) for t_ in range(0, n + 1) if l + t_ < n] + ([(n, n)] if n > 0 else [(0, 0)])
            for lead, trail in combos:
                reset = []
                env = {"self": "SELF", "self.data": _Rows(0, n), "self.start": 100}
                funcs = {"_get_num_leading_trailing_missing_rows": lambda d, lead=lead, trail=trail: (lead, trail),
                         "self.reset": lambda reset=reset: reset.append(True)}
                final = {}
                fin.run_function(f, {}, funcs=funcs, env=env, final_env=final)
                cases += 1
                if n == 0 or (lead, trail) == (n, n):
                    if not reset:
                        return False, f"rows={n}, leading={lead}, trailing={trail}: an empty / all-missing series is not reset"
                    continue
                d = final["self.data"]
                if reset or (d.lo, d.hi) != (lead, n - trail) or final["self.start"] != 100 + lead:
                    return False, (f"rows={n}, leading={lead}, trailing={trail}: data become rows [{d.lo}, {d.hi}) and the start moves by "
                                   f"{final['self.start'] - 100} (want rows [{lead}, {n - trail}), start + {lead})")
    except fin.NotFinite as ex:
        return None, f"trim not evaluable: {ex}"
    return True, f"{cases} cases (rows 0..4 x leading x trailing): data = rows between first and last observation, start advanced by the leading count, empty/all-missing reset"


def rule_r1(chk, model):
    chk.rule("C10-R1", "trim typestate on all paths: from a clean receiver, every normal exit of each write/arithmetic entry point "
             "leaves the receiver and every fresh Series it built clean (last store followed by trim(), directly or via a callee "
             "whose every exit is trimmed); trim() itself slices [leading : -trailing] and advances start by leading", floor=40)
    trimming, dirtying, nondirty = trim_summaries(model)
    chk.extra["c10_trimming_methods"] = sorted(trimming)
    chk.extra["c10_dirtying_methods"] = sorted(dirtying)
    stats = [f.name for f in model.generated_methods if "_statistics" in f.mod.name]
    entries = list(ENTRY_POINTS) + stats
    for name in entries:
        fn = model.methods.get(name)
        if fn is None:
            raise AnalysisError(f"anchor vanished: Series.{name} (entry point of the trim typestate)")
        chk.saw(fn.mod, fn.qual)
        an, ex = _analyse(model, fn, trimming, dirtying, "C")
        bad = [(kind, sorted(s), node) for kind, s, node in ex if any(f == "D" for _, f in s)]
        if bad:
            kind, s, node = bad[0]
            where = fn.mod.loc(node) if node is not None and not fn.generated else fn.loc()
            chk.bad("C10-R1", f"series.Series.{name}", f"a path reaches {kind} with state {s}: a store to data/start is not followed by a trim",
                    where, facts={"exits": [(k, st) for k, st, _ in bad][:4]})
        else:
            chk.ok("C10-R1", f"series.Series.{name}", f"{len(ex)} normal exit state(s), all trimmed", fn.loc())
    # trim arithmetic
    t = model.methods["trim"]
    chk.saw(t.mod, t.qual)
    ok, trim_detail = _trim_by_evaluation(t.node)
    chk.ob("C10-R1", "series.Series.trim[slice arithmetic]", ok, trim_detail, t.loc(), sure=True)
    g = model.functions.get(("main", "_get_num_leading_trailing_missing_rows"))
    if g is None:
        raise AnalysisError("anchor vanished: _get_num_leading_trailing_missing_rows")
    ok, detail = missing_edge_rows_by_evaluation(g.node)
    chk.ob("C10-R1", "series.main._get_num_leading_trailing_missing_rows", ok, detail, g.loc(), sure=ok is False)
    # reset gives start None
    r = model.methods["reset"]
    ok = "self.__init__(num_variants=self.num_variants,data_type=self.data_type)" in unparse(r.node).replace(" ", "")
    init = model.methods["__init__"]
    ok = ok and "self.start=None" in unparse(init.node).replace(" ", "")
    chk.ob("C10-R1", "series.Series.reset", ok, "reset re-initialises: start None, zero rows", r.loc())
    return trimming, dirtying


# --------------------------------------------------------------------------------------------------
# R2 functional forms
# --------------------------------------------------------------------------------------------------

def _wrapper_ok(fn_node: ast.FunctionDef, method_name: str):
    """copy first; only `new` receives method calls; argument never a receiver except copy/hasattr/data read; returns new."""
    ps = params(fn_node)
    if not ps:
        return False, "no parameters"
    P = ps[0]
    problems = []
    copies = [n for n in ast.walk(fn_node) if isinstance(n, ast.Assign) and isinstance(n.value, ast.Call)
              and unparse(n.value.func) == f"{P}.copy" and isinstance(n.targets[0], ast.Name)]
    if not copies:
        return False, f"no `new = {P}.copy()`"
    newname = copies[0].targets[0].id
    first_copy_line = min(c.lineno for c in copies)
    for n in ast.walk(fn_node):
        if isinstance(n, ast.Call) and isinstance(n.func, ast.Attribute) and isinstance(n.func.value, ast.Name):
            recv, meth = n.func.value.id, n.func.attr
            if recv == P and meth != "copy":
                problems.append(f"calls {P}.{meth}() on the argument")
            if recv == newname and meth == method_name and n.lineno < first_copy_line:
                problems.append("method called before the copy")
        if isinstance(n, (ast.Assign, ast.AugAssign)):
            for t in (n.targets if isinstance(n, ast.Assign) else [n.target]):
                b = t
                while isinstance(b, (ast.Subscript, ast.Attribute)):
                    b = b.value
                if isinstance(b, ast.Name) and b.id == P and not isinstance(t, ast.Name):
                    problems.append(f"stores into the argument: {unparse(t)}")
    calls_on_new = [n for n in ast.walk(fn_node) if isinstance(n, ast.Call) and unparse(n.func) == f"{newname}.{method_name}"]
    # the same through a bound method fetched first: method = getattr(new, "name") / method = new.name ; method(...)
    bound = {n.targets[0].id for n in ast.walk(fn_node) if isinstance(n, ast.Assign) and len(n.targets) == 1 and isinstance(n.targets[0], ast.Name)
             and (unparse(n.value) == f"{newname}.{method_name}" or (isinstance(n.value, ast.Call) and dotted(n.value.func) == "getattr" and len(n.value.args) == 2
                  and unparse(n.value.args[0]) == newname and isinstance(n.value.args[1], ast.Constant) and n.value.args[1].value == method_name))}
    calls_on_new += [n for n in ast.walk(fn_node) if isinstance(n, ast.Call) and isinstance(n.func, ast.Name) and n.func.id in bound]
    calls_on_new += [n for n in ast.walk(fn_node) if isinstance(n, ast.Call) and isinstance(n.func, ast.Call) and dotted(n.func.func) == "getattr" and len(n.func.args) == 2
                     and unparse(n.func.args[0]) == newname and isinstance(n.func.args[1], ast.Constant) and n.func.args[1].value == method_name]
    if not calls_on_new:
        problems.append(f"never calls {newname}.{method_name}()")
    rets = [n for n in ast.walk(fn_node) if isinstance(n, ast.Return) and n.value is not None]
    if not any(newname in {x.id for x in ast.walk(r.value) if isinstance(x, ast.Name)} for r in rets):
        problems.append("does not return the copy")
    # the copy must not be aliased back to the argument
    return (not problems), "; ".join(problems) or f"{newname} = {P}.copy(); {newname}.{method_name}(...); return {newname}"


def rule_r2(chk, model):
    chk.rule("C10-R2", "every generated functional form f(x, ...) is: new = x.copy(); new.f(...); return new — the argument is never "
             "a receiver of anything but copy(); copy() is deepcopy; hand-written functionals build fresh objects", floor=70)
    for fn in sorted(model.generated_functions, key=lambda f: (f.mod.name, f.name)):
        ok, detail = _wrapper_ok(fn.node, fn.name)
        short = fn.mod.name.split(".")[-1]
        chk.ob("C10-R2", f"series.{short}.{fn.name}[functional form]", ok, detail, fn.loc())
        chk.saw(fn.mod, fn.name)
        # the method of that name must exist on Series
        if fn.name not in model.methods:
            chk.bad("C10-R2", f"series.{short}.{fn.name}[method exists]", f"wrapper calls new.{fn.name}() but Series has no such method", fn.loc())
    cm = chk.repo.mod("irispie.conveniences.copies")
    f = cm.func("Mixin.copy")
    chk.saw(cm, "Mixin.copy")
    ok = _returns_deepcopy_of_self(f)
    chk.ob("C10-R2", "conveniences.copies.Mixin.copy", ok, "copy() is deepcopy(self)", cm.loc(f), sure=True)
    # Series defines no __deepcopy__/__copy__/__reduce__ that could alias data
    custom = [n for n in ("__deepcopy__", "__copy__", "__reduce__", "__reduce_ex__", "__getstate__") if n in model.methods]
    chk.ob("C10-R2", "series.Series[no custom copy protocol]", not custom, f"custom copy hooks: {custom}" if custom else "deepcopy copies the data array", model.main.rel)
    # hand-written module-level functionals: no mutator call / store on their first argument
    for key in (("main", "hstack"), ("_hp", "hpf"), ("_ell_one", "lonf")):
        fn = model.functions.get(key)
        if fn is None:
            m2 = chk.repo.modules.get(f"irispie.series.{key[0]}")
            if m2 is not None and m2.has(key[1]):
                from ..seriesmodel import Fn
                fn = Fn(m2, key[1], m2.func(key[1]))
        if fn is None:
            continue
        P = params(fn.node)[0]
        bad = []
        for n in ast.walk(fn.node):
            if isinstance(n, ast.Call) and isinstance(n.func, ast.Attribute) and isinstance(n.func.value, ast.Name) and n.func.value.id == P:
                mname = n.func.attr
                if mname in model.methods and mname in getattr(model, "_mutators", set()):
                    bad.append(mname)
        chk.ob("C10-R2", f"series.{key[0]}.{key[1]}[functional]", not bad,
               "calls no mutator on its argument" if not bad else f"calls mutators {bad} on its argument", fn.loc())


# --------------------------------------------------------------------------------------------------
# R3 effects
# --------------------------------------------------------------------------------------------------

def _rebound_before(node, name):
    """True if an assignment `name = <call>` is an earlier sibling of node or of one of its ancestors (it dominates node)."""
    cur = node
    while getattr(cur, "_parent", None) is not None:
        par = cur._parent
        for field in ("body", "orelse", "finalbody"):
            lst = getattr(par, field, None)
            if isinstance(lst, list) and cur in lst:
                for sib in lst[:lst.index(cur)]:
                    if isinstance(sib, ast.Assign) and len(sib.targets) == 1 and isinstance(sib.targets[0], ast.Name) \
                            and sib.targets[0].id == name and isinstance(sib.value, ast.Call):
                        return True
        if isinstance(par, (ast.FunctionDef, ast.AsyncFunctionDef)):
            break
        cur = par
    return False


def _set_parents(node):
    for n in ast.walk(node):
        for ch in ast.iter_child_nodes(n):
            ch._parent = n


def effect_summaries(model):
    """
    mut[(kind, name)] = set of parameter indices whose *Series state* the function may mutate.
    Series state = attribute stores through the parameter (p.attr = .., p.attr[..] = .., setattr(p, ..)) or a call of a
    Series mutator method on it. Plain subscript stores on a parameter (ndarray cells) are not Series state.
    """
    fns = {("m", n): f for n, f in model.methods.items()}
    fns.update({("f",) + k: f for k, f in model.functions.items()})
    mut = {k: set() for k in fns}

    def aliases_of(node, ps):
        """local name -> param index for simple aliases  x = p"""
        al = {p: i for i, p in enumerate(ps)}
        for n in walk_no_nested(node):
            if isinstance(n, ast.Assign) and len(n.targets) == 1 and isinstance(n.targets[0], ast.Name) and isinstance(n.value, ast.Name):
                if n.value.id in al and n.targets[0].id not in ps:
                    al[n.targets[0].id] = al[n.value.id]
        # a name re-bound to a fresh object is no alias any more (x = x.copy())
        for n in walk_no_nested(node):
            if isinstance(n, ast.Assign) and len(n.targets) == 1 and isinstance(n.targets[0], ast.Name) and isinstance(n.value, ast.Call):
                al.pop(n.targets[0].id, None) if n.targets[0].id not in ps else None
        return al

    def direct(fn):
        ps = all_params(fn.node)
        al = aliases_of(fn.node, ps)
        out = set()
        for n in walk_no_nested(fn.node):
            ts = n.targets if isinstance(n, ast.Assign) else [n.target] if isinstance(n, ast.AugAssign) else []
            for t in ts:
                b, through_attr = t, False
                while isinstance(b, (ast.Subscript, ast.Attribute)):
                    if isinstance(b, ast.Attribute):
                        through_attr = True
                    b = b.value
                if through_attr and isinstance(b, ast.Name) and b.id in al and not _rebound_before(n, b.id):
                    out.add(al[b.id])
            if isinstance(n, ast.Call) and dotted(n.func) == "setattr" and n.args and isinstance(n.args[0], ast.Name) and n.args[0].id in al:
                out.add(al[n.args[0].id])
        return out

    for fn in fns.values():
        if fn.generated:
            _set_parents(fn.node)
            fn.node._parent = None
    for k, fn in fns.items():
        mut[k] |= direct(fn)
    for _ in range(12):
        changed = False
        for k, fn in fns.items():
            ps = all_params(fn.node)
            al_all = aliases_of(fn.node, ps)
            short = fn.mod.name.split(".")[-1]
            for n in walk_no_nested(fn.node):
                if not isinstance(n, ast.Call):
                    continue
                f = n.func
                new = set()
                al = {a_: i_ for a_, i_ in al_all.items() if not _rebound_before(n, a_)}
                if isinstance(f, ast.Attribute) and isinstance(f.value, ast.Name) and f.value.id in al:
                    callee = ("m", f.attr)
                    if callee in mut and 0 in mut[callee]:
                        new.add(al[f.value.id])
                    # arguments passed on
                    if callee in mut:
                        for i, a in enumerate(n.args, start=1):
                            if isinstance(a, ast.Name) and a.id in al and i in mut[callee]:
                                new.add(al[a.id])
                elif isinstance(f, ast.Attribute):
                    callee = ("m", f.attr)
                    if callee in mut:
                        for i, a in enumerate(n.args, start=1):
                            if isinstance(a, ast.Name) and a.id in al and i in mut[callee]:
                                new.add(al[a.id])
                elif isinstance(f, ast.Name):
                    callee = ("f", short, f.id)
                    if callee in mut:
                        for i, a in enumerate(n.args):
                            if isinstance(a, ast.Name) and a.id in al and i in mut[callee]:
                                new.add(al[a.id])
                elif isinstance(f, ast.Call) and dotted(f.func) == "getattr" and len(f.args) == 2 and isinstance(f.args[1], ast.BinOp) \
                        and isinstance(f.args[1].left, ast.Constant):
                    prefix = f.args[1].left.value
                    for cname in [c for c in model.methods if c.startswith(prefix)]:
                        for i, a in enumerate(n.args):
                            if isinstance(a, ast.Name) and a.id in al and i in mut[("m", cname)]:
                                new.add(al[a.id])
                if not new <= mut[k]:
                    mut[k] |= new
                    changed = True
        if not changed:
            break
    return fns, mut


OUTPUT_PARAMS = {("_binop", "new"): "explicit output parameter; the only caller that passes it (temporal_change) passes the receiver itself"}


def rule_r3(chk, model):
    chk.rule("C10-R3", "no Series method mutates (transitively) the Series state of a parameter other than its receiver", floor=100, shape_independent=True)
    fns, mut = effect_summaries(model)
    model._mutators = {k[1] for k, v in mut.items() if k[0] == "m" and 0 in v}
    chk.extra["c10_mutator_methods"] = len(model._mutators)
    for (kind, *rest), fn in sorted(fns.items(), key=lambda kv: str(kv[0])):
        if kind != "m":
            continue
        name = rest[0]
        ps = all_params(fn.node)
        if not ps or ps[0] not in ("self",):
            continue
        chk.saw(fn.mod, fn.qual)
        others = sorted(i for i in mut[("m", name)] if i != 0)
        others = [i for i in others if (name, ps[i]) not in OUTPUT_PARAMS]
        if others:
            chk.bad("C10-R3", f"series.Series.{name}", f"mutates its argument(s) {[ps[i] for i in others]} (a method form must modify only the receiver)", fn.loc(),
                    facts={"params": [ps[i] for i in others]})
        else:
            chk.ok("C10-R3", f"series.Series.{name}", "only the receiver can be modified", fn.loc())
    # the output-parameter exemption is sound only while every `new=` at a _binop call site is the receiver
    n_sites = 0
    for name, fn in model.methods.items():
        for n in ast.walk(fn.node):
            if isinstance(n, ast.Call) and isinstance(n.func, ast.Attribute) and n.func.attr == "_binop":
                for kw in n.keywords:
                    if kw.arg == "new":
                        n_sites += 1
                        recv = unparse(n.func.value)
                        chk.ob("C10-R3", f"series.Series.{name}[_binop new=]", unparse(kw.value) == recv,
                               f"{recv}._binop(..., new={unparse(kw.value)})", fn.loc())
                if len(n.args) >= 3:
                    n_sites += 1
                    chk.ob("C10-R3", f"series.Series.{name}[_binop new positional]", unparse(n.args[2]) == unparse(n.func.value),
                           f"third positional argument {unparse(n.args[2])}", fn.loc())
    # positive fixture
    fx = ast.parse("def f(self, other):\n    other.data = 1\n").body[0]
    b = fx.body[0].targets[0]
    if not (isinstance(b, ast.Attribute) and b.value.id == "other"):
        raise AnalysisError("C10-R3 fixture broken")


def rule_r4(chk, model):
    chk.rule("C10-R4", "_binop cuts both operands with get_data_from_until(from_until) for the one from_until obtained from "
             "get_encompassing_span(self, other); the result starts at from_until[0]; non-Series operands go through apply", floor=4)
    fn = model.methods["_binop"]
    chk.saw(fn.mod, fn.qual)
    ps = params(fn.node)
    src = unparse(fn.node).replace(" ", "")
    enc = [n for n in walk_no_nested(fn.node) if isinstance(n, ast.Assign) and isinstance(n.value, ast.Call)
           and dotted(n.value.func) == "_dates.get_encompassing_span"]
    ok = len(enc) == 1 and sorted(unparse(a) for a in enc[0].value.args) == sorted(ps[:2])
    span_name = None
    if ok:
        t = enc[0].targets[0]
        if isinstance(t, ast.Tuple) and len(t.elts) == 2 and isinstance(t.elts[1], ast.Starred):
            span_name = t.elts[1].value.id
    chk.ob("C10-R4", "series.Series._binop[common span]", ok and span_name is not None,
           f"{unparse(enc[0]) if enc else '?'}", fn.loc())
    cuts = [n for n in ast.walk(fn.node) if isinstance(n, ast.Call) and isinstance(n.func, ast.Attribute) and n.func.attr == "get_data_from_until"]
    recvs = sorted(unparse(c.func.value) for c in cuts)
    ok = len(cuts) == 2 and recvs == sorted(ps[:2]) and all(len(c.args) == 1 and unparse(c.args[0]) == span_name for c in cuts)
    chk.ob("C10-R4", "series.Series._binop[both operands cut by it]", ok, f"cuts: {[unparse(c) for c in cuts]}", fn.loc())
    ok = f"new._replace_start_and_values({span_name}[0],new_data)" in src
    chk.ob("C10-R4", "series.Series._binop[result start]", ok, "result starts at the first period of the common span", fn.loc())
    ok = f"ifnotisinstance({ps[1]},type({ps[0]})):return{ps[0]}.apply(lambdadata:func(data,{ps[1]}))" in src.replace("\n", "")
    chk.ob("C10-R4", "series.Series._binop[scalar operand]", ok, "a non-Series operand is applied element-wise to the data", fn.loc())
    # get_data_from_until: [pos[0], pos[-1]+1)
    g = model.methods["get_data_from_until"]
    chk.saw(g.mod, g.qual)
    src = unparse(g.node).replace(" ", "")
    ok = "from_pos,to_pos=(pos[0],pos[-1]+1)" in src and "returnexpanded_data[from_pos:to_pos,variants]" in src
    chk.ob("C10-R4", "series.Series.get_data_from_until", ok, "rows [first position, last position + 1) of the expanded data", g.loc())
    # generated comparisons route through _binop with the operator of the same name
    for n in ("gt", "lt", "ge", "le", "eq", "ne"):
        f = model.methods.get(f"__{n}__")
        ok = f is not None and unparse(f.node.body[0]).replace(" ", "") == f"returnself._binop(other,_op.{n})"
        chk.ob("C10-R4", f"series.Series.__{n}__", ok, f"self._binop(other, _op.{n})", f.loc() if f else "")
    ops = {"__add__": "add", "__sub__": "sub", "__mul__": "mul", "__truediv__": "truediv", "__pow__": "pow", "__floordiv__": "floordiv", "__mod__": "mod"}
    for d, o in ops.items():
        f = model.methods.get(d)
        ok = f is not None and f"returnself._binop(other,_op.{o})" in unparse(f.node).replace(" ", "")
        chk.ob("C10-R4", f"series.Series.{d}", ok, f"self._binop(other, _op.{o})", f.loc() if f else "")
        r = model.methods.get("__r" + d[2:])
        ok = r is not None and f"returnself.apply(lambdadata:data.__r{d[2:]}(other))" in unparse(r.node).replace(" ", "")
        chk.ob("C10-R4", f"series.Series.__r{d[2:]}", ok, f"reflected operator applies data.__r{d[2:]}(other)", r.loc() if r else "")


def _max_call(node, conv):
    n = dotted(node.func)
    if n in ("max", "min") and len(node.args) == 2 and not node.keywords:
        args = sorted((conv(a) for a in node.args), key=lambda e: repr(alg.nf(e).key()))
        return alg.app(n, *args)
    return None


def rule_r5(chk, model):
    chk.rule("C10-R5", "write positions: add_before = max(-min_pos, 0), add_after = max(max_pos - n + 1, 0), positions shifted by "
             "add_before, and set_data moves start back by exactly add_before; _shift_by_number is start -= by; end = start + rows - 1", floor=6)
    g = model.functions.get(("main", "_get_date_positions"))
    if g is None:
        raise AnalysisError("anchor vanished: _get_date_positions")
    chk.saw(g.mod, g.qual)
    env = {n.targets[0].id: n.value for n in walk_no_nested(g.node) if isinstance(n, ast.Assign) and isinstance(n.targets[0], ast.Name)}
    conv = alg.ToIR(call=_max_call)
    try:
        ok = alg.equal(conv(env["add_before"]), alg.app("max", *sorted([alg.neg(sym("min_pos")), num(0)], key=lambda e: repr(alg.nf(e).key()))))
        chk.ob("C10-R5", "series.main._get_date_positions[add_before]", ok, f"add_before = {unparse(env['add_before'])}", g.loc())
        want = alg.app("max", *sorted([add(sub(sym("max_pos"), sym(params(g.node)[2])), num(1)), num(0)], key=lambda e: repr(alg.nf(e).key())))
        ok = alg.equal(conv(env["add_after"]), want)
        chk.ob("C10-R5", "series.main._get_date_positions[add_after]", ok, f"add_after = {unparse(env['add_after'])}", g.loc())
    except (Undecided, KeyError) as e:
        chk.undecided("C10-R5", "series.main._get_date_positions", str(e), g.loc())
    pa = env.get("pos_adjusted")
    ok = isinstance(pa, ast.ListComp) and unparse(pa.elt).replace(" ", "") == "p+add_beforeifpisnotNoneelseNone"
    chk.ob("C10-R5", "series.main._get_date_positions[positions]", ok, "each position is shifted by add_before", g.loc())
    ok = unparse(env.get("pos", ast.Constant(0))).replace(" ", "") == f"tuple(_dates.period_indexes({params(g.node)[0]},{params(g.node)[1]}))"
    chk.ob("C10-R5", "series.main._get_date_positions[base]", ok, "positions are period - base", g.loc())
    # the whole helper by finite evaluation: any order of the requested periods, gaps (None), before / inside / after the stored rows
    gps = params(g.node)
    bad, n_cases = None, 0
    try:
        for rows in (0, 1, 4):
            for pos_in in ((0, 1, 2), (2, 1, 0), (-2, -1, 0), (0, -1, -2), (3, 5, 4), (5, -3, 1), (None, 2, None), (None, None), (), (-1,), (6, 2, -4, None, 0)):
                got = fin.run_function(g.node, dict(zip(gps, ("DATES", "BASE", rows))), funcs={"_dates.period_indexes": lambda d, b, pos_in=pos_in: iter(pos_in)}, env={})
                n_cases += 1
                adj, before, after = list(got[0]), got[1], got[2]
                size = rows + before + after
                shifted = [p_ + before if p_ is not None else None for p_ in pos_in]
                inside = all(a_ is None or 0 <= a_ < size for a_ in adj)
                if adj != shifted or before < 0 or after < 0 or not inside:
                    bad = (pos_in, rows, (adj, before, after), f"positions + add_before, every one inside the {size} padded rows")
                    break
            if bad:
                break
        chk.ob("C10-R5", "series.main._get_date_positions[any order of periods]", bad is None,
               f"{n_cases} cases (ascending, descending, unsorted, with gaps, before/inside/after 0, 1, 4 stored rows): every requested position, shifted by "
               "add_before, is a valid row of the padded data (no negative index, none past the end)" if bad is None else
               f"positions {bad[0]} against {bad[1]} stored rows: (adjusted, add_before, add_after) = {bad[2]} (want {bad[3]}): a negative row index wraps round to the end of the data",
               g.loc(), sure=True)
    except (fin.NotFinite, TypeError, IndexError) as ex:
        chk.undecided("C10-R5", "series.main._get_date_positions[any order of periods]", f"not evaluable: {type(ex).__name__}: {ex}", g.loc())
    s = model.methods["set_data"]
    chk.saw(s.mod, s.qual)
    src = unparse(s.node).replace(" ", "")
    ok = ("pos,add_before,add_after=_get_date_positions(dates,self.start,self.shape[0])" in src
          and "self.data=self._create_expanded_data(add_before,add_after)" in src and "ifadd_before:self.start-=add_before" in src.replace("\n", "")
          and "self.data[pos,c]=d" in src)
    chk.ob("C10-R5", "series.Series.set_data[start moves with padding]", ok,
           "data padded by (add_before, add_after); start -= add_before; cells written at the adjusted positions", s.loc())
    e = model.methods["_create_expanded_data"]
    ok = "_np.pad(self.data,((add_before,add_after),(0,0)),mode='constant',constant_values=_np.nan)" in unparse(e.node).replace(" ", "")
    chk.ob("C10-R5", "series.Series._create_expanded_data", ok, "pads rows with NaN: reads outside the span return NaN", e.loc())
    f = model.methods["_shift_by_number"]
    chk.saw(f.mod, f.qual)
    st = [n for n in walk_no_nested(f.node) if isinstance(n, ast.AugAssign)]
    ok = len(st) == 1 and unparse(st[0]).replace(" ", "") == f"self.start-={params(f.node)[1]}"
    chk.ob("C10-R5", "series.Series._shift_by_number", ok, "x.shift(k): value at t moves to t-k (start -= k), data untouched", f.loc())
    en = model.methods["end"]
    try:
        r = [n for n in walk_no_nested(en.node) if isinstance(n, ast.Return)][0].value
        body = r.body if isinstance(r, ast.IfExp) else r
        ok = alg.equal(alg.ToIR(attr=lambda s_: {"self.start": sym("s"), "self.data.shape": None}.get(s_),
                                subscript=lambda n, c: sym("rows") if unparse(n) == "self.data.shape[0]" else None)(body),
                       sub(add(sym("s"), sym("rows")), num(1)))
    except (Undecided, IndexError):
        ok = None
    chk.ob("C10-R5", "series.Series.end", ok, "end = start + rows - 1", en.loc())
    pi = chk.repo.mod("irispie.dates").func("period_indexes")
    ok = "t-baseiftisnotNoneelseNone" in unparse(pi).replace(" ", "")
    chk.ob("C10-R5", "dates.period_indexes", ok, "index of a period is period - base", "src/irispie/dates.py")
    # shift dispatch
    sh = model.methods["shift"]
    from ..core import conditions_at
    byp = params(sh.node)[1]
    num_calls = [c for c in ast.walk(sh.node) if isinstance(c, ast.Call) and dotted(c.func) == "self._shift_by_number"]
    kw_calls = [c for c in ast.walk(sh.node) if isinstance(c, ast.Call) and isinstance(c.func, ast.Call) and dotted(c.func.func) == "getattr"]
    ok = None
    if len(num_calls) == 1 and len(kw_calls) == 1:
        lit = f"isinstance({byp},int)"
        c_num = conditions_at(sh.node, num_calls[0])
        c_kw = conditions_at(sh.node, kw_calls[0])
        name_arg = kw_calls[0].func.args[1] if len(kw_calls[0].func.args) > 1 else None
        name_src = assign_value_of(sh.node, name_arg.id) if isinstance(name_arg, ast.Name) else name_arg
        from ..tpl import eval_str, NotAString
        try:
            fmt_ok = name_src is not None and eval_str(name_src, {byp: "KW"}) == "_shift_KW"
        except NotAString:
            fmt_ok = None
        ok = None if fmt_ok is None else ((lit, True) in c_num and (lit, False) in c_kw and unparse(num_calls[0].args[0]) == byp and fmt_ok)
    have = [k for k in ("yoy", "soy", "eopy", "tty") if f"_shift_{k}" in model.methods]
    chk.ob("C10-R5", "series.Series.shift[dispatch]", (ok and len(have) == 4) if ok is not None else None,
           f"integers go to _shift_by_number, anything else to _shift_<kw>; defined: {have}", sh.loc())


def rule_r6(chk, model):
    chk.rule("C10-R6", "_interpolation_linear is affine in the index with value p at ip and n at in; log-linear is exp o linear o log; "
             "moving_window pads L-1 leading rows for a window of length L = -window (lags 0..L-1)", floor=5)
    fm = chk.repo.mod("irispie.series._filling")
    f = fm.func("_interpolation_linear")
    chk.saw(fm, "_interpolation_linear")
    ps = params(f)
    env = {}
    try:
        conv = alg.ToIR(env=env)
        for st in strip_docstring(f.body):
            if isinstance(st, ast.Assign):
                env[st.targets[0].id] = alg.ToIR(env=dict(env))(st.value)
            elif isinstance(st, ast.Return):
                r = alg.ToIR(env=dict(env))(st.value)
        p, n, ip, in_, i = (sym(x) for x in ps)
        d2 = alg.diff(alg.diff(r, ps[4]), ps[4])
        chk.ob("C10-R6", "series._filling._interpolation_linear[affine]", alg.is_zero(d2), "second derivative in the index is 0", fm.loc(f))
        for label, point, want in (("at previous", ip, p), ("at next", in_, n)):
            try:
                val = alg.subst(r, {ps[4]: point})
                chk.ob("C10-R6", f"series._filling._interpolation_linear[{label}]", alg.equal(val, want),
                       f"value {label} index = {alg.show_rat(alg.nf(val))}", fm.loc(f))
            except Undecided as e:
                if "division by zero" in str(e):
                    chk.bad("C10-R6", f"series._filling._interpolation_linear[{label}]", f"formula is undefined {label} index ({e})", fm.loc(f))
                else:
                    chk.undecided("C10-R6", f"series._filling._interpolation_linear[{label}]", str(e), fm.loc(f))
    except (Undecided, UnboundLocalError) as e:
        chk.undecided("C10-R6", "series._filling._interpolation_linear", str(e), fm.loc(f))
    g = fm.func("_interpolation_log_linear")
    chk.saw(fm, "_interpolation_log_linear")
    gp = params(g)
    src = unparse(g).replace(" ", "")
    ok = f"return_np.exp(_interpolation_linear(_np.log({gp[0]}),_np.log({gp[1]}),{gp[2]},{gp[3]},{gp[4]}))" in src
    chk.ob("C10-R6", "series._filling._interpolation_log_linear", ok, "exp(linear(log p, log n, ...))", fm.loc(g))
    h = fm.func("_fill_interp")
    src = unparse(h).replace(" ", "")
    ok = "data[i]=func(data[prev],data[next_],prev,next_,i)" in src and "prev=_previous_index(i,where_obs)" in src and "next_=_next_index(i,where_obs)" in src
    chk.ob("C10-R6", "series._filling._fill_interp[argument order]", ok, "func(previous value, next value, previous index, next index, current index)", fm.loc(h))
    mw = model.methods["moving_window"]
    chk.saw(mw.mod, mw.qual)
    src = unparse(mw.node).replace(" ", "")
    ok = ("window_length=-window" in src and "pad_width=((window_length-1,0),(0,0))" in src and "constant_values=_np.nan" in src
          and "sliding_window_view(data,window_shape=window_length,axis=0)" in src and "new_data=func(data_windows,axis=2)" in src
          and "self._replace_data(new_data)" in src)
    chk.ob("C10-R6", "series._moving.moving_window", ok, "row t sees rows t-L+1..t (lags 0..L-1), padded with NaN before the start", mw.loc())
    # cross-check with the parser: mov_sum(x, -L) expands to lags 0..L-1
    from .. import modellang
    m, tab, pf = modellang.pseudofunction_table(chk.repo)
    txt = modellang.expand(chk.repo, pf["mov_sum"][0], "x", -3)
    ok = txt.replace(" ", "") == "((x)+(x[-1])+(x[-2]))"
    chk.ob("C10-R6", "series._moving.moving_window~parsers.mov_sum", ok, f"parser mov_sum(x,-3) = {txt}: same lag set 0..L-1", mw.loc())


def rule_r7(chk, model):
    from ..names import unresolved_globals
    chk.rule("C10-R7", "every global name loaded in the Series modules resolves at run time (exec-generated names included)", floor=8)
    for mod in [model.main] + model.inlay_modules:
        short = mod.name.split(".")[-1]
        gen = [f.name for f in model.generated_functions if f.mod is mod] + [f.name for f in model.generated_methods if f.mod is mod]
        unres = unresolved_globals(mod, chk.repo, extra_bound=gen)
        seen = set()
        for scope, nm in unres:
            if (scope, nm) in seen:
                continue
            seen.add((scope, nm))
            chk.bad("C10-R7", f"series.{short}[{scope}].{nm}", f"name {nm!r} loaded in {scope} is bound nowhere (NameError when executed)", mod.rel)
        if not unres:
            chk.ok("C10-R7", f"series.{short}[all scopes]", "every loaded global resolves", mod.rel)
        chk.saw(mod)


def _returns_deepcopy_of_self(f):
    """every return value is deepcopy(self), directly or through a local bound once (plain or annotated assignment) to it"""
    rets = [r.value for r in walk_no_nested(f) if isinstance(r, ast.Return) and r.value is not None]
    if not rets:
        return False
    ann = {n.target.id: n.value for n in walk_no_nested(f) if isinstance(n, ast.AnnAssign) and isinstance(n.target, ast.Name) and n.value is not None}
    plain = {}
    for n in walk_no_nested(f):
        if isinstance(n, ast.Assign) and len(n.targets) == 1 and isinstance(n.targets[0], ast.Name):
            plain.setdefault(n.targets[0].id, []).append(n.value)
    def res(e, depth=3):
        while isinstance(e, ast.Name) and depth:
            if e.id in ann and e.id not in plain:
                e = ann[e.id]
            elif e.id in plain and len(plain[e.id]) == 1 and e.id not in ann:
                e = plain[e.id][0]
            else:
                break
            depth -= 1
        return e
    return all(isinstance(res(r), ast.Call) and (dotted(res(r).func) or "").endswith("deepcopy") and res(r).args and unparse(res(r).args[0]) == params(f)[0] for r in rets)


def rule_r9(chk, model):
    chk.rule("C10-R9", "a new Series never shares storage with the one it was made from: conveniences.copies.Mixin.copy is a deep copy, and no "
             "function of the series package takes a shallow copy (copy.copy / __copy__) of a series - a shifted or transformed result that "
             "aliases .data lets a later in-place edit of the result rewrite the original", floor=10, shape_independent=True)
    cm = chk.repo.mod("irispie.conveniences.copies")
    cf = cm.func("Mixin.copy")
    chk.saw(cm, "Mixin.copy")
    rets = [r.value for r in walk_no_nested(cf) if isinstance(r, ast.Return)]
    ok = _returns_deepcopy_of_self(cf)
    chk.ob("C10-R9", "conveniences.copies.Mixin.copy", ok, f"returns {unparse(rets[0]) if rets else '?'}" + (" = deepcopy(self)" if ok else ""), cm.loc(cf), sure=True)
    n = 0
    for mod in chk.repo.modules.values():
        if not mod.name.startswith("irispie.series"):
            continue
        aliases = mod.aliases
        copy_mod_names = {k for k, v in aliases.items() if v == "copy"}
        shallow_funcs = {k for k, v in aliases.items() if v == "copy.copy"}
        for q, f in mod.functions():
            for c in ast.walk(f):
                if not isinstance(c, ast.Call):
                    continue
                d = dotted(c.func) or ""
                is_shallow = (d.split(".")[0] in copy_mod_names and d.endswith(".copy") and d.count(".") == 1) or d in shallow_funcs or d.endswith(".__copy__")
                is_deep = d.endswith(".copy") and not is_shallow and d.split(".")[0] in ("self", "other", "object", "new", "x") and not c.args
                if is_shallow:
                    chk.bad("C10-R9", f"{mod.name.replace('irispie.', '')}.{q}[{unparse(c)[:40]}]", f"{unparse(c)} is a SHALLOW copy: the result shares .data with "
                            f"{unparse(c.args[0]) if c.args else 'its source'}", mod.loc(c), sure=True)
                    chk.saw(mod, q)
                elif is_deep:
                    n += 1
                    chk.ok("C10-R9", f"{mod.name.replace('irispie.', '')}.{q}[{unparse(c)[:40]}@{c.lineno}]", "deep copy through Mixin.copy", mod.loc(c))


def run(chk):
    model = SeriesModel(chk.repo)
    chk.extra["c10_methods_resolved"] = len(model.methods)
    chk.extra["c10_generated"] = len(model.generated_methods) + len(model.generated_functions)
    chk.guard(rule_r3, chk, model)
    chk.guard(rule_r1, chk, model)
    chk.guard(rule_r2, chk, model)
    chk.guard(rule_r4, chk, model)
    chk.guard(rule_r5, chk, model)
    chk.guard(rule_r7, chk, model)
    chk.guard(rule_r6, chk, model)
    chk.guard(rule_r9, chk, model)
    from .. import gens
    chk.guard(gens.apply, chk, "C10-R8", {"series"}, 5, "a generator of periods or variants consumed twice leaves later variants / later passes without data")
    from .. import unused as _unused
    chk.guard(_unused.apply, chk, "C10-R91")
    from . import c14 as _c14
    chk.guard(_c14.rule_r5, chk, rid="C10-R12")
    from .. import recon as _recon
    chk.guard(_recon.apply, chk, "C10-R11", {"dates", "series", "databoxes"})
    from .. import endpoints as _endpoints
    chk.guard(_endpoints.apply, chk, "C10-R10", {"dates", "series", "databoxes"})
    from .. import args as _args
    chk.guard(_args.apply, chk, "C10-R90", {'series'}, 1)
    chk.assumptions = [
        "numpy element-wise functions preserve which cells are NaN (exemptions listed in NONDIRTY with reasons)",
        "implicit exceptions are not modelled: a path that raises leaves no obligation",
        "from_start_and_array is analysed for its default trim=True",
        "arbitrary operation histories are covered only through the per-operation invariant (clean in => clean out)",
    ]

"""
C17 — Sequential simulation makes every equation hold, also when exogenized.

  R1  each LHS transform: level formula is the algebraic inverse of the transform its pattern denotes
  R2  the text the parser emits for f(name) is matched by that transform's pattern and by no earlier one
  R3  plan transforms invert the same forward formulas; CHOOSE_TRANSFORM_CLASS covers the LHS transforms
  R4  residual back-out: after exogenize, transform(lhs) = rhs0 + residual holds identically
  R5  both execution iterators yield ((column, date), equation)
"""
from __future__ import annotations

import ast
import re

from .. import alg, rx, modellang
from ..alg import Undecided, sym, num, add, sub
from ..core import AnalysisError, dotted, unparse, params, walk_no_nested, strip_docstring, literal
from ..formulas import FORMULAS, x, y
from ..tpl import eval_str, NotAString

TMOD = "irispie.explanatories._transforms"
EMOD = "irispie.explanatories.main"
PMOD = "irispie.plans.transforms"
SMOD = "irispie.sequentials._simulate"

# class-name suffix -> formula key (CamelCase -> snake_case), derived mechanically
def _snake(s):
    return re.sub(r"(?<!^)(?=[A-Z])", "_", s).lower()


def _lhs_classes(chk):
    m = chk.repo.mod(TMOD)
    tup = m.assign("_ALL_LHS_TRANSFORMS")
    if not isinstance(tup, ast.Tuple):
        raise AnalysisError("_ALL_LHS_TRANSFORMS is not a tuple literal")
    out = []
    for e in tup.elts:
        cname = e.id
        pat = m.class_attr(cname, "_LHS_PATTERN")
        if not (isinstance(pat, ast.Call) and dotted(pat.func) in ("_re.compile", "re.compile")):
            raise AnalysisError(f"{cname}._LHS_PATTERN is not re.compile(<literal>)")
        try:
            pattern = eval_str(pat.args[0], {})
        except NotAString as ex:
            raise AnalysisError(f"{cname}._LHS_PATTERN not a literal: {ex}")
        out.append((cname, pattern, m.func(f"{cname}.create_eval_level_str")))
    return m, out


def _level_ir(f, lag_symbol_prefix="x"):
    """IR of the f-string returned by create_eval_level_str with rhs -> r and lag token -> x@k."""
    ps = params(f)
    env = {ps[2]: "r"}
    for n in walk_no_nested(f):
        if isinstance(n, ast.Assign) and isinstance(n.targets[0], ast.Name):
            v = n.value
            # lhs_token.shifted(K).print_xtring()
            if isinstance(v, ast.Call) and isinstance(v.func, ast.Attribute) and v.func.attr == "print_xtring" \
                    and isinstance(v.func.value, ast.Call) and isinstance(v.func.value.func, ast.Attribute) \
                    and v.func.value.func.attr == "shifted" and unparse(v.func.value.func.value) == ps[1]:
                k = literal(v.func.value.args[0])
                env[n.targets[0].id] = f"{lag_symbol_prefix}[{k}]"
    rets = [n for n in walk_no_nested(f) if isinstance(n, ast.Return)]
    if len(rets) != 1:
        raise Undecided("create_eval_level_str has several returns")
    text = eval_str(rets[0].value, env)
    return text, alg.parse_model_expr(text)


def rule_r1_r2(chk):
    chk.rule("C17-R1", "for each class in _ALL_LHS_TRANSFORMS: substituting the level formula l(r, x[-1]) for x in the "
             "transform t(x, x[-1]) denoted by _LHS_PATTERN gives r identically; the transform is the documented formula "
             "of that name", floor=10, shape_independent=True)
    chk.rule("C17-R2", "the text the preparser emits for <transform>(name) with the default shift fully matches the "
             "transform's _LHS_PATTERN and no earlier pattern in the tuple; NAME alone matches only the first", floor=6)
    m, classes = _lhs_classes(chk)
    table_m, tab, pf = modellang.pseudofunction_table(chk.repo)
    emitted = {}
    for cname, pattern, f in classes:
        chk.saw(m, f"{cname}.create_eval_level_str")
        key = _snake(cname.replace("LhsTransform", ""))
        construct = f"explanatories._transforms.{cname}"
        try:
            tmpl = rx.to_template(pattern, {1: "x"})
        except rx.Unsupported as e:
            chk.undecided("C17-R1", construct, f"pattern not a literal template: {e}", m.loc(f))
            continue
        try:
            tau = alg.parse_model_expr(tmpl)
            text, lev = _level_ir(f)
            # inverse obligation
            back = alg.subst(tau, {"x": lev})
            ok = alg.equal(back, sym("r"))
            chk.ob("C17-R1", construct + "[inverse]", ok,
                   f"pattern denotes t(x)={tmpl}; level formula x={text}; t(level) = {alg.show_rat(alg.nf(back))} (must be r)", m.loc(f))
            # forward formula is the documented one
            if key in FORMULAS:
                want = alg.subst(FORMULAS[key], {"y": sym("x@-1")})
                chk.ob("C17-R1", construct + "[formula]", alg.equal(tau, want),
                       f"pattern denotes {alg.show_rat(alg.nf(tau))}; documented {key} = {alg.show_rat(alg.nf(want))}", m.loc(f))
            else:
                chk.undecided("C17-R1", construct + "[formula]", f"no documented formula named {key}", m.loc(f))
        except (Undecided, NotAString, AnalysisError, SyntaxError) as e:
            chk.undecided("C17-R1", construct, str(e), m.loc(f))
        # R2: what the parser emits
        if key == "none":
            emitted[cname] = "x_1"
        elif key == "log":
            emitted[cname] = "log(x_1)"
        elif key in pf:
            builder, dshift = pf[key]
            emitted[cname] = "".join(modellang.expand(chk.repo, builder, "x_1", dshift).split())
        else:
            chk.undecided("C17-R2", construct, f"no pseudofunction named {key}", m.loc(f))
    for i, (cname, pattern, f) in enumerate(classes):
        if cname not in emitted:
            continue
        text = emitted[cname]
        construct = f"explanatories._transforms.{cname}"
        own = re.fullmatch(pattern, text)
        earlier = [c for c, p, _ in classes[:i] if re.fullmatch(p, text)]
        ok = own is not None and own.group(1) == "x_1" and not earlier
        chk.ob("C17-R2", construct, ok,
               f"parser emits {text!r}; own pattern {'matches' if own else 'does NOT match'}"
               + (f"; shadowed by earlier {earlier}" if earlier else ""), m.loc(f))
    # recognize_transform_in_equation uses fullmatch and group(1), iterating the tuple in order
    f = m.func("recognize_transform_in_equation")
    chk.saw(m, "recognize_transform_in_equation")
    src = unparse(f)
    ok = "for t in _ALL_LHS_TRANSFORMS" in src and "._LHS_PATTERN.fullmatch(" in src and "m.group(1)" in src
    chk.ob("C17-R2", "explanatories._transforms.recognize_transform_in_equation", ok,
           "first class whose pattern fullmatches wins; name is group 1", m.loc(f))
    return classes


def rule_r3(chk, lhs_classes):
    chk.rule("C17-R3", "each PlanTransform*.eval_exogenized(r, x_before[shift]) inverts the documented forward formula "
             "of its name; CHOOSE_TRANSFORM_CLASS maps every LHS transform name (and aliases) to that class", floor=10, shape_independent=True)
    m = chk.repo.mod(PMOD)
    tab = m.assign("CHOOSE_TRANSFORM_CLASS")
    from .. import fin as _fin
    val = _fin.module_table(m, "CHOOSE_TRANSFORM_CLASS")
    if not isinstance(val, dict) or not val or not all(isinstance(v, _fin.FuncRef) for v in val.values()):
        raise AnalysisError("CHOOSE_TRANSFORM_CLASS is not a table name -> class built from the module's constants")
    key_to_class = {k: str(v) for k, v in val.items()}
    classes = sorted(set(key_to_class.values()))
    for cname in classes:
        f = m.func(f"{cname}.eval_exogenized")
        chk.saw(m, f"{cname}.eval_exogenized")
        key = _snake(cname.replace("PlanTransform", ""))
        construct = f"plans.transforms.{cname}"
        ps = params(f)
        rets = [n for n in walk_no_nested(f) if isinstance(n, ast.Return)]
        if len(rets) != 1:
            chk.undecided("C17-R3", construct, "several returns", m.loc(f))
            continue

        def subscript(node, conv, ps=ps):
            base = unparse(node.value)
            idx = unparse(node.slice)
            if base == ps[1] and idx == "0":
                return sym("r")
            if base == ps[2] and idx == "self._shift":
                return sym("y")
            if base == ps[2]:
                return sym(f"x_before[{idx}]")      # a reference level taken somewhere else than at the plan's shift: a different quantity
            return None
        try:
            lev = alg.ToIR(subscript=subscript, free_names=False)(rets[0].value)
        except Undecided as e:
            chk.undecided("C17-R3", construct, str(e), m.loc(f))
            continue
        if key == "flat":
            chk.ob("C17-R3", construct, alg.equal(lev, y), f"flat: value = {alg.show_rat(alg.nf(lev))} (must be x_before[shift])", m.loc(f))
            continue
        if key not in FORMULAS:
            chk.undecided("C17-R3", construct, f"no documented formula named {key}", m.loc(f))
            continue
        try:
            back = alg.subst(FORMULAS[key], {"x": lev})
            chk.ob("C17-R3", construct, alg.equal(back, sym("r")),
                   f"{key}(eval_exogenized(r, y), y) = {alg.show_rat(alg.nf(back))} (must be r)", m.loc(f))
        except Undecided as e:
            chk.undecided("C17-R3", construct, str(e), m.loc(f))
    # coverage of LHS transform names + alias agreement
    for cname, _, _ in lhs_classes:
        key = _snake(cname.replace("LhsTransform", ""))
        want = "PlanTransform" + cname.replace("LhsTransform", "")
        chk.ob("C17-R3", f"plans.transforms.CHOOSE_TRANSFORM_CLASS[{key}]", key_to_class.get(key) == want,
               f"key {key!r} -> {key_to_class.get(key)} (LHS transform {cname} needs {want})", m.loc(tab))
    for k, c in sorted(key_to_class.items(), key=lambda kv: str(kv[0])):
        if isinstance(k, str) and "_" not in k and any(isinstance(o, str) and o.replace("_", "") == k and o != k for o in key_to_class):
            other = next(o for o in key_to_class if isinstance(o, str) and o.replace("_", "") == k and o != k)
            chk.ob("C17-R3", f"plans.transforms.CHOOSE_TRANSFORM_CLASS[{k}~{other}]", key_to_class[other] == c,
                   f"alias {k!r}->{c}, {other!r}->{key_to_class[other]}", m.loc(tab))
    # default shift of PlanTransform is -1, the lag the LHS transforms use
    init = m.func("PlanTransform.__init__")
    dflt = {a.arg: d for a, d in zip(init.args.kwonlyargs, init.args.kw_defaults) if d is not None}
    allp = init.args.posonlyargs + init.args.args
    for a, d in zip(allp[len(allp) - len(init.args.defaults):], init.args.defaults):
        dflt[a.arg] = d
    ok = "shift" in dflt and unparse(dflt["shift"]) == "-1"
    chk.ob("C17-R3", "plans.transforms.PlanTransform.__init__[default shift]", ok,
           f"default shift = {unparse(dflt['shift']) if 'shift' in dflt else '?'}", m.loc(init))


def rule_r4(chk):
    chk.rule("C17-R4", "symbolic store over {lhs, residual}: after Explanatory.exogenize, "
             "transform(lhs) - (rhs0 + residual) == 0 for any input residual; simulate() writes eval_level to the lhs row", floor=3)
    m = chk.repo.mod(EMOD)
    # 1. rhs_human gets '+<residual>'
    f = m.func("Explanatory._add_residual_to_rhs")
    chk.saw(m, "Explanatory._add_residual_to_rhs")
    suffix = None
    for n in ast.walk(f):
        if isinstance(n, ast.AugAssign) and dotted(n.target) == "self._rhs_human" and isinstance(n.op, ast.Add):
            try:
                suffix = eval_str(n.value, {"self.residual_name": "RES"})
            except NotAString:
                suffix = None
    if suffix is None:
        raise AnalysisError("anchor vanished: `self._rhs_human += ...residual...` in _add_residual_to_rhs")
    rhs_text = "A*B" + suffix         # compound hole for the user's right-hand side
    # same suffix must go to equation.human (the simulated equation)
    hum = [n for n in ast.walk(f) if isinstance(n, ast.AugAssign) and dotted(n.target) == "self.equation.human"]
    ok = len(hum) == 1 and eval_str(hum[0].value, {"self.residual_name": "RES"}) == suffix
    chk.ob("C17-R4", "explanatories.main.Explanatory._add_residual_to_rhs", ok and suffix == "+RES",
           f"rhs and equation both get suffix {suffix!r}", m.loc(f))
    # 2. residual evaluator body
    g = m.func("Explanatory._create_eval_residual")
    chk.saw(m, "Explanatory._create_eval_residual")
    ps = params(g)
    body = None
    for n in walk_no_nested(g):
        if isinstance(n, ast.Assign) and isinstance(n.targets[0], ast.Name) and n.targets[0].id == "body":
            body = eval_str(n.value, {ps[1]: "LHS", ps[2]: rhs_text})
    if body is None:
        raise AnalysisError("anchor vanished: residual evaluator body")
    # finalize passes lhs/rhs xtrings built from _lhs_human/_rhs_human in that order
    fin = m.func("Explanatory.finalize")
    call = [n for n in ast.walk(fin) if isinstance(n, ast.Call) and dotted(n.func) == "self._create_eval_residual"]
    ok = len(call) == 1 and [unparse(a) for a in call[0].args] == ["lhs_xtring", "rhs_xtring"]
    env = {unparse(n.targets[0].elts[0]): unparse(n.value.args[0]) for n in ast.walk(fin)
           if isinstance(n, ast.Assign) and isinstance(n.targets[0], ast.Tuple) and isinstance(n.value, ast.Call)
           and dotted(n.value.func) == "_equations.xtring_from_human"}
    ok = ok and env.get("lhs_xtring") == "self._lhs_human" and env.get("rhs_xtring") == "self._rhs_human"
    chk.ob("C17-R4", "explanatories.main.Explanatory.finalize[argument order]", ok,
           f"_create_eval_residual(lhs_xtring<-{env.get('lhs_xtring')}, rhs_xtring<-{env.get('rhs_xtring')})", m.loc(fin))
    # 3. interpret exogenize over the two cells
    h = m.func("Explanatory.exogenize")
    chk.saw(m, "Explanatory.exogenize")
    hp = params(h)
    rows = {}
    cells = {"lhs": sym("lhs_old"), "res": sym("res_old")}
    status = None
    detail = ""
    try:
        for st in strip_docstring(h.body):
            if isinstance(st, ast.Assign) and isinstance(st.targets[0], ast.Name):
                v = dotted(st.value)
                if v == "self.lhs_qid":
                    rows[st.targets[0].id] = "lhs"
                elif v == "self.residual_qid":
                    rows[st.targets[0].id] = "res"
                continue
            if isinstance(st, ast.Assign) and isinstance(st.targets[0], ast.Subscript) and unparse(st.targets[0].value) == hp[1]:
                sl = st.targets[0].slice
                rowname = unparse(sl.elts[0]) if isinstance(sl, ast.Tuple) else None
                cell = rows.get(rowname)
                if cell is None:
                    raise Undecided(f"store to unknown row {rowname}")

                def call(node, conv):
                    if dotted(node.func) == "self.eval_residual":
                        e = alg.parse_model_expr(body)
                        # LHS stands for transform(lhs cell) which is fixed once lhs is written; RES is the residual cell
                        return alg.subst(e, {"RES": cells["res"], "LHS": alg.app("T", cells["lhs"])})
                    return None

                def subscript(node, conv):
                    if unparse(node.value) == hp[1] and isinstance(node.slice, ast.Tuple):
                        c = rows.get(unparse(node.slice.elts[0]))
                        if c:
                            return cells[c]
                    return None
                val = alg.ToIR(env={hp[3]: sym("V")}, call=call, subscript=subscript, free_names=False)(st.value)
                cells[cell] = val
                continue
            if isinstance(st, (ast.Return, ast.Expr)):
                continue
            if isinstance(st, ast.Assign):
                continue
        eq = sub(alg.app("T", cells["lhs"]), add(alg.parse_model_expr("A*B"), cells["res"]))
        status = alg.is_zero(eq)
        detail = (f"after exogenize: lhs={alg.show_rat(alg.nf(cells['lhs']))}, residual={alg.show_rat(alg.nf(cells['res']))}; "
                  f"T(lhs)-(rhs0+residual) = {alg.show_rat(alg.nf(eq))} (must be 0)")
    except (Undecided, SyntaxError) as e:
        status, detail = None, str(e)
    chk.ob("C17-R4", "explanatories.main.Explanatory.exogenize[equation holds]", status, detail, m.loc(h))
    # simulate(): lhs row receives eval_level
    s = m.func("Explanatory.simulate")
    chk.saw(m, "Explanatory.simulate")
    stores = [n for n in walk_no_nested(s) if isinstance(n, ast.Assign) and isinstance(n.targets[0], ast.Subscript)]
    ok = len(stores) == 1 and unparse(stores[0].targets[0]).replace(" ", "") == "data[lhs_row,columns]" \
        and unparse(stores[0].value).replace(" ", "") == "self.eval_level(data,columns)"
    chk.ob("C17-R4", "explanatories.main.Explanatory.simulate", ok, "data[lhs_row, columns] = eval_level(data, columns) and nothing else is stored", m.loc(s))


def rule_r5(chk):
    chk.rule("C17-R5", "every entry of _CREATE_EXECUTION_ITERATOR yields ((column, date), equation) in that element order, "
             "the order the simulation loop unpacks", floor=3)
    m = chk.repo.mod(SMOD)
    tab = m.assign("_CREATE_EXECUTION_ITERATOR")
    if not isinstance(tab, ast.Dict):
        raise AnalysisError("_CREATE_EXECUTION_ITERATOR is not a dict literal")

    def order_of(expr, f):
        """abstract element order of an iterator expression: tuple of parameter names"""
        ps = params(f)
        if isinstance(expr, ast.Call):
            n = dotted(expr.func)
            if n and n.endswith("product") and len(expr.args) == 2 and all(isinstance(a, ast.Name) for a in expr.args):
                return tuple(ps.index(a.id) for a in expr.args)
            if n and m.has(n):
                g = m.func(n)
                inner = order_of(expr.args[0], f)
                rets = [r for r in walk_no_nested(g) if isinstance(r, ast.Return)]
                if inner and len(rets) == 1 and isinstance(rets[0].value, ast.GeneratorExp):
                    ge = rets[0].value
                    tgt = [t.id for t in ge.generators[0].target.elts]
                    elt = [e.id for e in ge.elt.elts]
                    if unparse(ge.generators[0].iter) == params(g)[0] and not ge.generators[0].ifs:
                        return tuple(inner[tgt.index(e)] for e in elt)
        return None
    for k, v in zip(tab.keys, tab.values):
        key = literal(k)
        f = m.func(v.id)
        chk.saw(m, v.id)
        rets = [r for r in walk_no_nested(f) if isinstance(r, ast.Return)]
        o = order_of(rets[0].value, f) if len(rets) == 1 else None
        chk.ob("C17-R5", f"sequentials._simulate._CREATE_EXECUTION_ITERATOR[{key}]", None if o is None else o == (0, 1),
               f"{v.id} yields elements in parameter order {o} (must be (columns_dates, equations) = (0, 1))", m.loc(f))
    sv = m.func("_simulate_v")
    chk.saw(m, "_simulate_v")
    loops = [n for n in walk_no_nested(sv) if isinstance(n, ast.For) and unparse(n.iter) == "columns_dates_equations"]
    ok = len(loops) == 1 and unparse(loops[0].target).replace(" ", "") == "((column,date),equation)"
    calls = [n for n in ast.walk(sv) if isinstance(n, ast.Call) and dotted(n.func) == "iterator_creator"]
    ok = ok and len(calls) == 1 and unparse(calls[0].args[0]) == "columns_dates" and "iter_equations" in unparse(calls[0].args[1])
    chk.ob("C17-R5", "sequentials._simulate._simulate_v[unpack]", ok,
           "loop unpacks ((column, date), equation) from iterator_creator(columns_dates, equations)", m.loc(sv))


def rule_r7(chk):
    chk.rule("C17-R7", "exogenized points are recognised by None-ness, not truthiness: _detect_exogenized returns an implied value "
             "or None; the simulator tests its result only with `is None` / `is not None` (an implied level of exactly 0.0 is a "
             "legitimate exogenized value) and dispatches None -> equation.simulate, value -> equation.exogenize", floor=3)
    m = chk.repo.mod("irispie.sequentials._simulate")
    d = m.func("_detect_exogenized")
    chk.saw(m, "_detect_exogenized")
    rets = [r.value for r in walk_no_nested(d) if isinstance(r, ast.Return)]
    kinds = sorted({"None" if (isinstance(r, ast.Constant) and r.value is None) else "value" for r in rets})
    chk.ob("C17-R7", "sequentials._simulate._detect_exogenized[returns]", kinds == ["None", "value"], f"return kinds: {kinds}", m.loc(d))
    user = None
    for q, f in m.functions():
        for n in walk_no_nested(f):
            if isinstance(n, ast.Assign) and isinstance(n.value, ast.Call) and dotted(n.value.func) in ("detect_exogenized", "_detect_exogenized") \
                    and isinstance(n.targets[0], ast.Name):
                user = (q, f, n.targets[0].id)
    if user is None:
        raise AnalysisError("anchor vanished: call of detect_exogenized")
    q, f, v = user
    chk.saw(m, q)
    truthy = []
    for n in ast.walk(f):
        tests = []
        if isinstance(n, (ast.If, ast.IfExp, ast.While)):
            tests.append(n.test)
        if isinstance(n, ast.BoolOp):
            tests.extend(n.values)
        if isinstance(n, ast.UnaryOp) and isinstance(n.op, ast.Not):
            tests.append(n.operand)
        for t in tests:
            if isinstance(t, ast.Name) and t.id == v:
                truthy.append(t)
    chk.ob("C17-R7", f"sequentials._simulate.{q}[no truthiness test]", not truthy,
           f"{v} is tested only for None-ness" if not truthy else
           f"line {truthy[0].lineno}: `{v}` is used as a truth value; an implied value of 0.0 is then treated as 'not exogenized'", m.loc(truthy[0]) if truthy else m.loc(f))
    disp = [n for n in ast.walk(f) if isinstance(n, ast.IfExp) and {"equation.simulate", "equation.exogenize"} == {unparse(n.body), unparse(n.orelse)}]
    if len(disp) != 1:
        chk.undecided("C17-R7", f"sequentials._simulate.{q}[dispatch]", "simulate/exogenize dispatch not recognised", m.loc(f))
    else:
        t = disp[0].test
        none_branch = None
        if isinstance(t, ast.Compare) and len(t.ops) == 1 and unparse(t.left) == v and isinstance(t.comparators[0], ast.Constant) and t.comparators[0].value is None:
            none_branch = disp[0].body if isinstance(t.ops[0], ast.Is) else disp[0].orelse if isinstance(t.ops[0], ast.IsNot) else None
        ok = (unparse(none_branch) == "equation.simulate") if none_branch is not None else (False if isinstance(t, ast.Name) else None)
        chk.ob("C17-R7", f"sequentials._simulate.{q}[dispatch]", ok, f"{unparse(disp[0])[:100]}", m.loc(disp[0]))


def rule_r8(chk):
    chk.rule("C17-R8", "derived name tables are rebuilt before they are used: in every method of the sequential Invariant that replaces "
             "self.explanatories and then calls helpers on self, a helper that (transitively) reads attributes is called only after "
             "the helpers that (transitively) write those attributes - finalize_explanatories compiles row indexes from the name "
             "tables that collect_names rebuilds", floor=2, shape_independent=True)
    im = chk.repo.mod("irispie.sequentials._invariants")
    meths = im.methods("Invariant")

    def closure(name, what, seen=None):
        seen = seen or set()
        if name in seen or name not in meths:
            return set()
        seen.add(name)
        f = meths[name]
        out = set()
        for n in ast.walk(f):
            if isinstance(n, ast.Attribute) and isinstance(n.value, ast.Name) and n.value.id == "self":
                if what == "w" and isinstance(n.ctx, ast.Store):
                    out.add(n.attr)
                if what == "r" and isinstance(n.ctx, ast.Load) and n.attr not in meths:
                    out.add(n.attr)
                if isinstance(n.ctx, ast.Load) and n.attr in meths:          # a property (or a method about to be called): follow it
                    out |= closure(n.attr, what, seen)
            if isinstance(n, ast.Call) and isinstance(n.func, ast.Attribute) and isinstance(n.func.value, ast.Name) and n.func.value.id == "self":
                out |= closure(n.func.attr, what, seen)
        return out
    n_sites = 0
    for name, f in sorted(meths.items()):
        body = strip_docstring(f.body)
        stores = [i for i, st in enumerate(body) if isinstance(st, ast.Assign) and any(unparse(t) == "self.explanatories" for t in st.targets)]
        if not stores:
            continue
        calls = [(i, st.value.func.attr, st) for i, st in enumerate(body) if i > stores[0] and isinstance(st, ast.Expr) and isinstance(st.value, ast.Call)
                 and isinstance(st.value.func, ast.Attribute) and unparse(st.value.func.value) == "self" and st.value.func.attr in meths]
        if len(calls) < 2:
            continue
        n_sites += 1
        chk.saw(im, f"Invariant.{name}")
        bad = None
        for a in range(len(calls)):
            for b in range(a + 1, len(calls)):
                stale = closure(calls[a][1], "r") & closure(calls[b][1], "w")
                earlier_writes = set().union(*[closure(c[1], "w") for c in calls[:a]]) if a else set()
                stale -= earlier_writes
                if stale:
                    bad = (calls[a], calls[b], sorted(stale))
                    break
            if bad:
                break
        chk.ob("C17-R8", f"sequentials._invariants.Invariant.{name}[rebuild before use]", bad is None,
               f"after replacing self.explanatories: {[c[1] for c in calls]} - every helper runs after the helpers that write what it reads" if bad is None else
               f"{bad[0][1]}() (line {bad[0][2].lineno}) reads {bad[2][:4]}, which {bad[1][1]}() (line {bad[1][2].lineno}) rebuilds only afterwards: the explanatories are "
               "finalized against the name order of the OLD equation order", im.loc(bad[0][2]) if bad else im.loc(f), sure=True)
    if n_sites == 0:
        raise AnalysisError("anchor vanished: no method of sequentials Invariant replaces self.explanatories and calls helpers")


def run(chk):
    classes = chk.guard(rule_r1_r2, chk)
    chk.guard(rule_r3, chk, classes)
    chk.guard(rule_r4, chk)
    chk.guard(rule_r5, chk)
    chk.guard(rule_r7, chk)
    chk.guard(rule_r8, chk)
    from .. import variants
    chk.guard(variants.apply, chk, "C17-R6", [("irispie.sequentials._simulate", "simulate")])
    from .. import merge as _merge
    chk.guard(_merge.apply, chk, "C17-R9", ["irispie.sequentials._simulate"])
    from .. import unused as _unused
    chk.guard(_unused.apply, chk, "C17-R91", extra_modules=("irispie.plans.simulation_plans", "irispie.plans.transforms"))
    from .. import slatables as _slatables
    chk.guard(_slatables.apply, chk, "C17-R10", (("irispie.sequentials._slatable_protocols", "Inlay.slatable_for_simulate"),))
    from .. import args as _args
    chk.guard(_args.apply, chk, "C17-R90", {'explanatories', 'plans', 'sequentials'}, 1)
    chk.assumptions = [
        "positive real domain for log/roc/pct transforms",
        "xtring_from_human maps names to data cells one-to-one (checked under C04)",
        "ordering validity for arbitrary models and NaN policy are not decided",
    ]

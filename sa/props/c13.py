"""
C13 — change and cumulation transforms follow their formulas and invert each other.

  R1  each temporal_change lambda normalises to the documented formula
  R2  forward(y, change(x,y)) == x and backward(x, change(x,y)) == y for every cumulator
  R3  rate-conversion helpers A_from_B satisfy  helper(B(x,y)) == A(x,y)
  R4  every global name loaded in series/_temporal.py resolves at run time
  R5  shift validation admits exactly negative integers and strings; cumulator dispatch keys exist
"""
from __future__ import annotations

import ast

from .. import alg
from ..alg import Undecided, sym, num, add, sub, mul, div, pow_, app
from ..core import AnalysisError, dotted, unparse, params, walk_no_nested, strip_docstring, literal
from ..names import unresolved_globals

MOD = "irispie.series._temporal"

from ..formulas import FORMULAS as _ALL_FORMULAS, x, y, a

FORMULAS = {k: v for k, v in _ALL_FORMULAS.items() if k not in ("none", "log")}


def _change_lambda(f: ast.FunctionDef):
    """The lambda passed as 2nd positional argument to self.temporal_change in method f."""
    for n in walk_no_nested(f):
        if isinstance(n, ast.Call) and dotted(n.func) == "self.temporal_change" and len(n.args) >= 2 \
                and isinstance(n.args[1], ast.Lambda):
            return n, n.args[1]
    return None, None


def _lambda_ir(lam: ast.Lambda, argsyms, env=None):
    ps = [p.arg for p in lam.args.posonlyargs + lam.args.args]
    if len(ps) != len(argsyms):
        raise Undecided(f"lambda takes {len(ps)} parameters")
    e = dict(env or {})
    e.update(dict(zip(ps, argsyms)))
    used = {n.id for n in ast.walk(lam.body) if isinstance(n, ast.Name)}
    for k, v in e.items():
        if k in used and isinstance(v, tuple) and v and v[0] == "undecided":
            raise Undecided(f"the lambda closes over `{k}`, whose definition is not a recognised annualisation factor")
    return alg.ToIR(env={k: v for k, v in e.items() if not (isinstance(v, tuple) and v and v[0] == "undecided")})(lam.body)


def _is_annualisation_factor(node, selfname="self", mod=None, depth=0) -> bool:
    """`self.frequency.value [or 1]`, possibly behind a one-line private helper that is handed the series"""
    src = unparse(node).replace(" ", "")
    if src in (f"{selfname}.frequency.valueor1", f"{selfname}.frequency.value", f"int({selfname}.frequency.value)or1", f"int({selfname}.frequency)or1"):
        return True
    if isinstance(node, ast.Call) and mod is not None and depth < 2 and len(node.args) == 1 and not node.keywords and unparse(node.args[0]) == selfname:
        name = dotted(node.func)
        if name and mod.has(name):
            g = mod._lookup(name)
            if isinstance(g, ast.FunctionDef) and len(params(g)) == 1:
                rets = [r for r in walk_no_nested(g) if isinstance(r, ast.Return)]
                if len(rets) == 1 and rets[0].value is not None:
                    return _is_annualisation_factor(rets[0].value, params(g)[0], mod, depth + 1)
    if isinstance(node, ast.Call) and mod is not None and depth < 2 and not node.args and not node.keywords and isinstance(node.func, ast.Attribute) \
            and unparse(node.func.value) == selfname:
        for q, g in mod.functions():
            if q.endswith("." + node.func.attr) and len(params(g)) == 1:
                rets = [r for r in walk_no_nested(g) if isinstance(r, ast.Return)]
                if len(rets) == 1 and rets[0].value is not None:
                    return _is_annualisation_factor(rets[0].value, params(g)[0], mod, depth + 1)
    return False


def _factor_env(f: ast.FunctionDef, mod=None):
    """locals of the method the lambda closes over: the annualisation factor -> symbol a; any other local -> not decidable"""
    env = {}
    for n in walk_no_nested(f):
        if isinstance(n, ast.Assign) and len(n.targets) == 1 and isinstance(n.targets[0], ast.Name):
            if _is_annualisation_factor(n.value, "self", mod):
                env[n.targets[0].id] = a
            elif not (isinstance(n.value, ast.Constant) or (isinstance(n.value, ast.UnaryOp) and isinstance(n.value.operand, ast.Constant))):
                env[n.targets[0].id] = ("undecided", n.targets[0].id)
    return env


def run(chk):
    m = chk.repo.mod(MOD)
    meths = m.methods("Inlay")
    chk.rule("C13-R1", "each temporal_change lambda(x, y) normalises to the documented formula of its method "
             "(x = current, y = shifted value, a = periods per year)", floor=8, shape_independent=True)
    chk.rule("C13-R2", "for each _CUMULATIVE_FACTORY entry: forward(y, change(x,y)) == x and backward(x, change(x,y)) == y "
             "with `change` the lambda of the method of the same name; `initial` is the neutral change", floor=8, shape_independent=True)
    chk.rule("C13-R3", "each helper A_from_B maps B(x,y) to A(x,y) (A, B from the extracted change lambdas)", floor=5, shape_independent=True)
    chk.rule("C13-R4", "every global name loaded anywhere in series/_temporal.py is bound at run time", floor=1, shape_independent=True)
    chk.rule("C13-R5", "_catch_invalid_shift rejects exactly non-strings that are non-integers or >= 0; cum_* methods "
             "dispatch to existing _CUMULATIVE_FACTORY keys with 'forward','backward','initial'; temporal_cumulation "
             "dispatches forward/backward to the cumulator of that direction", floor=6)

    # ---------------- R1
    change_ir = {}
    for name, want in FORMULAS.items():
        f = meths.get(name)
        if f is None:
            raise AnalysisError(f"anchor vanished: {MOD}:Inlay.{name}")
        chk.saw(m, f"Inlay.{name}")
        call, lam = _change_lambda(f)
        if lam is None:
            raise AnalysisError(f"anchor vanished: temporal_change lambda in Inlay.{name}")
        try:
            got = _lambda_ir(lam, [x, y], _factor_env(f, m))
            change_ir[name] = got
            chk.ob("C13-R1", f"series._temporal.Inlay.{name}", alg.equal(got, want),
                   f"lambda = {alg.show_rat(alg.nf(got))}; documented = {alg.show_rat(alg.nf(want))}", m.loc(lam))
        except Undecided as e:
            chk.undecided("C13-R1", f"series._temporal.Inlay.{name}", str(e), m.loc(lam))
        # annualised variants fix shift = -1
        if name.startswith("a"):
            sh = call.args[0]
            env = {n.targets[0].id: n.value for n in walk_no_nested(f)
                   if isinstance(n, ast.Assign) and isinstance(n.targets[0], ast.Name)}
            shv = env.get(sh.id) if isinstance(sh, ast.Name) else sh
            ok = shv is not None and unparse(shv) == "-1"
            chk.ob("C13-R1", f"series._temporal.Inlay.{name}[shift]", ok, f"annualised change uses shift {unparse(shv) if shv is not None else '?'}", m.loc(call))

    # ---------------- R2
    fac = m.assign("_CUMULATIVE_FACTORY")
    if not isinstance(fac, ast.Dict):
        raise AnalysisError("_CUMULATIVE_FACTORY is not a dict literal")
    chk.saw(m, "_CUMULATIVE_FACTORY")
    entries = {}
    for k, v in zip(fac.keys, fac.values):
        kname = literal(k)
        if not isinstance(v, ast.Dict):
            raise AnalysisError(f"_CUMULATIVE_FACTORY[{kname!r}] is not a dict literal")
        entries[kname] = {literal(kk): vv for kk, vv in zip(v.keys, v.values)}
    for kname, ent in sorted(entries.items()):
        ch = change_ir.get(kname)
        if ch is None:
            chk.undecided("C13-R2", f"_CUMULATIVE_FACTORY[{kname}]", "no change lambda of that name was extracted")
            continue
        for direction in ("forward", "backward"):
            lam = ent.get(direction)
            construct = f"series._temporal._CUMULATIVE_FACTORY[{kname}][{direction}]"
            if not isinstance(lam, ast.Lambda):
                chk.bad("C13-R2", construct, "entry missing or not a lambda", m.loc(fac))
                continue
            try:
                if direction == "forward":
                    got = _lambda_ir(lam, [y, ch])   # (x_past, change_curr) -> x_curr
                    want = x
                else:
                    got = _lambda_ir(lam, [x, ch])   # (x_future, change_future) -> x_past
                    want = y
                chk.ob("C13-R2", construct, alg.equal(got, want),
                       f"{direction}({'y' if direction == 'forward' else 'x'}, {kname}(x,y)) = {alg.show_rat(alg.nf(got))}; "
                       f"must be {alg.show(want)}", m.loc(lam))
            except Undecided as e:
                chk.undecided("C13-R2", construct, str(e), m.loc(lam))
        # initial = neutral change: change(x, x) == initial
        ini = ent.get("initial")
        construct = f"series._temporal._CUMULATIVE_FACTORY[{kname}][initial]"
        try:
            # the default initial condition seeds the LEVEL: additive families start at 0 (log of 1 for diff_log is
            # applied to levels multiplicatively), so only check it is the documented constant of the family
            iv = literal(ini)
            # forward(initial, neutral_change) == initial : neutral change is change(x,x)
            neutral = alg.subst(ch, {"y": x})
            got = _lambda_ir(ent["forward"], [num(iv), neutral])
            chk.ob("C13-R2", construct, alg.equal(got, num(iv)),
                   f"forward(initial={iv}, {kname}(x,x)) = {alg.show_rat(alg.nf(got))}", m.loc(ini))
        except (Undecided, AnalysisError, KeyError) as e:
            chk.undecided("C13-R2", construct, str(e), m.loc(fac))

    # ---------------- R3
    for name, f in sorted(meths.items()):
        if "_from_" not in name:
            continue
        A, B = name.split("_from_")
        if A not in change_ir or B not in change_ir:
            chk.undecided("C13-R3", f"series._temporal.Inlay.{name}", f"no change lambda named {A} or {B}")
            continue
        chk.saw(m, f"Inlay.{name}")
        stores = [n for n in walk_no_nested(f) if isinstance(n, ast.Assign) and dotted(n.targets[0]) == "self.data"]
        if len(stores) != 1:
            chk.undecided("C13-R3", f"series._temporal.Inlay.{name}", f"{len(stores)} stores to self.data")
            continue
        try:
            env = _factor_env(f, m)
            used = {n.id for n in ast.walk(stores[0].value) if isinstance(n, ast.Name)}
            und = [k for k, v in env.items() if k in used and isinstance(v, tuple) and v and v[0] == "undecided"]
            if und:
                raise Undecided(f"`{und[0]}` is not a recognised annualisation factor")
            env = {k: v for k, v in env.items() if not (isinstance(v, tuple) and v and v[0] == "undecided")}
            conv = alg.ToIR(env=env, attr=lambda s: change_ir[B] if s == "self.data" else None)
            got = conv(stores[0].value)
            want = change_ir[A]
            chk.ob("C13-R3", f"series._temporal.Inlay.{name}", alg.equal(got, want),
                   f"{name}({B}(x,y)) = {alg.show_rat(alg.nf(got))}; {A}(x,y) = {alg.show_rat(alg.nf(want))}", m.loc(stores[0]))
        except Undecided as e:
            chk.undecided("C13-R3", f"series._temporal.Inlay.{name}", str(e), m.loc(f))
    # module-level helper
    if m.has("_roc_from_pct"):
        f = m.func("_roc_from_pct")
        rets = [n for n in walk_no_nested(f) if isinstance(n, ast.Return)]
        try:
            got = alg.ToIR(env={params(f)[0]: change_ir["pct"]})(rets[0].value)
            chk.ob("C13-R3", "series._temporal._roc_from_pct", alg.equal(got, change_ir["roc"]),
                   f"_roc_from_pct(pct(x,y)) = {alg.show_rat(alg.nf(got))}", m.loc(f))
        except (Undecided, IndexError, KeyError) as e:
            chk.undecided("C13-R3", "series._temporal._roc_from_pct", str(e), m.loc(f))

    # ---------------- R4
    # names generated by the exec loop: the public method names of Inlay
    gen = [n for n in meths if not n.startswith("_")]
    unres = unresolved_globals(m, chk.repo, extra_bound=gen)
    seen = set()
    for scope, nm in unres:
        if (scope, nm) in seen:
            continue
        seen.add((scope, nm))
        chk.bad("C13-R4", f"series._temporal[{scope}].{nm}", f"name {nm!r} is loaded in {scope} but bound nowhere (NameError at run time)", m.rel)
    if not unres:
        chk.ok("C13-R4", "series._temporal[all scopes]", "every loaded global resolves", m.rel)

    # ---------------- R5
    f = m.func("_catch_invalid_shift")
    chk.saw(m, "_catch_invalid_shift")
    from .. import fin
    p = params(f)[0]
    bad = None
    try:
        for v in (-1, -3, -12, 0, 1, 2, -1.5, 1.5, -2.0, "yoy", "soy", "", True):
            try:
                fin.run_function(f, {p: v}, funcs={"isinstance": isinstance}, env={"str": str, "int": int, "float": float, "bool": bool})
                raised = False
            except fin.Raised:
                raised = True
            want = (not isinstance(v, str)) and (int(v) != v or v >= 0)
            if raised != want:
                bad = (v, raised, want)
                break
        chk.ob("C13-R5", "series._temporal._catch_invalid_shift", bad is None,
               "raises iff the shift is not a string and is non-integer or >= 0 (13 values: negative / zero / positive integers, floats, keywords)"
               if bad is None else f"shift={bad[0]!r}: {'raises' if bad[1] else 'accepted'} (documented: {'rejected' if bad[2] else 'accepted'})", m.loc(f), sure=True)
    except (fin.NotFinite, TypeError, ValueError) as ex:
        chk.undecided("C13-R5", "series._temporal._catch_invalid_shift", f"not evaluable: {ex}", m.loc(f))
    for name, f in sorted(meths.items()):
        if not name.startswith("cum_"):
            continue
        key = name[4:]
        calls = [n for n in walk_no_nested(f) if isinstance(n, ast.Call) and dotted(n.func) == "self.temporal_cumulation"]
        ok = len(calls) == 1 and calls[0].args and isinstance(calls[0].args[0], ast.Constant) and calls[0].args[0].value == key \
            and key in entries and {"forward", "backward", "initial"} <= set(entries[key])
        chk.ob("C13-R5", f"series._temporal.Inlay.{name}", ok,
               f"dispatches to _CUMULATIVE_FACTORY[{calls[0].args[0].value if calls and calls[0].args and isinstance(calls[0].args[0], ast.Constant) else '?'}]", m.loc(f))
    # temporal_cumulation: direction -> cumulator of that direction
    f = m.func("Inlay.temporal_cumulation")
    chk.saw(m, "Inlay.temporal_cumulation")
    okd = {}
    for n in ast.walk(f):
        if isinstance(n, ast.If):
            t = n.test
            if isinstance(t, ast.Compare) and unparse(t.left) == "direction" and isinstance(t.comparators[0], ast.Constant):
                d = t.comparators[0].value
                callee = [dotted(c.func) for c in ast.walk(ast.Module(body=n.body, type_ignores=[])) if isinstance(c, ast.Call)]
                okd[d] = f"self._cumulate_{d}" in callee
    chk.ob("C13-R5", "series._temporal.Inlay.temporal_cumulation[direction dispatch]",
           okd.get("forward") is True and okd.get("backward") is True,
           f"direction branches call matching cumulators: {okd}", m.loc(f))
    # cumulators apply cum_func(previous level, change at the right date)
    fw = m.func("Inlay._cumulate_forward")
    chk.saw(m, "Inlay._cumulate_forward")
    calls = [n for n in ast.walk(fw) if isinstance(n, ast.Call) and dotted(n.func) == "cum_func"]
    ok = len(calls) == 1 and [unparse(a_) for a_ in calls[0].args] == ["self.get_data(sh)", "change.get_data(t)"]
    sets = [n for n in ast.walk(fw) if isinstance(n, ast.Call) and dotted(n.func) == "self.set_data" and unparse(n.args[0]) == "t"]
    chk.ob("C13-R5", "series._temporal.Inlay._cumulate_forward[recursion]", ok and len(sets) == 1,
           "x[t] = cum_func(x[t+shift], change[t])", m.loc(fw))
    # the initial condition covers every period the recursion may read before it has written it: from the earliest reference period to the
    # END of the cumulation span (with soy / tty shifts a start-of-year period refers to itself or is skipped by the loop, so periods
    # inside the span keep the initial value)
    from ..core import inline_locals
    span_p = params(fw)[4] if len(params(fw)) > 4 else "span"
    inits = [c for c in ast.walk(fw) if isinstance(c, ast.Call) and dotted(c.func) == "self.set_data" and len(c.args) == 2 and unparse(c.args[1]) == params(fw)[3]]
    ok, detail = None, "initial condition not recognised"
    if len(inits) == 1:
        sp = inline_locals(fw, inits[0].args[0], skip_calls=False)
        if isinstance(sp, ast.Call) and dotted(sp.func) == "Span" and len(sp.args) >= 2:
            lo, hi = sp.args[0], sp.args[1]
            hi_ok = unparse(hi).replace(" ", "") in (f"{span_p}.end_date", f"{span_p}.end", f"{span_p}[-1]", f"max({span_p})")
            lo_ok = isinstance(lo, ast.Call) and dotted(lo.func) == "min" and any(k.arg == "default" and unparse(k.value).replace(" ", "") in (f"{span_p}.start_date", f"{span_p}.start", f"{span_p}[0]") for k in lo.keywords)
            ok = False if not hi_ok else (True if lo_ok else None)      # an unrecognised way of finding the earliest period is not a verdict
            detail = f"initial values are set on Span({unparse(lo)[:60]}, {unparse(hi)}): from the earliest reference period {lo_ok} to the end of the span {hi_ok}"
    chk.ob("C13-R5", "series._temporal.Inlay._cumulate_forward[initial condition covers the span]", ok, detail, m.loc(inits[0]) if inits else m.loc(fw), sure=ok is False)
    bw = m.func("Inlay._cumulate_backward")
    chk.saw(m, "Inlay._cumulate_backward")
    calls = [n for n in ast.walk(bw) if isinstance(n, ast.Call) and dotted(n.func) == "cum_func"]
    ok = len(calls) == 1 and [unparse(a_) for a_ in calls[0].args] == ["self.get_data(t)", "orig.get_data(t)"]
    sets = [n for n in ast.walk(bw) if isinstance(n, ast.Call) and dotted(n.func) == "self.set_data" and unparse(n.args[0]) == "sh"]
    chk.ob("C13-R5", "series._temporal.Inlay._cumulate_backward[recursion]", ok and len(sets) == 1,
           "x[t+shift] = cum_func(x[t], change[t])", m.loc(bw))
    chk.guard(rule_r6, chk)
    chk.guard(rule_r7, chk)
    def _daily(chk_):
        chk_.rule("C13-R8", "the reference period of the keyword shifts on daily data is the calendar one: DailyPeriod.create_soy / create_eoy / create_eopy / "
                  "create_som evaluated finitely against the calendar on 7 days incl. a leap day and both year ends (eopy after a leap year is "
                  "31 December, not day 365)", floor=3, shape_independent=True)
        from . import c09
        c09.daily_keyword_periods(chk_, "C13-R8", chk_.repo.mod("irispie.dates"))
    chk.guard(_daily, chk)

    def _edges(chk_):
        chk_.rule("C13-R9", "results of change / cumulation on multi-variant series keep every period in which ANY variant has a value: the helper "
                  "behind Series.trim counts a row as missing only when all variants are missing (evaluated on every pattern of missing cells of "
                  "a 2-variant array with up to 4 rows)", floor=1, shape_independent=True)
        from . import c10
        sm_ = chk_.repo.mod("irispie.series.main")
        g_ = sm_.func("_get_num_leading_trailing_missing_rows")
        chk_.saw(sm_, "_get_num_leading_trailing_missing_rows")
        ok_, detail_ = c10.missing_edge_rows_by_evaluation(g_)
        chk_.ob("C13-R9", "series.main._get_num_leading_trailing_missing_rows", ok_, detail_, sm_.loc(g_), sure=ok_ is False)
    chk.guard(_edges, chk)
    from .. import unused as _unused
    chk.guard(_unused.apply, chk, "C13-R91")
    from .. import args as _args
    chk.guard(_args.apply, chk, "C13-R90", {'dates', 'series'}, 1)
    chk.assumptions = [
        "positive real domain for log/roc formulas (the domain the property quantifies over)",
        "documented formulas: diff=x-y, diff_log=log x-log y, roc=x/y, pct=100(x/y-1), annualised variants with exponent/factor a",
        "span handling of the cumulation loops on arbitrary histories is not decided",
    ]


SER = "irispie.series.main"
DAT = "irispie.dates"
SELF_READS = ("span", "start", "end", "start_date", "end_date", "num_periods", "data", "periods", "range", "from_until")


def _case_returns(f):
    """the keyword dispatch of a function on its second parameter, as {keyword: returned expression}, with "_" for the fall-through:
         match by: case "kw" | ...: return E ; case _: return D
         if by == "kw": return E ... / if by in ("a", "b"): return E ... ; return D        (a chain of early returns)"""
    out = {}
    for n in ast.walk(f):
        if isinstance(n, ast.Match):
            for c in n.cases:
                pats = c.pattern.patterns if isinstance(c.pattern, ast.MatchOr) else [c.pattern]
                rets = [x for x in c.body if isinstance(x, ast.Return)]
                for p_ in pats:
                    if isinstance(p_, ast.MatchValue) and isinstance(p_.value, ast.Constant) and len(rets) == 1:
                        out[p_.value.value] = rets[0].value
                    elif isinstance(p_, ast.MatchAs) and p_.pattern is None and len(rets) == 1:
                        out["_"] = rets[0].value
    if out:
        return out
    ps = params(f)
    subject = ps[1] if len(ps) > 1 else None
    from ..core import strip_docstring

    def keys_of(test):
        if isinstance(test, ast.Compare) and len(test.ops) == 1 and isinstance(test.left, ast.Name) and test.left.id == subject:
            c = test.comparators[0]
            if isinstance(test.ops[0], ast.Eq) and isinstance(c, ast.Constant):
                return [c.value]
            if isinstance(test.ops[0], ast.In) and isinstance(c, (ast.Tuple, ast.List, ast.Set)) and all(isinstance(e, ast.Constant) for e in c.elts):
                return [e.value for e in c.elts]
        if isinstance(test, ast.BoolOp) and isinstance(test.op, ast.Or):
            ks = [keys_of(v) for v in test.values]
            return [k for sub_ in ks for k in sub_] if all(ks) else None
        return None

    def walk_chain(stmts):
        for st in stmts:
            if isinstance(st, ast.If):
                ks = keys_of(st.test)
                rets = [x for x in st.body if isinstance(x, ast.Return)]
                if ks and len(rets) == 1 and len(st.body) == 1:
                    for k in ks:
                        out.setdefault(k, rets[0].value)
                    walk_chain(st.orelse)
                    continue
                return
            if isinstance(st, ast.Return) and st.value is not None:
                out.setdefault("_", st.value)
                return
            return
    walk_chain(strip_docstring(f.body))
    return out


def rule_r7(chk):
    from .. import fin
    chk.rule("C13-R7", "one annualisation factor: every `factor` of the annualised change functions (adiff, adiff_log, aroc, apct) and of the "
             "conversions back (pct_from_apct, roc_from_apct, roc_from_aroc) evaluates to the number of periods per year for every "
             "frequency - 1, 2, 4, 12, 365 for yearly ... daily, and 1 for integer / unknown frequencies (finite evaluation over the seven "
             "frequencies; a helper that is handed the series is followed)", floor=7, shape_independent=True)
    m = chk.repo.mod(MOD)
    freqs = [(1, True), (2, True), (4, True), (12, True), (365, False), (0, False), (-1, False)]

    def value_of(expr, selfname, v, regular, depth=0):
        env = {f"{selfname}.frequency.value": v, f"{selfname}.frequency.is_regular": regular, f"{selfname}.frequency": v, "int": int}
        if isinstance(expr, ast.Call) and depth < 2 and len(expr.args) == 1 and not expr.keywords and unparse(expr.args[0]) == selfname:
            name = dotted(expr.func)
            g = m._lookup(name) if name and m.has(name) else None
            if isinstance(g, ast.FunctionDef) and len(params(g)) == 1:
                rets = [r.value for r in walk_no_nested(g) if isinstance(r, ast.Return)]
                if len(rets) == 1:
                    return value_of(rets[0], params(g)[0], v, regular, depth + 1)
        return fin.ev(expr, env)
    n = 0
    for q, f in m.functions():
        if not q.startswith("Inlay."):
            continue
        for a_ in walk_no_nested(f):
            if isinstance(a_, ast.Assign) and len(a_.targets) == 1 and isinstance(a_.targets[0], ast.Name) and a_.targets[0].id == "factor":
                n += 1
                chk.saw(m, q)
                try:
                    bad = None
                    for v, regular in freqs:
                        got = value_of(a_.value, "self", v, regular)
                        want = v if v > 0 else 1
                        if v == -1:
                            continue          # UNKNOWN: any value is immaterial
                        if got != want:
                            bad = (v, got, want)
                            break
                    chk.ob("C13-R7", f"series._temporal.{q}[factor]", bad is None,
                           f"factor = {unparse(a_.value)}: periods per year for every frequency" if bad is None else
                           f"factor = {unparse(a_.value)}: {bad[1]} for the frequency with {bad[0]} periods per year (want {bad[2]}); the annualised change and its "
                           "conversion back no longer use the same factor for that frequency", m.loc(a_), sure=True)
                except fin.NotFinite as ex:
                    chk.undecided("C13-R7", f"series._temporal.{q}[factor]", f"not evaluable: {ex}", m.loc(a_))


def rule_r6(chk):
    chk.rule("C13-R6", "keyword shifts: Series._shift_<kw> and Period.shift(<kw>) (used by the cumulators) move to the same reference "
             "period - yoy: t - frequency.value on both sides; soy/eopy/tty: the Series method reads the data at t.create_<kw>() for "
             "every t of its own span, Period.shift returns self.create_<kw>() - and a Series shift reads its span/start before the "
             "first statement that mutates the series (the reference periods are those of the ORIGINAL span)", floor=10, shape_independent=True)
    sm = chk.repo.mod(SER)
    dm = chk.repo.mod(DAT)
    meths = sm.methods("Series")
    pshift = dm.methods("Period").get("shift")
    if pshift is None:
        raise AnalysisError("anchor vanished: dates.Period.shift")
    chk.saw(dm, "Period.shift")
    cases = _case_returns(pshift)
    sbn = meths.get("_shift_by_number")
    if sbn is None:
        raise AnalysisError("anchor vanished: Series._shift_by_number")
    chk.saw(sm, "Series._shift_by_number")
    # _shift_by_number(by): start -= by   ->  new(t) = old(t + by)
    aug = [n for n in walk_no_nested(sbn) if isinstance(n, ast.AugAssign) and unparse(n.target) == "self.start"]
    byname = params(sbn)[1]
    ok = len(aug) == 1 and isinstance(aug[0].op, ast.Sub) and unparse(aug[0].value) == byname
    chk.ob("C13-R6", "series.main.Series._shift_by_number", ok if aug else None, f"self.start -= {byname}: the observation at t moves to t - {byname} "
           "(a lag for negative values)", sm.loc(sbn))
    if "_" in cases:
        ok = unparse(cases["_"]).replace(" ", "") in (f"self+{params(pshift)[1]}", f"{params(pshift)[1]}+self")
        chk.ob("C13-R6", "dates.Period.shift[integer]", ok, f"returns {unparse(cases['_'])} (reference period t + shift)", dm.loc(pshift))
    kws = sorted(k[len("_shift_"):] for k in meths if k.startswith("_shift_") and k != "_shift_by_number")
    for kw in kws:
        f = meths[f"_shift_{kw}"]
        chk.saw(sm, f"Series._shift_{kw}")
        pe = cases.get(kw)
        if pe is None:
            chk.bad("C13-R6", f"dates.Period.shift[{kw}]", f"Series.shift accepts {kw!r} but Period.shift has no such case (cumulation with this shift breaks)", dm.loc(pshift))
            continue
        # ---- reference period on both sides
        calls = calls_to_(f, "self._shift_by_number")
        comp = [g for n in walk_no_nested(f) for g in ast.walk(n) if isinstance(g, (ast.GeneratorExp, ast.ListComp)) and
                any(unparse(gen.iter) == "self.span" for gen in g.generators)]
        if calls and not comp:
            try:
                conv = alg.ToIR(attr=lambda d: sym("F") if d == "self.frequency.value" else None)
                series_off = conv.conv(calls[0].args[0])
                penv = alg.ToIR(env={"self": sym("t")}, attr=lambda d: sym("F") if d == "self.frequency.value" else None)
                period_off = sub(penv.conv(pe), sym("t"))
                ok = alg.equal(series_off, period_off) and len(calls) == 1
                chk.ob("C13-R6", f"series.main.Series._shift_{kw}~dates.Period.shift[{kw}]", ok,
                       f"Series reads t + ({alg.show(series_off)}); Period.shift gives t + ({alg.show(period_off)})", sm.loc(f))
            except Undecided as ex:
                chk.bad("C13-R6", f"series.main.Series._shift_{kw}~dates.Period.shift[{kw}]",
                        f"Series shifts by the constant {unparse(calls[0].args[0])} periods but Period.shift({kw!r}) = {unparse(pe)} is not a constant "
                        f"offset ({ex}): change and cumulation use different reference periods", dm.loc(pe))
        elif comp:
            want = f"create_{kw}"
            elts = set()
            for g in comp:
                tname = unparse(g.generators[0].target)
                for c in ast.walk(g.elt):
                    if isinstance(c, ast.Call) and isinstance(c.func, ast.Attribute) and unparse(c.func.value) == tname:
                        elts.add(c.func.attr)
            pside = unparse(pe).replace(" ", "")
            ok = (elts == {want} and pside == f"self.{want}()") if elts and not calls else None
            chk.ob("C13-R6", f"series.main.Series._shift_{kw}~dates.Period.shift[{kw}]", ok,
                   f"Series reads the data at t.{sorted(elts)}() for t in self.span; Period.shift returns {pside}", sm.loc(f))
        else:
            chk.undecided("C13-R6", f"series.main.Series._shift_{kw}~dates.Period.shift[{kw}]", "neither a constant shift nor a map over self.span", sm.loc(f))
        # ---- reads of the span precede the first mutation
        mutated_at = None
        lazy = {}
        verdict = True
        detail = "every read of the span/start precedes the first mutating statement"
        for st in strip_docstring(f.body):
            reads = [n for n in ast.walk(st) if isinstance(n, ast.Attribute) and isinstance(n.value, ast.Name) and n.value.id == "self"
                     and n.attr in SELF_READS and isinstance(n.ctx, ast.Load)]
            uses_lazy = [n.id for n in ast.walk(st) if isinstance(n, ast.Name) and isinstance(n.ctx, ast.Load) and n.id in lazy]
            if mutated_at is not None and (reads or uses_lazy):
                what = f"self.{reads[0].attr}" if reads else f"the lazy generator {uses_lazy[0]} over self.{lazy[uses_lazy[0]]}"
                verdict = False
                detail = (f"line {st.lineno} reads {what} after the series was already changed at line {mutated_at}: the reference periods "
                          "are computed on the shifted span, not on the original one")
                break
            if isinstance(st, ast.Assign) and isinstance(st.value, ast.GeneratorExp) and isinstance(st.targets[0], ast.Name):
                r = [n for n in ast.walk(st.value) if isinstance(n, ast.Attribute) and isinstance(n.value, ast.Name) and n.value.id == "self" and n.attr in SELF_READS]
                if r:
                    lazy[st.targets[0].id] = r[0].attr
            muts = [n for n in ast.walk(st) if (isinstance(n, ast.Call) and isinstance(n.func, ast.Attribute) and isinstance(n.func.value, ast.Name)
                                                 and n.func.value.id == "self" and n.func.attr in MUTATORS)
                    or (isinstance(n, ast.Attribute) and isinstance(n.value, ast.Name) and n.value.id == "self" and isinstance(n.ctx, ast.Store))]
            if muts and mutated_at is None:
                mutated_at = st.lineno
        chk.ob("C13-R6", f"series.main.Series._shift_{kw}[reads before writes]", verdict, detail, sm.loc(f))
    # tty: neutral value exactly where create_tty is None
    f = meths.get("_shift_tty")
    if f is not None:
        # by finite evaluation on a span of two years of a 4-periods-a-year frequency with recording stand-ins for get_data / set_data
        from .. import fin as _fin
        def _per(i):
            return _fin.FinObj(i=i, create_tty=(lambda i=i: None if i % 4 == 0 else _per(i - 1)))
        log = []
        me = _fin.FinObj(span=[_per(i) for i in range(3, 11)], start=_per(3), end=_per(10),
                         get_data=lambda ps, *a, **k: ("data", tuple(p.i for p in ps)), set_data=lambda ps, v, *a, **k: log.append((tuple(p.i for p in ps), v)))
        try:
            _fin.run_function(f, {params(f)[0]: me, "by": None, "neutral_value": "NEUTRAL", (f.args.kwarg.arg if f.args.kwarg else "kwargs"): {}})
            want = sorted([((3, 5, 6, 7, 9, 10), ("data", (2, 4, 5, 6, 8, 9))), ((4, 8), "NEUTRAL")], key=str)
            ok = sorted(log, key=str) == want
            chk.ob("C13-R6", "series.main.Series._shift_tty[neutral periods]", ok,
                   "the neutral value is written exactly to the periods whose create_tty() is None (start-of-year periods of the original span), every other "
                   "period receives the value of its previous period" if ok else f"periods 3..10 (years start at multiples of 4): writes {log}, expected {want}", sm.loc(f), sure=True)
        except (_fin.NotFinite, _fin.Raised, TypeError, AttributeError) as ex:
            chk.undecided("C13-R6", "series.main.Series._shift_tty[neutral periods]", f"not finitely evaluable: {type(ex).__name__}: {ex}", sm.loc(f))
    for kw in ("yoy", "soy", "eopy", "tty"):
        if kw not in kws:
            chk.bad("C13-R6", f"series.main.Series._shift_{kw}", "documented keyword shift has no implementation", sm.rel)


MUTATORS = ("_shift_by_number", "set_data", "_replace_data", "_replace_start_and_values", "trim", "shift", "redate", "clip", "empty", "set_start")


def calls_to_(f, name):
    return [n for n in walk_no_nested(f) if isinstance(n, ast.Call) and dotted(n.func) == name]


def squash_(f):
    return unparse(f).replace(" ", "").replace("\n", "")

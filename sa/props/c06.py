"""
C06 — nonlinear simulations satisfy the equations; match first order when linear (partial).

  R1  every simulator module implements the protocol and every return path of simulate_frame yields an exit status
  R2  evaluator closures: update -> terminate_simulation -> evaluate (-> terminate_jacobian), same order everywhere
  R3  log/exp pairing in the terminal condition and in guess <-> data conversion
  R4  the exit status of every frame is inspected and failures reach the when_fails stream, which is raised after the loop
  R5  frame geometry: slices and column counts are mutually consistent and end-inclusive
"""
from __future__ import annotations

import ast

from .. import alg, flow
from ..alg import Undecided, sym, num, add, sub
from ..core import (AnalysisError, dotted, unparse, params, walk_no_nested, strip_docstring, squash, assign_value, assignments,
                    calls_to, returns_of, single_return, tuple_names, literal)

SIM = "irispie.simultaneous._simulate"
STK = "irispie.stacked_time.simulators"
PBP = "irispie.period_by_period.simulators"
FRD = "irispie.fords.simulators"
EVM = "irispie.stacked_time._evaluators"
TRM = "irispie.fords.terminators"
FRM = "irispie.frames"

PROTOCOL = ("METHOD_NAME", "create_frames", "simulate_initial_guess", "simulate_frame")


def simulator_modules(chk):
    m = chk.repo.mod(SIM)
    from .. import fin as _fin
    val = _fin.module_table(m, "_SIMULATOR_MODULE", env={a: _fin.FuncRef(a) for a in m.aliases})
    if not isinstance(val, dict) or not val:
        raise AnalysisError("_SIMULATOR_MODULE is not a table built from the module's constants")
    out = {}
    for k, v in val.items():
        tgt = m.aliases.get(str(v))
        if tgt not in chk.repo.modules:
            raise AnalysisError(f"simulator module {v} not resolved")
        out[k] = chk.repo.modules[tgt]
    return m, out


def _classify_return(chk, mod, f, r, depth=0):
    """'status' | 'bool' | 'none' | 'unknown' for a return expression of simulate_frame"""
    v = r.value
    if v is None or (isinstance(v, ast.Constant) and v.value is None):
        return "none", "returns None"
    if isinstance(v, ast.Constant) and isinstance(v.value, bool):
        return "bool", f"returns the bare bool {v.value}"
    if isinstance(v, ast.Attribute) and "ExitStatus" in (dotted(v) or ""):
        return "status", f"returns {dotted(v)}"
    if isinstance(v, ast.Call):
        d = dotted(v.func) or ""
        if d.endswith(".simulate_frame") and depth < 3:
            alias = d.rsplit(".", 1)[0]
            tgt = mod.aliases.get(alias)
            if tgt in chk.repo.modules:
                m2 = chk.repo.modules[tgt]
                f2 = m2.func("simulate_frame")
                kinds = [_classify_return(chk, m2, f2, rr, depth + 1) for rr in returns_of(f2)]
                bad = [k for k in kinds if k[0] != "status"]
                return (bad[0] if bad else ("status", f"delegates to {tgt}.simulate_frame"))
        return "unknown", f"returns call {d}"
    if isinstance(v, ast.Name):
        # all reaching assignments in f (flow-insensitive, conservative): literal bool / unpack of a solver / ExitStatus attr
        kinds = []
        for n in walk_no_nested(f):
            if isinstance(n, ast.Assign) and n.lineno < r.lineno:
                for t in n.targets:
                    if isinstance(t, ast.Name) and t.id == v.id:
                        if isinstance(n.value, ast.Constant) and isinstance(n.value.value, bool):
                            kinds.append(("bool", f"{v.id} = {n.value.value}"))
                        elif isinstance(n.value, ast.Attribute) and "ExitStatus" in (dotted(n.value) or ""):
                            kinds.append(("status", f"{v.id} = {dotted(n.value)}"))
                        else:
                            kinds.append(("unknown", f"{v.id} = {unparse(n.value)[:40]}"))
                    elif isinstance(t, ast.Tuple) and v.id in [e.id for e in t.elts if isinstance(e, ast.Name)] and isinstance(n.value, ast.Call):
                        d = dotted(n.value.func) or ""
                        if d.startswith(("_nq.", "_ne.", "neqs.")):
                            kinds.append(("status", f"{v.id} unpacked from {d}(...)"))
                        else:
                            kinds.append(("unknown", f"{v.id} unpacked from {d}"))
        # the assignment closest before the return in the same block decides
        same_block = [n for n in getattr(r, "_parent", f).body if isinstance(n, ast.Assign) and n.lineno < r.lineno
                      and any(isinstance(t, ast.Name) and t.id == v.id for t in n.targets)] if hasattr(getattr(r, "_parent", None), "body") else []
        if same_block:
            n = same_block[-1]
            if isinstance(n.value, ast.Constant) and isinstance(n.value.value, bool):
                return "bool", f"{v.id} = {n.value.value}; return {v.id}"
        if kinds and all(k[0] == "status" for k in kinds):
            return "status", kinds[0][1]
        if any(k[0] == "bool" for k in kinds):
            return "bool", next(k[1] for k in kinds if k[0] == "bool")
        return "unknown", f"returns {v.id}"
    return "unknown", f"returns {unparse(v)[:40]}"


def rule_r1(chk):
    chk.rule("C06-R1", "every module in _SIMULATOR_MODULE defines METHOD_NAME, create_frames, simulate_initial_guess, simulate_frame; "
             "every return of every simulate_frame is an ExitStatus (a solver's exit status, ExitStatus.<member>, or a delegation), "
             "because Inlay.simulate dereferences .is_success", floor=10)
    m, mods = simulator_modules(chk)
    seen = set()
    for key, mod in sorted(mods.items()):
        if mod.name in seen:
            continue
        seen.add(mod.name)
        short = mod.name.replace("irispie.", "")
        for name in PROTOCOL:
            if name == "METHOD_NAME":
                ok = mod.assign("METHOD_NAME", required=False) is not None
            else:
                ok = mod.has(name) and any(not (len(strip_docstring(n.body)) == 1 and isinstance(strip_docstring(n.body)[0], ast.Expr)
                                                 and isinstance(strip_docstring(n.body)[0].value, ast.Constant) and strip_docstring(n.body)[0].value.value is Ellipsis)
                                           for n in mod.tree.body if isinstance(n, ast.FunctionDef) and n.name == name)
            chk.ob("C06-R1", f"{short}[{name}]", ok, "defined" if ok else "missing from the simulator module", mod.rel)
        f = mod.func("simulate_frame")
        chk.saw(mod, "simulate_frame")
        rets = returns_of(f)
        if not rets:
            chk.bad("C06-R1", f"{short}.simulate_frame[returns]", "falls off the end: returns None, which has no .is_success", mod.loc(f))
        for i, r in enumerate(sorted(rets, key=lambda x: x.lineno)):
            kind, detail = _classify_return(chk, mod, f, r)
            chk.ob("C06-R1", f"{short}.simulate_frame[return {i}]", True if kind == "status" else False if kind in ("bool", "none") else None,
                   detail, mod.loc(r))
        # does the function end without return?
        exits = flow.run(flow.Analysis(), strip_docstring(f.body), frozenset())
        falls = [e for e in exits if e[0] == "fall"]
        chk.ob("C06-R1", f"{short}.simulate_frame[no fall-through]", not falls, "every normal path ends in an explicit return", mod.loc(f))
    # METHOD_NAME keys agree
    for key, mod in sorted(mods.items()):
        mn = mod.assign("METHOD_NAME", required=False)
        if mn is not None and key == literal(mn):
            chk.ok("C06-R1", f"simultaneous._simulate._SIMULATOR_MODULE[{key}]", f"key equals the module's METHOD_NAME", m.rel)


def _event_order(f, events):
    """first line of each event (dotted callee name) inside f"""
    out = {}
    for n in ast.walk(f):
        if isinstance(n, ast.Call):
            d = dotted(n.func)
            if d in events and d not in out:
                out[d] = n.lineno
            elif d in events:
                out[d] = min(out[d], n.lineno)
    return out


def rule_r2(chk):
    chk.rule("C06-R2", "in each evaluator closure the guess is written into the data (update), then the terminal condition is refreshed "
             "(terminate_simulation), and only then equations/Jacobian are evaluated; the Jacobian gets terminate_jacobian; the "
             "combined closure does both in the same order", floor=8)
    m = chk.repo.mod(EVM)
    ev = ["update", "terminator.terminate_simulation", "equator.eval", "jacobian.eval", "terminator.terminate_jacobian"]
    for q, need in (("eval_func", ["update", "terminator.terminate_simulation", "equator.eval"]),
                    ("eval_jacob", ["update", "terminator.terminate_simulation", "jacobian.eval", "terminator.terminate_jacobian"]),
                    ("eval_func_jacob", ["update", "terminator.terminate_simulation", "equator.eval", "jacobian.eval", "terminator.terminate_jacobian"])):
        f = m.func(f"create_evaluator.{q}")
        chk.saw(m, f"create_evaluator.{q}")
        order = _event_order(f, ev)
        missing = [e for e in need if e not in order]
        if missing:
            chk.bad("C06-R2", f"stacked_time._evaluators.create_evaluator.{q}[steps]", f"missing step(s) {missing}", m.loc(f))
            continue
        lines = [order[e] for e in need]
        # equator.eval and jacobian.eval are unordered w.r.t. each other; everything else strictly increasing
        seq_ok = order["update"] < order["terminator.terminate_simulation"] and all(
            order["terminator.terminate_simulation"] < order[e] for e in need if e.endswith(".eval"))
        if "terminator.terminate_jacobian" in need:
            seq_ok = seq_ok and order["jacobian.eval"] < order["terminator.terminate_jacobian"]
        chk.ob("C06-R2", f"stacked_time._evaluators.create_evaluator.{q}[order]", seq_ok,
               f"lines {dict((e, order[e]) for e in need)}", m.loc(f))
        # guards
        upd = calls_to(f, "update")[0]
        par = upd._parent._parent if hasattr(upd, "_parent") else None
        ok = isinstance(par, ast.If) and squash(par.test) == "maybelog_guessisnotNone"
        chk.ob("C06-R2", f"stacked_time._evaluators.create_evaluator.{q}[update guard]", ok,
               "update runs whenever a guess is supplied", m.loc(upd))
        for c in calls_to(f, "terminator.terminate_simulation", "terminator.terminate_jacobian"):
            node = c
            guard = None
            while getattr(node, "_parent", None) is not None and node._parent is not f:
                node = node._parent
                if isinstance(node, ast.If):
                    guard = squash(node.test)
                    break
            chk.ob("C06-R2", f"stacked_time._evaluators.create_evaluator.{q}[{dotted(c.func)} guard]", guard == "needs_terminal",
                   f"guarded by {guard}", m.loc(c))
        if "terminator.terminate_jacobian" in need:
            tj = calls_to(f, "terminator.terminate_jacobian")[0]
            je = [n for n in walk_no_nested(f) if isinstance(n, ast.Assign) and isinstance(n.value, ast.Call) and dotted(n.value.func) == "jacobian.eval"]
            ok = bool(je) and unparse(tj.args[0]) == unparse(je[0].targets[0])
            chk.ob("C06-R2", f"stacked_time._evaluators.create_evaluator.{q}[terminate_jacobian input]", ok,
                   "terminate_jacobian receives the evaluated Jacobian", m.loc(tj))
    f = m.func("create_evaluator")
    nt = assign_value(f, "needs_terminal")
    chk.ob("C06-R2", "stacked_time._evaluators.create_evaluator[needs_terminal]", squash(nt) == "terminatorisnotNone" if nt is not None else None,
           f"needs_terminal = {unparse(nt) if nt is not None else '?'}", m.loc(f))
    # solver receives the matching closures
    sm = chk.repo.mod(STK)
    g = sm.func("simulate_frame")
    dn = calls_to(g, "_nq.damped_newton")
    kw = {k.arg: squash(k.value) for k in dn[0].keywords} if dn else {}
    ok = kw.get("eval_func") == "evaluator.eval_func" and kw.get("eval_jacob") == "evaluator.eval_jacob" and kw.get("init_guess") == "init_guess" and kw.get("args") == "(data,)"
    chk.ob("C06-R2", "stacked_time.simulators.simulate_frame[solver wiring]", ok if dn else None,
           f"damped_newton({', '.join(f'{k}={v}' for k, v in kw.items() if k in ('eval_func', 'eval_jacob', 'init_guess', 'args'))})", sm.loc(g))
    up = calls_to(g, "evaluator.update")
    asg = [n for n in walk_no_nested(g) if isinstance(n, ast.Assign) and n.value in dn]
    ok = len(up) == 1 and bool(asg) and [unparse(a) for a in up[0].args] == [tuple_names(asg[0].targets[0])[0], "data"]
    chk.ob("C06-R2", "stacked_time.simulators.simulate_frame[final guess written]", ok if up else False,
           "the solver's final guess is written into the frame data", sm.loc(g))
    ig = [n for n in walk_no_nested(g) if isinstance(n, ast.Assign) and isinstance(n.value, ast.Call) and dotted(n.value.func) == "evaluator.get_init_guess"]
    ok = bool(ig) and bool(dn) and ig[0].lineno < dn[0].lineno and squash(ig[0].value.args[0]) == "data"
    chk.ob("C06-R2", "stacked_time.simulators.simulate_frame[initial guess]", ok if ig else None, "initial guess is read from the same data array", sm.loc(g))


class PairFlow(flow.Analysis):
    """acquire/release pairing: state 'held' between; reports normal exits that are still held and uses before acquire"""

    def __init__(self, is_acquire, is_release, is_use=None):
        self.is_acquire, self.is_release, self.is_use = is_acquire, is_release, is_use
        self.early_use = []
        self.n_acq = self.n_rel = 0

    def stmt(self, st, state):
        if self.is_use and "held" not in state and "done" not in state and self.is_use(st):
            self.early_use.append(st)
        if self.is_acquire(st):
            self.n_acq += 1
            return frozenset((state - {"done"}) | {"held"})
        if self.is_release(st):
            self.n_rel += 1
            return frozenset((state - {"held"}) | {"done"})
        return state


def check_pairing(chk, rid, construct, mod, f, is_acquire, is_release, is_use=None, what=""):
    an = PairFlow(is_acquire, is_release, is_use)
    exits = flow.run(an, strip_docstring(f.body), frozenset())
    if an.n_acq == 0:
        chk.undecided(rid, construct, f"no acquire step recognised ({what})", mod.loc(f))
        return
    held = [e for e in exits if e[0] in ("return", "fall") and "held" in e[1]]
    chk.ob(rid, construct + "[released on every exit]", not held,
           f"{what}: every normal exit passes the release" if not held else f"{what}: a normal exit is reached without the release",
           mod.loc(held[0][2]) if held and held[0][2] is not None else mod.loc(f))
    if is_use is not None:
        chk.ob(rid, construct + "[no use before acquire]", not an.early_use,
               "data feeding the recursion are read after the acquire" if not an.early_use else f"read before the acquire: {unparse(an.early_use[0])[:60]}",
               mod.loc(an.early_use[0]) if an.early_use else mod.loc(f))


def _is_log_store(rows, arr="data_array", fn="_np.log"):
    def pred(st):
        return isinstance(st, ast.Assign) and isinstance(st.targets[0], ast.Subscript) and isinstance(st.value, ast.Call) \
            and dotted(st.value.func) == fn and squash(st.targets[0]) == squash(st.value.args[0]) \
            and squash(st.targets[0]).startswith(f"{arr}[")
    return pred


def rule_r3(chk):
    chk.rule("C06-R3", "Terminator.terminate_simulation logs the log-variable rows, computes the terminal condition in logs and "
             "exponentiates the same rows on every path; get_init_guess logs and update exponentiates the same index of the guess", floor=5)
    tm = chk.repo.mod(TRM)
    f = tm.func("Terminator.terminate_simulation")
    chk.saw(tm, "Terminator.terminate_simulation")
    rows = "logly_rows"
    check_pairing(chk, "C06-R3", "fords.terminators.Terminator.terminate_simulation", tm, f,
                  _is_log_store(rows, fn="_np.log"), _is_log_store(rows, fn="_np.exp"),
                  is_use=lambda st: isinstance(st, ast.Assign) and any(isinstance(n, ast.Call) and (dotted(n.func) or "").endswith("get_init_xi") for n in ast.walk(st)),
                  what="log/exp of data_array[logly_rows, :]")
    # coverage: the logged region must contain every cell the terminal recursion reads (state elements with shift < 0
    # sit in columns before first_terminal - 1)
    sel = []
    for n in walk_no_nested(f):
        if isinstance(n, ast.Assign) and isinstance(n.targets[0], ast.Subscript) and isinstance(n.value, ast.Call) \
                and dotted(n.value.func) in ("_np.log", "_np.exp") and squash(n.targets[0]) == squash(n.value.args[0]) \
                and unparse(n.targets[0].value) == "data_array" and isinstance(n.targets[0].slice, ast.Tuple):
            sel.append((dotted(n.value.func), squash(n.targets[0].slice.elts[0]), n.targets[0].slice.elts[1], n))
    if sel:
        cols = {squash(c) for _, _, c, _ in sel}
        rows_ = {r for _, r, _, _ in sel}
        chk.ob("C06-R3", "fords.terminators.Terminator.terminate_simulation[log and exp over one region]", len(cols) == 1 and len(rows_) == 1,
               f"row selectors {sorted(rows_)}, column selectors {sorted(cols)}", tm.loc(sel[0][3]))
        c0 = sel[0][2]
        if isinstance(c0, ast.Name):
            c0 = assign_value(f, c0.id) or c0
        full = isinstance(c0, ast.Slice) and c0.lower is None and c0.upper is None
        if full:
            chk.ok("C06-R3", "fords.terminators.Terminator.terminate_simulation[logged region covers the state's lags]", "all columns are logged", tm.loc(sel[0][3]))
        else:
            lo = c0.args[0] if isinstance(c0, ast.Call) and dotted(c0.func) == "slice" and c0.args else (c0.lower if isinstance(c0, ast.Slice) else None)
            verdict, detail = None, f"column selector {unparse(c0)}"
            if lo is not None:
                try:
                    d_ = alg.nf(sub(alg.ToIR()(lo), sub(sym("first_terminal"), num(1))))
                    c_ = d_.const()
                    if c_ is not None and c_ >= 0:
                        verdict = False
                        detail = (f"logged columns start at {unparse(lo)}, but get_init_xi reads state elements with shift < 0 from earlier "
                                  "columns: log-variables with two or more lags enter the terminal condition in levels")
                except Undecided:
                    pass
            chk.ob("C06-R3", "fords.terminators.Terminator.terminate_simulation[logged region covers the state's lags]", verdict, detail, tm.loc(sel[0][3]))
    lr = assign_value(f, "logly_rows")
    init = tm.func("Terminator.__init__")
    src = assign_value(init, "self._logly_rows")
    ok = lr is not None and squash(lr) == "self._logly_rows" and src is not None and "qid_to_logly.items()ifstatus" in squash(src)
    chk.ob("C06-R3", "fords.terminators.Terminator[logly rows]", ok if lr is not None and src is not None else None,
           "rows are the qids whose log status is True", tm.loc(f))
    # terminal columns written = first_terminal .. first_terminal+max_lead-1 ; init read at first_terminal
    tc = assign_value(init, "terminal_columns")
    try:
        rng = next(n for n in ast.walk(tc) if isinstance(n, ast.Call) and dotted(n.func) == "range")
        ok = squash(rng.args[0]) == "first_terminal" and alg.equal(alg.ToIR()(rng.args[1]), add(sym("first_terminal"), sym("max_lead"))) \
            and squash(assign_value(init, "first_terminal")) == "last_simulation+1" and squash(assign_value(init, "last_simulation")) == "columns_simulated[-1]"
    except (StopIteration, Undecided, AttributeError, TypeError):
        ok = None
    chk.ob("C06-R3", "fords.terminators.Terminator.__init__[terminal columns]", ok,
           "terminal columns are the max_lead columns right after the last simulated one", tm.loc(init))
    gi = calls_to(f, "_simulators.get_init_xi")
    ok = len(gi) == 1 and [squash(a) for a in gi[0].args] == ["data_array", "transition_vector", "first_terminal"]
    chk.ob("C06-R3", "fords.terminators.Terminator.terminate_simulation[initial state]", ok if gi else None,
           "terminal recursion starts from the state one column before the first terminal column", tm.loc(f))
    # cumulative powers: cum_T = T @ cum_T ; cum_K = T @ cum_K + K
    ct = [squash(a.value) for a in assignments(init, "cum_T")]
    ck = [squash(a.value) for a in assignments(init, "cum_K")]
    ok = "T@cum_T" in ct and "T@cum_K+K" in ck
    chk.ob("C06-R3", "fords.terminators.Terminator.__init__[recursion]", ok, f"cum_T in {ct}; cum_K in {ck}: xi_(t+i) = T^i xi_t + (sum T^j) K", tm.loc(init))
    em = chk.repo.mod(EVM)
    g = em.func("create_evaluator.get_init_guess")
    u = em.func("create_evaluator.update")
    chk.saw(em, "create_evaluator.get_init_guess"); chk.saw(em, "create_evaluator.update")

    def idx_of(fn, func):
        out = []
        for n in walk_no_nested(fn):
            if isinstance(n, ast.Assign) and isinstance(n.targets[0], ast.Subscript) and isinstance(n.value, ast.Call) and dotted(n.value.func) == func \
                    and squash(n.targets[0]) == squash(n.value.args[0]):
                out.append((unparse(n.targets[0].value), squash(n.targets[0].slice)))
        return out
    a, b = idx_of(g, "_np.log"), idx_of(u, "_np.exp")
    ok = len(a) == 1 and len(b) == 1 and a[0][1] == b[0][1] == "index_logly"
    chk.ob("C06-R3", "stacked_time._evaluators[guess log/exp index]", ok if a and b else (False if (a or b) else None),
           f"get_init_guess logs {a}; update exponentiates {b}", em.loc(g))
    cells_g = [squash(n) for n in ast.walk(g) if isinstance(n, ast.Subscript) and unparse(n.value) == "data_array"]
    cells_u = [squash(n) for n in ast.walk(u) if isinstance(n, ast.Subscript) and unparse(n.value) == "data_array"]
    ok = cells_g == cells_u == ["data_array[update_map.lhs[0],update_map.lhs[1]]"]
    chk.ob("C06-R3", "stacked_time._evaluators[guess cells]", ok, f"read {cells_g}; written {cells_u}", em.loc(u))
    ce = em.func("create_evaluator")
    il = assign_value(ce, "index_logly")
    ok = il is not None and "generate_where_logly((tok.qidfortokinwrt_spots),qid_to_logly" in squash(il)
    chk.ob("C06-R3", "stacked_time._evaluators.create_evaluator[index_logly]", ok if il is not None else None,
           "log index is computed over the same wrt_spots the update map is built from", em.loc(ce))


def rule_r4(chk):
    chk.rule("C06-R4", "Inlay.simulate assigns the result of simulate_frame, tests `.is_success` in the same loop body and adds "
             "failures to the when_fails stream; the stream's _raise() is on every path from the loop to a normal exit", floor=3)
    m = chk.repo.mod(SIM)
    f = m.func("Inlay.simulate")
    chk.saw(m, "Inlay.simulate")
    asg = [n for n in ast.walk(f) if isinstance(n, ast.Assign) and isinstance(n.value, ast.Call) and (dotted(n.value.func) or "").endswith(".simulate_frame")]
    if len(asg) != 1:
        raise AnalysisError("anchor vanished: `exit_status = simulator_module.simulate_frame(...)`")
    name = unparse(asg[0].targets[0])
    loop_body = asg[0]._parent.body
    tests = [n for n in loop_body if isinstance(n, ast.If) and squash(n.test) in (f"not{name}.is_success", f"{name}.is_success")
             and n.lineno > asg[0].lineno]
    ok = False
    if tests:
        t = tests[0]
        fail_branch = t.body if squash(t.test).startswith("not") else t.orelse
        ok = any(isinstance(n, ast.Call) and unparse(n.func) == "when_fails_stream.add" for s in fail_branch for n in ast.walk(s))
    chk.ob("C06-R4", "simultaneous._simulate.Inlay.simulate[status inspected]", ok,
           f"`{name}.is_success` is tested after every frame and failures are added to when_fails_stream" if ok else
           f"the exit status {name!r} of a frame is not routed to the when_fails stream", m.loc(asg[0]))

    class RaiseFlow(flow.Analysis):
        def stmt(self, st, state):
            if any(isinstance(n, ast.Call) and unparse(n.func) == "when_fails_stream._raise" for n in ast.walk(st)):
                return frozenset(state | {"raised"})
            return state
    exits = flow.run(RaiseFlow(), strip_docstring(f.body), frozenset())
    bad = [e for e in exits if e[0] in ("return", "fall") and "raised" not in e[1]]
    chk.ob("C06-R4", "simultaneous._simulate.Inlay.simulate[_raise on every exit]", not bad,
           "when_fails_stream._raise() precedes every normal exit" if not bad else "a normal exit skips when_fails_stream._raise()", m.loc(f))
    ws = assign_value(f, "when_fails_stream")
    ok = ws is not None and squash(ws).startswith("_wrongdoings.create_stream(when_fails,")
    chk.ob("C06-R4", "simultaneous._simulate.Inlay.simulate[stream from when_fails]", ok if ws is not None else None,
           "the stream is created from the user's when_fails setting", m.loc(f))


def rule_r5(chk):
    chk.rule("C06-R5", "Frame.resolve_columns: first/last/simulation_last are period differences to the first column; slice = [first, last+1), "
             "simulation_slice = [first, simulation_last+1), num_simulation_columns = simulation_last-first+1, unanticipated shocks are "
             "zeroed on [first+1, end); the stacked-time columns are range(first, simulation_last+1)", floor=8)
    m = chk.repo.mod(FRM)
    f = m.func("Frame.resolve_columns")
    chk.saw(m, "Frame.resolve_columns")
    p = params(f)[1]
    env = {}
    for a in (n for n in walk_no_nested(f) if isinstance(n, ast.Assign)):
        env[dotted(a.targets[0])] = a.value
    conv = alg.ToIR(attr=lambda s: sym(s))
    want = {"self.first": sub(sym("self.start"), sym(p)), "self.last": sub(sym("self.end"), sym(p)),
            "self.simulation_last": sub(sym("self.simulation_end"), sym(p)),
            "self.num_simulation_columns": add(sub(sym("self.simulation_last"), sym("self.first")), num(1))}
    for k, w in want.items():
        try:
            chk.ob("C06-R5", f"frames.Frame.resolve_columns[{k[5:]}]", alg.equal(conv(env[k]), w) if k in env else None,
                   f"{k} = {unparse(env[k]) if k in env else '?'}", m.loc(f))
        except Undecided as e:
            chk.undecided("C06-R5", f"frames.Frame.resolve_columns[{k[5:]}]", str(e), m.loc(f))
    slices = {"self.slice": ("self.first", add(sym("self.last"), num(1))), "self.simulation_slice": ("self.first", add(sym("self.simulation_last"), num(1))),
              "self.zero_unanticipated_slice": (add(sym("self.first"), num(1)), None)}
    for k, (lo, hi) in slices.items():
        v = env.get(k)
        ok = None
        if isinstance(v, ast.Call) and dotted(v.func) == "slice" and len(v.args) == 2:
            try:
                lo_ir = sym(lo) if isinstance(lo, str) else lo
                ok = alg.equal(conv(v.args[0]), lo_ir) and ((hi is None and squash(v.args[1]) == "None") or (hi is not None and alg.equal(conv(v.args[1]), hi)))
            except Undecided:
                ok = None
        chk.ob("C06-R5", f"frames.Frame.resolve_columns[{k[5:]}]", ok, f"{k} = {unparse(v) if v is not None else '?'}", m.loc(f))
    pr = m.func("SplitFrame.prune_frame_data")
    st = [n for n in walk_no_nested(pr) if isinstance(n, ast.Assign) and isinstance(n.targets[0], ast.Subscript)]
    ok = len(st) == 1 and squash(st[0].targets[0]) == f"data[{params(pr)[2]},self.zero_unanticipated_slice]" and squash(st[0].value) == "0"
    chk.ob("C06-R5", "frames.SplitFrame.prune_frame_data", ok, "unanticipated shocks after the frame's first column are zeroed in the frame copy", m.loc(pr))
    guards = [n for n in walk_no_nested(pr) if isinstance(n, ast.If) and any(isinstance(x, ast.Return) for x in n.body)]
    if guards:
        t = guards[0].test
        sides = sorted(squash(x) for x in ([t.left] + t.comparators)) if isinstance(t, ast.Compare) and len(t.ops) == 1 and isinstance(t.ops[0], ast.Eq) else None
        ok = sides in (["self.simulation_end", "self.start"], ["self.first", "self.simulation_last"])
        chk.ob("C06-R5", "frames.SplitFrame.prune_frame_data[skip guard]", ok if sides is not None else None,
               f"pruning is skipped iff {unparse(t)}; it may be skipped only when the frame simulates its first column alone "
               "(start == simulation_end), because zero_unanticipated_slice runs to the end of the simulated range", m.loc(guards[0]))
    wr = m.func("SplitFrame.write_frame_data_to_main_dataslate")
    st = sorted((squash(n.targets[0]), squash(n.value)) for n in walk_no_nested(wr) if isinstance(n, ast.Assign) and isinstance(n.targets[0], ast.Subscript))
    ok = st == sorted([("main_data[regular_qids,self.slice]", "frame_data[regular_qids,self.slice]"),
                       (f"main_data[{params(wr)[3]},self.first]", f"frame_data[{params(wr)[3]},self.first]")])
    chk.ob("C06-R5", "frames.SplitFrame.write_frame_data_to_main_dataslate", ok, f"writes {st}", m.loc(wr))
    sm = chk.repo.mod(STK)
    g = sm.func("simulate_frame")
    cr = assign_value(g, "columns_to_run")
    try:
        rng = next(n for n in ast.walk(cr) if isinstance(n, ast.Call) and dotted(n.func) == "range")
        ok = squash(rng.args[0]) == "frame.first" and alg.equal(alg.ToIR(attr=lambda s: sym(s))(rng.args[1]), add(sym("frame.simulation_last"), num(1)))
    except (StopIteration, Undecided, AttributeError, TypeError):
        ok = None
    chk.ob("C06-R5", "stacked_time.simulators.simulate_frame[columns_to_run]", ok, f"columns_to_run = {unparse(cr) if cr is not None else '?'}", sm.loc(g))
    sp = m.func("split_into_frames_by_breakpoints")
    src = squash(sp)
    e = assign_value(sp, "end")
    ok = e is not None and squash(e) == "next_-1" and "break_periods_next=break_periods[1:]+(base_periods[-1]+1,)" in src
    chk.ob("C06-R5", "frames.split_into_frames_by_breakpoints[tiling]", ok if e is not None else None,
           "each frame ends one period before the next break; the last ends at the base end", m.loc(sp))


SIM_MODULES = ("irispie.fords.simulators", "irispie.fords.shock_simulators", "irispie.stacked_time.simulators", "irispie.period_by_period.simulators",
               "irispie.simultaneous._simulate")
KEPT_PART = {"end": "simulation_end", "last": "simulation_last", "slice": "simulation_slice", "num_columns": "num_simulation_columns"}


def rule_r7(chk, rid="C06-R7", modules=SIM_MODULES):
    chk.rule(rid, "a frame is simulated up to its *simulation* end and only its first part (up to the next surprise) is kept: the simulators "
             "read the end of their window from frame.simulation_end / simulation_last / simulation_slice / num_simulation_columns; "
             "frame.end / last / slice (the kept part) are read by frames.py only, when results are written back", floor=10, shape_independent=True)
    n = 0
    for mn in modules:
        m = chk.repo.mod(mn)
        for q, f in m.functions():
            if "." in q and q.rsplit(".", 1)[0] in dict(m.functions()):
                continue                    # nested functions are walked with their parent
            for a in ast.walk(f):
                if isinstance(a, ast.Attribute) and isinstance(a.value, ast.Name) and a.value.id == "frame" and isinstance(a.ctx, ast.Load):
                    n += 1
                    chk.saw(m, q)
                    if a.attr in KEPT_PART:
                        chk.bad(rid, f"{mn.replace('irispie.', '')}.{q}[frame.{a.attr}]", f"reads frame.{a.attr}, the end of the part that is KEPT; the simulated "
                                f"window ends at frame.{KEPT_PART[a.attr]} (they differ whenever a later surprise splits the span)", m.loc(a))
                    else:
                        chk.ok(rid, f"{mn.replace('irispie.', '')}.{q}[frame.{a.attr}]", "window taken from the simulation end / start of the frame", m.loc(a))


def rule_r8(chk, rid="C06-R8"):
    from ..core import inline_locals
    chk.rule(rid, "how far a split frame is simulated: the forward-looking simulators (stacked time, first order) simulate every frame to the "
             "end of the base span (perfect foresight of everything already known), so their get_simulation_end callback returns "
             "<dataslate>.base_periods[-1] whatever (start, end) it is given; period-by-period simulates the frame only (returns end); "
             "split_into_frames hands the callback (start, end) in that order", floor=4, shape_independent=True)
    want = {"irispie.stacked_time.simulators": "base", "irispie.fords.simulators": "base", "irispie.period_by_period.simulators": "end"}
    for mn, kind in want.items():
        m = chk.repo.mod(mn)
        f = m.func("create_frames")
        chk.saw(m, "create_frames")
        kws = [k.value for c in ast.walk(f) if isinstance(c, ast.Call) for k in c.keywords if k.arg == "get_simulation_end"]
        short = mn.replace("irispie.", "")
        if len(kws) != 1:
            chk.undecided(rid, f"{short}.create_frames[get_simulation_end]", f"{len(kws)} callbacks passed", m.loc(f))
            continue
        cb = kws[0]
        if isinstance(cb, ast.Name):
            cb = assign_value(f, cb.id) or cb
        # a callback chosen by a condition: every alternative has to satisfy the clause
        alts = [cb]
        while any(isinstance(x, ast.IfExp) for x in alts):
            alts = [y for x in alts for y in ([x.body, x.orelse] if isinstance(x, ast.IfExp) else [x])]
        if not all(isinstance(x, ast.Lambda) for x in alts):
            chk.undecided(rid, f"{short}.create_frames[get_simulation_end]", "callback is not a lambda", m.loc(f))
            continue
        if len(alts) > 1 and kind == "base":
            offending = [x for x in alts if not squash(inline_locals(f, x.body)).endswith(".base_periods[-1]")]
            if offending:
                chk.ob(rid, f"{short}.create_frames[get_simulation_end]", False,
                       f"one of the conditional callbacks returns {unparse(offending[0].body)}: under that condition a frame is simulated only to its own end, "
                       "so shocks known beyond it are not foreseen", m.loc(offending[0]), sure=True)
                continue
        cb = alts[0]
        body = inline_locals(f, cb.body)
        txt = squash(body)
        a = cb.args
        lam_params = [x.arg for x in a.posonlyargs + a.args] + ([a.vararg.arg] if a.vararg else [])
        uses_params = sorted({n.id for n in ast.walk(cb.body) if isinstance(n, ast.Name)} & set(lam_params))
        if kind == "base":
            ok = txt.endswith(".base_periods[-1]") and not uses_params
            chk.ob(rid, f"{short}.create_frames[get_simulation_end]", ok,
                   f"returns {unparse(body)}" + (f" (depends on its arguments {uses_params}: the frame is simulated only up to a point that moves with the split)" if uses_params else ""),
                   m.loc(cb), sure=True)
        else:
            ok = len(lam_params) == 2 and txt == lam_params[1]
            chk.ob(rid, f"{short}.create_frames[get_simulation_end]", ok, f"lambda {', '.join(lam_params)}: {unparse(cb.body)} (the frame's own end)", m.loc(cb), sure=True)
    fm = chk.repo.mod("irispie.frames")
    calls = [c for q, g in fm.functions() for c in ast.walk(g) if isinstance(c, ast.Call) and dotted(c.func) == "get_simulation_end"]
    ok = bool(calls) and all([unparse(x) for x in c.args] == ["start", "end"] for c in calls)
    chk.ob(rid, "frames[callback arguments]", ok if calls else None, f"get_simulation_end is called with {[[unparse(x) for x in c.args] for c in calls]}", fm.loc(calls[0]) if calls else fm.rel)


def run(chk):
    chk.guard(rule_r1, chk)
    chk.guard(rule_r2, chk)
    chk.guard(rule_r3, chk)
    chk.guard(rule_r4, chk)
    chk.guard(rule_r5, chk)
    chk.guard(rule_r7, chk)
    chk.guard(rule_r8, chk)
    from . import c07
    chk.guard(c07.rule_r5, chk, rid="C06-R9")
    from .. import variants
    chk.guard(variants.apply, chk, "C06-R6", [("irispie.simultaneous._simulate", "Inlay.simulate")])
    from .. import unused as _unused
    chk.guard(_unused.apply, chk, "C06-R91")
    from . import c07 as _c07
    chk.guard(_c07.rule_r2, chk, rid="C06-R13")
    from .. import slatables as _slatables
    chk.guard(_slatables.apply, chk, "C06-R12", (("irispie.simultaneous._slatable_protocols", "_slatable_for_simulate_or_kalman_filter"),))
    from .. import endpoints as _endpoints
    chk.guard(_endpoints.apply, chk, "C06-R11", {"stacked_time", "fords", "dataslates", "frames", "plans", "simultaneous", "period_by_period"})
    from .. import once as _once
    chk.guard(_once.apply, chk, "C06-R10")
    from .. import args as _args
    chk.guard(_args.apply, chk, "C06-R90", {'frames', 'period_by_period', 'simultaneous', 'stacked_time'}, 1)
    chk.assumptions = [
        "that converged paths satisfy the equations and coincide with first order on linear models is numerical: NOT decided",
        "neqs solvers return (final_guess, ExitStatus)",
        "implicit exceptions are not modelled in the pairing rules",
    ]

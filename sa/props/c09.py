"""
C09 — periods behave as calendar-consistent integers and spans as their ranges.

  R1  comparisons/hash: pull-back of int order on `serial` behind the frequency guard; no subclass overrides
  R2  arithmetic is affine in serial: p+(q-p)=q, (p+n)-p=n
  R3  (year, segment) <-> serial are mutually inverse; soy/eoy/eopy/tty/yoy land on the documented segment
  R4  calendar tables: start/middle/end of each segment, month_to_segment, nesting of Y/H/Q/M
  R5  daily: ordinal ints never meet datetime.date in arithmetic
  R6  every range() a Span builds includes its end (+sign(step)); len/iter/getitem share one range
  R7  every global name loaded in dates.py resolves at run time
"""
from __future__ import annotations

import ast
import calendar

from .. import alg, fin
from ..alg import Undecided, sym, num, add, sub
from ..core import AnalysisError, dotted, unparse, params, walk_no_nested, strip_docstring, literal, norm_stmt
from ..names import unresolved_globals

MOD = "irispie.dates"
CMP_OPS = {"__eq__": ast.Eq, "__ne__": ast.NotEq, "__lt__": ast.Lt, "__le__": ast.LtE, "__gt__": ast.Gt, "__ge__": ast.GtE}
MIRROR = {ast.Eq: ast.Eq, ast.NotEq: ast.NotEq, ast.Lt: ast.Gt, ast.Gt: ast.Lt, ast.LtE: ast.GtE, ast.GtE: ast.LtE}
REGULAR = {"YearlyPeriod": 1, "HalfyearlyPeriod": 2, "QuarterlyPeriod": 4, "MonthlyPeriod": 12}


def class_bases(m):
    out = {}
    for st in m.tree.body:
        if isinstance(st, ast.ClassDef):
            out[st.name] = [dotted(b) for b in st.bases if dotted(b)]
    return out


def mro(m, cname, bases=None):
    bases = bases or class_bases(m)
    seen, out = set(), []

    def rec(c):
        if c in seen or c not in bases:
            return
        seen.add(c)
        out.append(c)
        for b in bases[c]:
            rec(b)
    rec(cname)
    return out


def resolve_method(m, cname, meth):
    for c in mro(m, cname):
        ms = m.methods(c)
        if meth in ms:
            return c, ms[meth]
        # alias assignment  name = other
        for st in m.cls(c).body:
            if isinstance(st, ast.Assign) and any(isinstance(t, ast.Name) and t.id == meth for t in st.targets) and isinstance(st.value, ast.Name):
                return resolve_method(m, c, st.value.id)
    return None, None


def _guarded(f, m):
    """True if a frequency guard runs before the body: decorator or first statement _check_periods(self, other)."""
    for d in f.decorator_list:
        if dotted(d) == "_check_periods_decorator":
            return True
    body = strip_docstring(f.body)
    ps = params(f)
    if body and isinstance(body[0], ast.Expr) and isinstance(body[0].value, ast.Call) and dotted(body[0].value.func) == "_check_periods":
        a = [unparse(x) for x in body[0].value.args]
        return sorted(a) == sorted(ps[:2])
    return False


def rule_r1(chk, m):
    chk.rule("C09-R1", "each of Period.__eq__/__ne__/__lt__/__le__/__gt__/__ge__ runs the frequency guard first and returns "
             "self.serial <op> other.serial with <op> the dunder's operator; __hash__ depends only on (serial, frequency); "
             "the guard raises unless the two types are equal; no subclass overrides a comparison", floor=10)
    meths = m.methods("Period")
    import operator as _operator
    py_op = {ast.Eq: _operator.eq, ast.NotEq: _operator.ne, ast.Lt: _operator.lt, ast.LtE: _operator.le, ast.Gt: _operator.gt, ast.GtE: _operator.ge}
    for name, op in CMP_OPS.items():
        f = meths.get(name)
        if f is None:
            raise AnalysisError(f"anchor vanished: Period.{name}")
        chk.saw(m, f"Period.{name}")
        # by finite evaluation on three pairs of serials with a recording frequency guard (helpers of the class / module are followed)
        bad_op = bad_guard = None
        try:
            for a_, b_ in ((1, 2), (2, 2), (3, 2)):
                events = []
                class _P(fin.FinObj):
                    pass
                me, other = _P(frequency="F"), _P(frequency="F")
                type(me).serial = property(lambda self_, _v={id(me): a_, id(other): b_}: events.append("serial read") or _v[id(self_)])
                funcs = fin.module_funcs(m, {"_check_periods": lambda *x_: events.append("guard")})
                funcs["_check_periods"] = lambda *x_: events.append("guard")
                got = fin.run_function(f, {params(f)[0]: me, params(f)[1]: other}, funcs, methods=meths)
                if got is not py_op[op](a_, b_):
                    bad_op = bad_op or f"{name}: serial {a_} against serial {b_} gives {got}, expected {py_op[op](a_, b_)}"
                if "guard" not in events or ("serial read" in events and events.index("serial read") < events.index("guard")):
                    bad_guard = bad_guard or "no _check_periods guard before comparing serials"
            chk.ob("C09-R1", f"dates.Period.{name}[operator]", bad_op is None, bad_op or f"compares the serials with the operator of {name}", m.loc(f), sure=True)
            chk.ob("C09-R1", f"dates.Period.{name}[guard]", bad_guard is None, bad_guard or "frequency guard precedes the comparison", m.loc(f), sure=True)
        except (fin.NotFinite, fin.Raised, TypeError, AttributeError) as ex:
            chk.undecided("C09-R1", f"dates.Period.{name}[operator]", f"not finitely evaluable: {type(ex).__name__}: {ex}", m.loc(f))
            g = _guarded(f, m)
            chk.ob("C09-R1", f"dates.Period.{name}[guard]", g, "frequency guard precedes the comparison" if g else "no _check_periods guard before comparing serials", m.loc(f))
    # hash
    f = meths.get("__hash__")
    if f is None:
        raise AnalysisError("anchor vanished: Period.__hash__")
    chk.saw(m, "Period.__hash__")
    try:
        hs = {}
        for ser, fr in ((1, "Q"), (2, "Q"), (1, "M")):
            hs[(ser, fr)] = fin.run_function(f, {params(f)[0]: fin.FinObj(serial=ser, frequency=fr)}, {"hash": lambda x_: ("hash", x_), "int": int}, methods=meths)
        ok = len(set(map(repr, hs.values()))) >= 2 and repr(hs[(1, "Q")]) != repr(hs[(2, "Q")])
        chk.ob("C09-R1", "dates.Period.__hash__", ok, "hash depends on the serial (and at most on the frequency)" if ok else
               f"periods with different serials hash alike: {hs}", m.loc(f), sure=True)
    except (fin.NotFinite, fin.Raised, TypeError, AttributeError) as ex:
        attrs = {dotted(n) for n in ast.walk(f) if isinstance(n, ast.Attribute) and dotted(n) and dotted(n).startswith("self.")}
        ok = "self.serial" in attrs and attrs <= {"self.serial", "self.frequency"}
        chk.ob("C09-R1", "dates.Period.__hash__", ok, f"hash reads {sorted(attrs)} (equal periods: same class => same serial and frequency)", m.loc(f))
    # the guard itself
    g = m.func("_check_periods")
    chk.saw(m, "_check_periods")
    from ..core import exit_paths, literal_of
    ps = params(g)
    want = {"==".join(sorted([f"str(type({ps[0]}))", f"str(type({ps[1]}))"])), "==".join(sorted([f"type({ps[0]})", f"type({ps[1]})"])),
            " is ".join(sorted([f"type({ps[0]})", f"type({ps[1]})"]))}
    paths = exit_paths(g.body)
    ok = None
    if paths is not None:
        normal = [p_ for p_ in paths if p_[1] in ("return", "end")]
        raising = [p_ for p_ in paths if p_[1] == "raise"]
        def has(p_, polarity):
            return any(literal_of(t, k) in {(w, polarity) for w in want} for t, k in p_[0])
        ok = bool(normal) and bool(raising) and all(has(p_, True) for p_ in normal) and all(has(p_, False) for p_ in raising)
    chk.ob("C09-R1", "dates._check_periods", ok, "returns only when type(first) == type(second); otherwise raises", m.loc(g))
    dec = m.func("_check_periods_decorator.wrapper")
    src = unparse(dec).replace(" ", "")
    ok = src.index("_check_periods(args[0],args[1])") < src.index("returnfunc(") if "_check_periods(args[0],args[1])" in src and "returnfunc(" in src else False
    chk.ob("C09-R1", "dates._check_periods_decorator", ok, "wrapper checks args[0], args[1] before calling the function", m.loc(dec))
    # no subclass overrides
    bases = class_bases(m)
    subs = [c for c in bases if c != "Period" and "Period" in mro(m, c, bases)]
    if len(subs) < 6:
        raise AnalysisError(f"only {len(subs)} Period subclasses found")
    for c in sorted(subs):
        over = sorted(set(m.methods(c)) & (set(CMP_OPS) | {"__hash__"}))
        # assignments like __eq__ = ...
        for st in m.cls(c).body:
            if isinstance(st, ast.Assign):
                over += [t.id for t in st.targets if isinstance(t, ast.Name) and t.id in CMP_OPS]
        chk.ob("C09-R1", f"dates.{c}[no comparison override]", not over,
               "inherits Period's comparisons" if not over else f"overrides {over}", m.loc(m.cls(c)))


def rule_r2(chk, m):
    chk.rule("C09-R2", "Period.__add__ is cls(serial+int(n)); period-period subtraction is serial difference behind the guard; "
             "period-int subtraction is __add__(-n); hence p+(q-p)=q and (p+n)-p=n on the affine forms", floor=6)
    meths = m.methods("Period")
    f = meths["__add__"]
    chk.saw(m, "Period.__add__")
    ps = params(f)
    rets = [n for n in walk_no_nested(f) if isinstance(n, ast.Return)]
    add_ir = None
    ok = False
    if len(rets) == 1 and isinstance(rets[0].value, ast.Call) and unparse(rets[0].value.func) in (f"type({ps[0]})", f"{ps[0]}.__class__") \
            and len(rets[0].value.args) == 1:
        try:
            add_ir = alg.ToIR(env={}, attr=lambda s: sym("p") if s == f"{ps[0]}.serial" else None)(rets[0].value.args[0])
            add_ir = alg.subst(add_ir, {ps[1]: sym("n")})
            ok = alg.equal(add_ir, add(sym("p"), sym("n")))
        except Undecided:
            ok = None
    chk.ob("C09-R2", "dates.Period.__add__", ok, f"returns type(self)({unparse(rets[0].value.args[0]) if rets and isinstance(rets[0].value, ast.Call) and rets[0].value.args else '?'})", m.loc(f))
    # __radd__ alias
    al = [st for st in m.cls("Period").body if isinstance(st, ast.Assign) and any(isinstance(t, ast.Name) and t.id == "__radd__" for t in st.targets)]
    ok = len(al) == 1 and isinstance(al[0].value, ast.Name) and al[0].value.id == "__add__"
    chk.ob("C09-R2", "dates.Period.__radd__", ok, "__radd__ = __add__", m.loc(m.cls("Period")))
    f = meths["_sub_period"]
    chk.saw(m, "Period._sub_period")
    ps = params(f)
    rets = [n for n in walk_no_nested(f) if isinstance(n, ast.Return)]
    sub_ir, ok = None, False
    if len(rets) == 1:
        try:
            sub_ir = alg.ToIR(attr=lambda s: {f"{ps[0]}.serial": sym("p"), f"{ps[1]}.serial": sym("q")}.get(s), free_names=False)(rets[0].value)
            ok = alg.equal(sub_ir, sub(sym("p"), sym("q"))) and _guarded(f, m)
        except Undecided:
            ok = None
    chk.ob("C09-R2", "dates.Period._sub_period", ok, f"guarded; returns {unparse(rets[0].value) if rets else '?'}", m.loc(f))
    f = meths["__sub__"]
    chk.saw(m, "Period.__sub__")
    ps = params(f)
    from ..core import decision_list, literal_of
    dl = decision_list(f.body)
    ok = None
    if dl is not None and len(dl) == 2 and dl[0][0] is not None and dl[1][0] is None:
        lit, pol = literal_of(dl[0][0], True)
        if lit == f"_is_period({ps[1]})":
            a, b = (dl[0][1], dl[1][1]) if pol else (dl[1][1], dl[0][1])
            oka = unparse(a) == f"{ps[0]}._sub_period({ps[1]})"
            okb = False
            if isinstance(b, ast.Call) and unparse(b.func) in (f"{ps[0]}.__add__",) and len(b.args) == 1:
                try:
                    okb = alg.equal(alg.ToIR()(b.args[0]), alg.neg(sym(ps[1])))
                except Undecided:
                    okb = None
            elif isinstance(b, ast.BinOp) and isinstance(b.op, (ast.Add, ast.Sub)) and unparse(b.left) == ps[0]:
                try:
                    rhs = alg.ToIR()(b.right)
                    okb = alg.equal(rhs if isinstance(b.op, ast.Sub) else alg.neg(rhs), sym(ps[1]))
                except Undecided:
                    okb = None
            ok = None if okb is None else (oka and okb)
    chk.ob("C09-R2", "dates.Period.__sub__", ok, "period -> _sub_period(other); number -> __add__(-int(other))", m.loc(f))
    g = m.func("_is_period")
    ok = unparse(strip_docstring(g.body)[0]).replace(" ", "") == f"returnisinstance({params(g)[0]},Period)"
    chk.ob("C09-R2", "dates._is_period", ok, "isinstance(x, Period)", m.loc(g))
    if add_ir is not None and sub_ir is not None:
        try:
            # p + (q - p) == q ; (p + n) - p == n
            qmp = alg.subst(sub_ir, {"p": sym("Q"), "q": sym("P")})          # q - p with serials Q, P
            lhs1 = alg.subst(add_ir, {"p": sym("P"), "n": qmp})
            lhs2 = alg.subst(sub_ir, {"p": alg.subst(add_ir, {"p": sym("P"), "n": sym("N")}), "q": sym("P")})
            chk.ob("C09-R2", "dates.Period[p+(q-p)==q]", alg.equal(lhs1, sym("Q")), f"serial of p+(q-p) = {alg.show_rat(alg.nf(lhs1))}", m.loc(f))
            chk.ob("C09-R2", "dates.Period[(p+n)-p==n]", alg.equal(lhs2, sym("N")), f"(p+n)-p = {alg.show_rat(alg.nf(lhs2))}", m.loc(f))
        except Undecided as e:
            chk.undecided("C09-R2", "dates.Period[identities]", str(e), m.loc(f))
    f = meths["__index__"]
    ok = unparse(strip_docstring(f.body)[0]) == "return self.serial"
    chk.ob("C09-R2", "dates.Period.__index__", ok, "index is the serial", m.loc(f))


def _freq_values(m):
    c = m.cls("Frequency")
    out = {}
    for st in c.body:
        if isinstance(st, ast.Assign) and isinstance(st.targets[0], ast.Name) and isinstance(st.value, (ast.Constant, ast.UnaryOp)):
            try:
                out[st.targets[0].id] = literal(st.value)
            except AnalysisError:
                pass
    return out


class _PeriodVal:
    """a period as the integer it wraps (the arithmetic the property itself states: p + n, p - n, p - q)"""
    _fin_attrs = ("serial",)

    def __init__(self, serial):
        self.serial = int(serial)

    def __add__(self, n):
        if isinstance(n, _PeriodVal):
            raise fin.NotFinite("period + period")
        return _PeriodVal(self.serial + int(n))

    def __sub__(self, n):
        return self.serial - n.serial if isinstance(n, _PeriodVal) else _PeriodVal(self.serial - int(n))


def rule_r3(chk, m):
    chk.rule("C09-R3", "finite evaluation of the extracted integer forms: to_year_segment(_serial_from_ysf(y, s, f)) == (y, s) and "
             "back, for f in {1,2,4,12}, every segment, years incl. negative and 0; create_soy/eoy/eopy/tty and shift keywords "
             "land on segment 1 / f / f of year-1 / serial-1 unless segment 1 / serial-f", floor=20, shape_independent=True)
    ysf = m.func("_serial_from_ysf")
    tys = m.func("RegularPeriodMixin.to_year_segment")
    fys = m.func("RegularPeriodMixin.from_year_segment")
    chk.saw(m, "_serial_from_ysf"); chk.saw(m, "RegularPeriodMixin.to_year_segment"); chk.saw(m, "RegularPeriodMixin.from_year_segment")
    fv = _freq_values(m)
    years = (-3, -1, 0, 1, 7, 1999, 2020, 2024, 9999) if chk.tier != "thorough" else tuple(range(-400, 10000))

    def serial_of(y, s, f):
        return fin.run_function(ysf, dict(zip(params(ysf), (y, s, f))))

    def ys_of(serial, f):
        rets = [n for n in walk_no_nested(tys) if isinstance(n, ast.Return)]
        return tuple(fin.ev(rets[0].value, {"self.serial": serial, "self.frequency.value": f}))

    def from_ys(y, per, f):
        return fin.run_function(fys, {params(fys)[0]: None, params(fys)[1]: y, params(fys)[2]: per},
                                funcs={"_serial_from_ysf": lambda a, b, c: serial_of(a, b, c), "klass": lambda s: s},
                                env={"klass.frequency.value": f})
    for cname, f in REGULAR.items():
        freq_attr = m.class_attr(cname, "frequency")
        fname = dotted(freq_attr).split(".")[-1]
        chk.ob("C09-R3", f"dates.{cname}.frequency", fv.get(fname) == f, f"frequency = Frequency.{fname} = {fv.get(fname)} (periods per year {f})", m.loc(m.cls(cname)))
        try:
            bad = []
            n_eval = 0
            for y in years:
                for s in range(1, f + 1):
                    ser = serial_of(y, s, f)
                    n_eval += 1
                    if ys_of(ser, f) != (y, s):
                        bad.append(((y, s), ser, ys_of(ser, f)))
                    if from_ys(y, s, f) != ser:
                        bad.append(("from_year_segment", (y, s), from_ys(y, s, f), ser))
                # consecutive: last segment of y + 1 == first of y+1 (tiling)
                if serial_of(y, f, f) + 1 != serial_of(y + 1, 1, f):
                    bad.append(("tiling", y))
                if from_ys(y, "end", f) != serial_of(y, f, f):
                    bad.append(("end", y))
            # serial -> (y,s) -> serial on a contiguous window incl. negatives
            for ser in range(-30, 31):
                y, s = ys_of(ser, f)
                if serial_of(y, s, f) != ser or not (1 <= s <= f):
                    bad.append(("window", ser, (y, s)))
            chk.ob("C09-R3", f"dates.{cname}[year/segment <-> serial]", not bad,
                   f"{n_eval} (year, segment) pairs and serials -30..30 round-trip; segment in 1..{f}" if not bad else f"counterexamples {bad[:3]}",
                   m.loc(tys), facts={"bad": bad[:5]})
        except fin.NotFinite as e:
            chk.undecided("C09-R3", f"dates.{cname}[year/segment <-> serial]", str(e), m.loc(tys))
    # keyword landings by finite evaluation: start / end of the year, end of the previous year, previous period within the year
    mix = m.methods("RegularPeriodMixin")
    landings = {"create_soy": lambda y, s_, f_: ("ys", y, 1), "create_eoy": lambda y, s_, f_: ("ys", y, f_), "create_eopy": lambda y, s_, f_: ("ys", y - 1, f_)}
    for name, want_fn in landings.items():
        f = mix.get(name)
        if f is None:
            raise AnalysisError(f"anchor vanished: RegularPeriodMixin.{name}")
        chk.saw(m, f"RegularPeriodMixin.{name}")
        bad, n_ev = None, 0
        try:
            for fr in (1, 2, 4, 12):
                for y in (-1, 0, 1999, 2024):
                    for seg in range(1, fr + 1):
                        funcs = {"self.to_year_segment": lambda y=y, seg=seg: (y, seg), "self.get_year": lambda y=y: y,
                                 "self.from_year_segment": lambda yy, ss, fr=fr: ("ys", yy, fr if ss == "end" else ss)}
                        got = fin.run_function(f, {}, funcs, env={"self": "SELF", "self.frequency.value": fr}, methods=mix)
                        n_ev += 1
                        if got != want_fn(y, seg, fr) and bad is None:
                            bad = f"{name}() of segment {seg} of year {y} at {fr} periods a year lands on {got}, expected (year, segment) = {want_fn(y, seg, fr)[1:]}"
            chk.ob("C09-R3", f"dates.RegularPeriodMixin.{name}", bad is None, bad or f"{n_ev} (frequency, year, segment) cases land on {name[7:]} of the right year", m.loc(f), sure=True)
        except (fin.NotFinite, fin.Raised, TypeError) as ex:
            chk.undecided("C09-R3", f"dates.RegularPeriodMixin.{name}", f"not evaluable: {ex}", m.loc(f))
    for cls in ("RegularPeriodMixin", "DailyPeriod"):
        meths = m.methods(cls)
        f = meths.get("create_tty")
        chk.saw(m, f"{cls}.create_tty")
        bad, n_ev = None, 0
        try:
            for seg in (1, 2, 3, 12, 365):
                funcs = {"self.to_year_segment": lambda seg=seg: (2021, seg), "type": lambda obj: _PeriodVal}
                got = fin.run_function(f, {}, funcs, env={"self": _PeriodVal(5000), "self.frequency.value": 12}, methods=meths)
                n_ev += 1
                got = got.serial if isinstance(got, _PeriodVal) else got
                want = None if seg == 1 else 4999
                if got != want and bad is None:
                    bad = f"create_tty() at segment {seg} gives {'the period ' + str(got - 5000) + ' away' if isinstance(got, int) else got}, expected {'None' if want is None else 'the previous period'}"
            chk.ob("C09-R3", f"dates.{cls}.create_tty", bad is None, bad or "previous period unless the segment is 1 (then None)", m.loc(f), sure=True)
        except (fin.NotFinite, fin.Raised, TypeError) as ex:
            chk.undecided("C09-R3", f"dates.{cls}.create_tty", f"not evaluable: {ex}", m.loc(f))
    # Period.shift keyword dispatch
    f = m.func("Period.shift")
    chk.saw(m, "Period.shift")
    want = {"yoy": "self - self.frequency.value", "boy": "self.create_soy()", "soy": "self.create_soy()",
            "eopy": "self.create_eopy()", "tty": "self.create_tty()", "_": "self + by"}
    from .c13 import _case_returns
    got = {k_: unparse(v_) for k_, v_ in _case_returns(f).items()}
    for k, w in want.items():
        chk.ob("C09-R3", f"dates.Period.shift[{k}]", got.get(k) == w, f"case {k!r}: returns {got.get(k)} (documented: {w})", m.loc(f))
    daily_keyword_periods(chk, "C09-R3", m)


def daily_keyword_periods(chk, rid, m):
    """DailyPeriod.create_soy / eoy / eopy / som by finite evaluation against the checker's calendar (shared with C13-R8)"""
    # daily soy/eoy/eopy
    d = m.methods("DailyPeriod")
    import datetime
    for name, want_fn, ymd in (("create_soy", lambda y, mth: datetime.date(y, 1, 1), "(year, 1, 1)"), ("create_eoy", lambda y, mth: datetime.date(y, 12, 31), "(year, 12, 31)"),
                               ("create_eopy", lambda y, mth: datetime.date(y - 1, 12, 31), "(year - 1, 12, 31)"), ("create_som", lambda y, mth: datetime.date(y, mth, 1), "(year, month, 1)")):
        f = d.get(name)
        if f is None:
            continue
        chk.saw(m, f"DailyPeriod.{name}")
        bad = None
        try:
            for (y, mth, dd_) in ((2023, 1, 1), (2023, 6, 17), (2024, 2, 29), (2024, 12, 31), (2025, 1, 1), (2000, 3, 1), (1900, 12, 31)):
                serial = datetime.date(y, mth, dd_).toordinal()
                funcs = dict(fin.CALENDAR_FUNCS)
                funcs.update({"self.get_year": lambda y=y: y, "self.to_ymd": lambda y=y, mth=mth, dd_=dd_, **kw: (y, mth, dd_), "type": lambda obj: _PeriodVal, "klass": _PeriodVal, "cls": _PeriodVal,
                              "self.to_year_segment": lambda y=y, serial=serial: (y, serial - datetime.date(y, 1, 1).toordinal() + 1)})
                got = fin.run_function(f, {}, funcs=funcs, env={"self": "SELF", "self.serial": serial, "self.frequency.value": 365}, methods=d)
                want = ("PERIOD", want_fn(y, mth).toordinal())
                got = ("PERIOD", got.serial) if isinstance(got, _PeriodVal) else got
                if got != want:
                    bad = ((y, mth, dd_), got, want)
                    break
            chk.ob(rid, f"dates.DailyPeriod.{name}", bad is None,
                   f"ordinal of date{ymd} on 7 days incl. leap day and year ends" if bad is None else
                   f"{name}() of {bad[0]} gives {bad[1]} (want the period of ordinal {bad[2][1]} = date{ymd})", m.loc(f), sure=True)
        except fin.NotFinite as ex:
            chk.undecided(rid, f"dates.DailyPeriod.{name}", f"not evaluable: {ex}", m.loc(f))


def month_tables(m):
    """cname -> {'start': {seg: (month, day)}, ...} evaluated from the class literal/comprehension."""
    out = {}
    for cname in REGULAR:
        node = m.class_attr(cname, "_MONTH_DAY_RESOLUTION")
        out[cname] = fin.ev(node, {}, funcs={"_ca.monthrange": calendar.monthrange})
    return out


def month_to_segment(m, cname, month):
    f = m.func(f"{cname}.month_to_segment")
    return fin.run_function(f, {params(f)[0]: month})


def to_ymd_by_evaluation(chk, rid, m, tables):
    f = m.func("RegularPeriodMixin.to_ymd")
    chk.saw(m, "RegularPeriodMixin.to_ymd")
    bad, n_cases = None, 0
    pos_param = params(f)[1] if len(params(f)) > 1 else "position"
    try:
        for cname, fr in REGULAR.items():
            for position in ("start", "middle", "end"):
                for per in range(1, fr + 1):
                    for year in (1900, 2000, 2023, 2024):
                        got = fin.run_function(f, {pos_param: position}, env={"self": "SELF", "self._MONTH_DAY_RESOLUTION": tables[cname]},
                                               funcs={"self.to_year_segment": lambda year=year, per=per: (year, per), "_ca.monthrange": calendar.monthrange})
                        n_cases += 1
                        mth, day = tables[cname][position][per]
                        want = (year, mth, day if day is not None else calendar.monthrange(year, mth)[1])
                        if tuple(got) != want:
                            bad = (cname, position, per, year, tuple(got), want)
                            break
                    if bad:
                        break
                if bad:
                    break
            if bad:
                break
        chk.ob(rid, "dates.RegularPeriodMixin.to_ymd", bad is None,
               f"{n_cases} cases (class x position x segment x year incl. leap): (year, table month, table day or the month's last day when the table says None)"
               if bad is None else f"{bad[0]} position={bad[1]} segment={bad[2]} year={bad[3]}: to_ymd gives {bad[4]} (want {bad[5]})", m.loc(f), sure=True)
    except fin.NotFinite as ex:
        chk.undecided(rid, "dates.RegularPeriodMixin.to_ymd", f"not evaluable: {ex}", m.loc(f))


def rule_r4(chk, m):
    chk.rule("C09-R4", "for each regular class and segment k: start[k] = (first month of k, 1), end[k] = (last month of k, last day; "
             "None only for February), start <= middle <= end inside k; month_to_segment(m) is the segment whose months contain m; "
             "coarser partitions are unions of finer ones; to_ymd/from_ymd route through these tables", floor=30)
    try:
        tables = month_tables(m)
    except fin.NotFinite as e:
        raise AnalysisError(f"cannot evaluate _MONTH_DAY_RESOLUTION: {e}")
    seg_of = {}
    for cname, f in REGULAR.items():
        chk.saw(m, f"{cname}._MONTH_DAY_RESOLUTION")
        chk.saw(m, f"{cname}.month_to_segment")
        width = 12 // f
        t = tables[cname]
        ok_keys = set(t) == {"start", "middle", "end"} and all(set(t[p]) == set(range(1, f + 1)) for p in t)
        chk.ob("C09-R4", f"dates.{cname}._MONTH_DAY_RESOLUTION[keys]", ok_keys, f"positions {sorted(t)}; segments {sorted(t.get('start', {}))}", m.loc(m.cls(cname)))
        if not ok_keys:
            continue
        for k in range(1, f + 1):
            first, last = (k - 1) * width + 1, k * width
            s, mid, e = t["start"][k], t["middle"][k], t["end"][k]
            last_day = calendar.monthrange(1970, last)[1]
            ok_s = s == (first, 1)
            ok_e = e[0] == last and (e[1] == last_day or (last == 2 and e[1] is None))
            ok_m = first <= mid[0] <= last and 1 <= mid[1] <= calendar.monthrange(1970, mid[0])[1] and (s <= mid) and (mid[0] < e[0] or e[1] is None or mid[1] <= e[1])
            chk.ob("C09-R4", f"dates.{cname}[segment {k} start]", ok_s, f"start={s}; first month of segment is {first}", m.loc(m.cls(cname)))
            chk.ob("C09-R4", f"dates.{cname}[segment {k} end]", ok_e, f"end={e}; last month {last} has {last_day} days", m.loc(m.cls(cname)))
            chk.ob("C09-R4", f"dates.{cname}[segment {k} middle]", ok_m, f"middle={mid} within months {first}..{last}", m.loc(m.cls(cname)))
        try:
            seg_of[cname] = {mo: month_to_segment(m, cname, mo) for mo in range(1, 13)}
            want = {mo: (mo - 1) // width + 1 for mo in range(1, 13)}
            chk.ob("C09-R4", f"dates.{cname}.month_to_segment", seg_of[cname] == want,
                   f"months->segments {seg_of[cname]}" if seg_of[cname] != want else f"each month maps to the segment of width {width} containing it", m.loc(m.func(f'{cname}.month_to_segment')))
        except fin.NotFinite as e:
            chk.undecided("C09-R4", f"dates.{cname}.month_to_segment", str(e))
    # nesting
    order = ["MonthlyPeriod", "QuarterlyPeriod", "HalfyearlyPeriod", "YearlyPeriod"]
    for fine, coarse in zip(order, order[1:]):
        if fine in seg_of and coarse in seg_of:
            groups = {}
            for mo in range(1, 13):
                groups.setdefault(seg_of[fine][mo], set()).add(seg_of[coarse][mo])
            ok = all(len(v) == 1 for v in groups.values())
            chk.ob("C09-R4", f"dates[{fine} nests in {coarse}]", ok, "every fine segment lies in exactly one coarse segment", m.rel)
    # to_ymd / from_ymd
    f = m.func("RegularPeriodMixin.to_ymd")
    chk.saw(m, "RegularPeriodMixin.to_ymd")
    to_ymd_by_evaluation(chk, "C09-R4", m, tables)
    f = m.func("RegularPeriodMixin.from_ymd")
    chk.saw(m, "RegularPeriodMixin.from_ymd")
    rets = [n for n in walk_no_nested(f) if isinstance(n, ast.Return)]
    ps = params(f)
    ok = len(rets) == 1 and unparse(rets[0].value).replace(" ", "") == f"{ps[0]}.from_year_segment({ps[1]},{ps[0]}.month_to_segment({ps[2]}))"
    chk.ob("C09-R4", "dates.RegularPeriodMixin.from_ymd", ok, "from_year_segment(year, month_to_segment(month))", m.loc(f))
    return tables, seg_of


# --------------------------------------------------------------------------------------------------
# R5: two-point type domain {int (ordinal), date}
# --------------------------------------------------------------------------------------------------

def _typ(node, env):
    """'int' | 'date' | None (unknown)"""
    if isinstance(node, ast.Constant) and isinstance(node.value, int) and not isinstance(node.value, bool):
        return "int"
    if isinstance(node, ast.Name):
        return env.get(node.id)
    if isinstance(node, ast.Attribute):
        d = dotted(node)
        if d == "self.serial":
            return "int"
        bt = _typ(node.value, env)
        if bt == "date" and node.attr in ("year", "month", "day"):
            return "int"
        return None
    if isinstance(node, ast.Call):
        n = dotted(node.func)
        if n in ("_dt.date", "_dt.date.fromordinal", "_dt.date.today", "datetime.date"):
            return "date"
        if n in ("int", "len", "daily_serial_from_ymd"):
            return "int"
        if isinstance(node.func, ast.Attribute) and node.func.attr == "toordinal":
            return "int" if _typ(node.func.value, env) in ("date", None) else None
        if isinstance(node.func, ast.Attribute) and node.func.attr == "fromordinal":
            return "date"
        return None
    if isinstance(node, ast.BinOp) and isinstance(node.op, (ast.Add, ast.Sub)):
        a, b = _typ(node.left, env), _typ(node.right, env)
        if a == "int" and b == "int":
            return "int"
        return None
    return None


def rule_r5(chk, m):
    chk.rule("C09-R5", "in DailyPeriod (and daily_serial_from_ymd) no arithmetic mixes an ordinal int with a datetime.date; "
             "serial is always an ordinal (toordinal) and dates are rebuilt with fromordinal", floor=10)
    funcs = [(f"DailyPeriod.{n}", f) for n, f in m.methods("DailyPeriod").items()] + [("daily_serial_from_ymd", m.func("daily_serial_from_ymd"))]
    n_arith = 0
    for q, f in funcs:
        chk.saw(m, q)
        env = {}
        bad = []
        for st in strip_docstring(f.body):
            for n in ast.walk(st):
                if isinstance(n, ast.BinOp) and isinstance(n.op, (ast.Add, ast.Sub)):
                    a, b = _typ(n.left, env), _typ(n.right, env)
                    n_arith += 1
                    if {a, b} == {"int", "date"}:
                        bad.append(unparse(n))
            if isinstance(st, ast.Assign) and len(st.targets) == 1 and isinstance(st.targets[0], ast.Name):
                env[st.targets[0].id] = _typ(st.value, env)
        if bad:
            chk.bad("C09-R5", f"dates.{q}", f"int/date mixed in {bad} (TypeError at run time)", m.loc(f))
        else:
            chk.ok("C09-R5", f"dates.{q}", "no ordinal/date mixing", m.loc(f))
    # positive fixture: the rule must fire on a known-bad snippet
    fx = ast.parse("def f(self):\n    b = _dt.date(2020, 1, 1)\n    return self.serial - b + 1\n").body[0]
    env, fired = {}, False
    for st in fx.body:
        for n in ast.walk(st):
            if isinstance(n, ast.BinOp) and {_typ(n.left, env), _typ(n.right, env)} == {"int", "date"}:
                fired = True
        if isinstance(st, ast.Assign):
            env[st.targets[0].id] = _typ(st.value, env)
    if not fired:
        raise AnalysisError("C09-R5 self-check: fixture with int-date did not fire")
    # from_year_segment(year, seg): boy ordinal + seg - 1 ; to_year_segment inverse: serial - boy ordinal + 1
    import datetime
    f = m.func("DailyPeriod.from_year_segment")
    g = m.func("DailyPeriod.to_year_segment")
    chk.saw(m, "DailyPeriod.from_year_segment"); chk.saw(m, "DailyPeriod.to_year_segment")
    fps = params(f)
    made = []
    klass = lambda serial: (made.append(serial), serial)[1]
    bad_f = bad_t = None
    n_cases = 0
    try:
        for year in (1, 4, 1900, 1999, 2000, 2023, 2024, 9999):
            jan1 = datetime.date(year, 1, 1).toordinal()
            ndays = datetime.date(year, 12, 31).toordinal() - jan1 + 1
            for seg in sorted({1, 2, 31, 59, 60, 61, 365, ndays}):
                got = fin.run_function(f, {fps[0]: klass, fps[1]: year, fps[2]: seg}, funcs=dict(fin.CALENDAR_FUNCS), env={"int": int})
                n_cases += 1
                if got != jan1 + seg - 1 and bad_f is None:
                    bad_f = (year, seg, got, jan1 + seg - 1)
                back = fin.run_function(g, {}, funcs=dict(fin.CALENDAR_FUNCS), env={"self": "SELF", "self.serial": jan1 + seg - 1})
                if tuple(back) != (year, seg) and bad_t is None:
                    bad_t = (jan1 + seg - 1, tuple(back), (year, seg))
        chk.ob("C09-R5", "dates.DailyPeriod.from_year_segment[affine]", bad_f is None,
               f"{n_cases} cases (years incl. leap and 1/9999, segments incl. 59..61 and the last day): serial = ordinal(Jan 1) + segment - 1"
               if bad_f is None else f"from_year_segment({bad_f[0]}, {bad_f[1]}) has serial {bad_f[2]} (want {bad_f[3]})", m.loc(f), sure=True)
        chk.ob("C09-R5", "dates.DailyPeriod.to_year_segment[affine]", bad_t is None,
               "segment = serial - ordinal(Jan 1) + 1 on the same cases (inverse of from_year_segment)"
               if bad_t is None else f"to_year_segment of serial {bad_t[0]} gives {bad_t[1]} (want {bad_t[2]})", m.loc(g), sure=True)
    except fin.NotFinite as ex:
        chk.undecided("C09-R5", "dates.DailyPeriod.from_year_segment[affine]", f"not evaluable: {ex}", m.loc(f))
        chk.undecided("C09-R5", "dates.DailyPeriod.to_year_segment[affine]", f"not evaluable: {ex}", m.loc(g))

# --------------------------------------------------------------------------------------------------
# R6 spans
# --------------------------------------------------------------------------------------------------

def rule_r6(chk, m):
    chk.rule("C09-R6", "every range(a, b, step) built for a span has b = <end> + _sign(step) with the same step; "
             "__len__/__iter__/__getitem__ all use _serials; reverse swaps ends and negates step; shifts move both ends equally",
             floor=10, shape_independent=True)
    sites = [(f"Span.{n}", f) for n, f in m.methods("Span").items()] + [("periods_from_until", m.func("periods_from_until"))]
    n_ranges = 0
    for q, f in sites:
        for n in ast.walk(f):
            if isinstance(n, ast.Call) and dotted(n.func) == "range" and len(n.args) == 3:
                n_ranges += 1
                chk.saw(m, q)
                from ..core import inline_locals as _il
                a, b, c = (_il(f, x_) for x_ in n.args)          # locals naming the ends (first_serial, stop_serial) are substituted
                try:
                    def call(node, conv):
                        if dotted(node.func) == "_sign" and len(node.args) == 1:
                            return alg.app("SIGN", conv(node.args[0]))
                        return None
                    conv = alg.ToIR(call=call)
                    bi, ci, ai = conv(b), conv(c), conv(a)
                    # b - SIGN(step) must not contain SIGN any more and must not contain a bare constant offset
                    rest = alg.nf(sub(bi, alg.app("SIGN", ci)))
                    has_sign = "SIGN" in repr(rest.key())
                    # the rest (the inclusive end) must mirror the start expression: same shape with start->end
                    start_txt = unparse(a).replace("_start", "_END").replace("start_per", "END_per")
                    rest_expected = alg.nf(conv(ast.parse(start_txt.replace("_END", "_end").replace("END_per", "end_per"), mode="eval").body))
                    ok = (not has_sign) and rest.equals(rest_expected)
                    chk.ob("C09-R6", f"dates.{q}[range {norm_stmt(a)}]", ok,
                           f"range({unparse(a)}, {unparse(b)}, {unparse(c)}): stop must be <inclusive end> + _sign({unparse(c)})", m.loc(n))
                except (Undecided, SyntaxError) as e:
                    chk.undecided("C09-R6", f"dates.{q}[range {norm_stmt(a)}]", str(e), m.loc(n))
    if n_ranges < 4:
        raise AnalysisError(f"anchor vanished: only {n_ranges} three-argument range() calls in Span/periods_from_until")
    sp = m.methods("Span")
    for name in ("__len__", "__iter__", "__getitem__"):
        f = sp[name]
        chk.saw(m, f"Span.{name}")
        uses = any(dotted(n) == "self._serials" for n in ast.walk(f)) or (name == "__getitem__" and "enumerate(self)" in unparse(f))
        own_range = any(isinstance(n, ast.Call) and dotted(n.func) == "range" and len(n.args) >= 2 for n in ast.walk(f))
        chk.ob("C09-R6", f"dates.Span.{name}", uses and not own_range, "enumerates through self._serials (one shared range)", m.loc(f))
    # reverse / shift / __add__ by finite evaluation on spans with integer stand-ins for the periods (helpers of the class are followed)
    def _span(a, b, st_):
        return fin.FinObj(_start=a, _end=b, _step=st_, needs_resolve=False)
    made = lambda *a, **k: ("span",) + tuple(a) + tuple(sorted(k.items()))
    for name, args, check, text in (
            ("reverse", (), lambda me, out: (me._start, me._end, me._step) == (20, 10, -2), "swaps ends and negates the step"),
            ("shift", (3,), lambda me, out: (me._start, me._end, me._step) == (13, 23, 2), "both ends move by the same offset"),
            ("__add__", (3,), lambda me, out: out in (("span", 13, 23, 2), ("span", 13, 23, ("step", 2))) and (me._start, me._end, me._step) == (10, 20, 2),
             "both ends move by the offset, step kept, self untouched")):
        f = sp[name]
        chk.saw(m, f"Span.{name}")
        me = _span(10, 20, 2)
        try:
            out = fin.run_function(f, dict(zip(params(f), (me,) + args)), funcs={"type": lambda o: made, "_sign": lambda x: (x > 0) - (x < 0)}, methods=sp)
            ok = bool(check(me, out))
            chk.ob("C09-R6", f"dates.Span.{name}", ok, text if ok else
                   f"Span(10, 20, 2).{name}{args}: self is now ({me._start}, {me._end}, {me._step}), result {out}; expected: {text}", m.loc(f), sure=True)
        except (fin.NotFinite, fin.Raised, TypeError, AttributeError) as ex:
            chk.undecided("C09-R6", f"dates.Span.{name}", f"not finitely evaluable: {type(ex).__name__}: {ex}", m.loc(f))
    f = m.func("_sign")
    chk.saw(m, "_sign")
    try:
        vals = [fin.run_function(f, {params(f)[0]: v}) for v in (-3, -1, 0, 1, 5)]
        chk.ob("C09-R6", "dates._sign", vals == [-1, -1, 0, 1, 1], f"_sign on (-3,-1,0,1,5) = {vals}", m.loc(f))
    except fin.NotFinite as e:
        chk.undecided("C09-R6", "dates._sign", str(e), m.loc(f))
    # __init__ checks the two ends are of one frequency
    f = sp["__init__"]
    src = unparse(f).replace(" ", "")
    ok = "ifnotself.needs_resolve:" in src and "_check_periods(from_per,until_per)" in src
    chk.ob("C09-R6", "dates.Span.__init__[frequency guard]", ok, "resolved spans check both ends have one frequency", m.loc(f))


def rule_r7(chk, m):
    chk.rule("C09-R7", "every global name loaded in dates.py is bound at run time (symtable, annotations stripped)", floor=1, shape_independent=True)
    unres = unresolved_globals(m, chk.repo)
    seen = set()
    for scope, nm in unres:
        if (scope, nm) in seen:
            continue
        seen.add((scope, nm))
        chk.bad("C09-R7", f"dates[{scope}].{nm}", f"name {nm!r} loaded in {scope} is bound nowhere (NameError when executed)", m.rel)
    if not unres:
        chk.ok("C09-R7", "dates[all scopes]", "every loaded global resolves", m.rel)


def rule_r8(chk, m):
    from .. import memo
    chk.rule("C09-R8", "periods and spans answer from their current fields: a memoised method/property (functools.cached_property, "
             "cache, lru_cache) of a class in dates.py reads only attributes that no method re-assigns after construction "
             "(Span.shift/shift_end/reverse mutate in place, so length/iteration/indexing must not be cached across them)", floor=1, shape_independent=True)
    n_examples = memo.self_check()
    classes = {c.name: c for c in m.tree.body if isinstance(c, ast.ClassDef)}
    found = 0
    for cname, c in sorted(classes.items()):
        for f, ok, detail in memo.memo_attr_findings(c, classes.get):
            found += 1
            chk.ob("C09-R8", f"dates.{cname}.{f.name}[memoised]", ok, detail, m.loc(f))
            chk.saw(m, f"{cname}.{f.name}")
    mutable = sorted(c for c in classes if memo.stores_after_construction(memo._class_methods(classes[c], classes.get)))
    chk.ok("C09-R8", "dates[memoised methods]", f"{found} memoised method(s) in {len(classes)} classes; classes mutated in place after construction: "
           f"{mutable}; rule self-check on {n_examples} embedded examples fired as expected", m.rel)


def rule_r9(chk, m):
    import re
    chk.rule("C09-R9", "an optional period / span parameter (default None) is tested for None-ness, never by truth value: Period.__bool__ and "
             "Span.__bool__ answer 'needs no resolving', so a contextual bound such as start+1 is falsy and `x or default` would throw it away", floor=3,
             shape_independent=True)
    booly = {c.name for c in ast.walk(m.tree) if isinstance(c, ast.ClassDef) and any(isinstance(s_, ast.FunctionDef) and s_.name == "__bool__" for s_ in c.body)}
    chk.ob("C09-R9", "dates[classes with __bool__]", {"Period", "Span"} <= booly, f"classes whose truth value is not None-ness: {sorted(booly)}", m.rel)
    for q, f in m.functions():
        a = f.args
        pos = a.posonlyargs + a.args
        defaults = [None] * (len(pos) - len(a.defaults)) + list(a.defaults)
        for p_, d in list(zip(pos, defaults)) + list(zip(a.kwonlyargs, a.kw_defaults)):
            if not (isinstance(d, ast.Constant) and d.value is None and p_.annotation is not None):
                continue
            if not (set(re.findall(r"[A-Za-z_]+", unparse(p_.annotation))) & (booly | {"Self"})):
                continue
            truthy = []
            for x in ast.walk(f):
                tests = []
                if isinstance(x, (ast.If, ast.IfExp, ast.While)):
                    tests.append(x.test)
                if isinstance(x, ast.BoolOp):
                    tests.extend(x.values)
                if isinstance(x, ast.UnaryOp) and isinstance(x.op, ast.Not):
                    tests.append(x.operand)
                truthy += [t for t in tests if isinstance(t, ast.Name) and t.id == p_.arg]
            chk.saw(m, q)
            chk.ob("C09-R9", f"dates.{q}[{p_.arg}]", not truthy,
                   f"optional {unparse(p_.annotation)} parameter is tested with `is None`" if not truthy else
                   f"line {truthy[0].lineno}: `{p_.arg}` is used as a truth value; a period that still needs resolving (start+1, end-2) is falsy and is "
                   "treated as if it had not been given", m.loc(truthy[0]) if truthy else m.loc(f))


def rule_r10(chk, m):
    chk.rule("C09-R10", "mixing frequencies is rejected rather than silently compared: every function of dates.py that reads .serial of an object "
             "other than its receiver (a parameter) runs the frequency guard (_check_periods call or decorator) - comparing raw serials of "
             "different frequencies gives an answer for periods that have nothing to do with each other", floor=8, shape_independent=True)
    for q, f in m.functions():
        ps = params(f)
        if not ps:
            continue
        others = ps[1:] if ps[0] in ("self", "klass", "cls") else ps
        reads = sorted({n.value.id for n in ast.walk(f) if isinstance(n, ast.Attribute) and n.attr == "serial" and isinstance(n.value, ast.Name) and n.value.id in others})
        if not reads:
            continue
        guard = any(dotted(d) == "_check_periods_decorator" for d in f.decorator_list) or \
            any(isinstance(c, ast.Call) and dotted(c.func) == "_check_periods" for c in ast.walk(f))
        chk.saw(m, q)
        chk.ob("C09-R10", f"dates.{q}[{','.join(reads)}.serial]", guard,
               "frequency guard present" if guard else f"reads {reads[0]}.serial without any frequency check: periods of another frequency are compared by raw serial", m.loc(f))


def run(chk):
    m = chk.repo.mod(MOD)
    chk.guard(rule_r1, chk, m)
    chk.guard(rule_r2, chk, m)
    chk.guard(rule_r3, chk, m)
    chk.guard(rule_r4, chk, m)
    chk.guard(rule_r5, chk, m)
    chk.guard(rule_r6, chk, m)
    chk.guard(rule_r7, chk, m)
    chk.guard(rule_r8, chk, m)
    chk.guard(rule_r9, chk, m)
    chk.guard(rule_r10, chk, m)
    from .. import unused as _unused
    chk.guard(_unused.apply, chk, "C09-R91")
    from .. import recon as _recon
    chk.guard(_recon.apply, chk, "C09-R11", {"dates"})
    from .. import args as _args
    chk.guard(_args.apply, chk, "C09-R90", {'dates'}, 1)
    chk.assumptions = [
        "datetime.date / calendar.monthrange are correct (the checker's own calendar module is the oracle for month lengths)",
        "year/segment forms are affine in year, so the sampled years (negative, 0, 1, 1999..9999) stand for all years",
        "resolution of open-ended spans against arbitrary contexts is not decided beyond the affine offset",
    ]

"""
C19 — Databox, dataslate and CSV conversions are lossless on selected names and span (partial).

  R1  CSV protocol: block marks, continuation marks, frequency letters, trailing separator column, date strings,
      missing-value string, description row and padding rows agree between writer and reader
  R2  name routing: every Databox method with a name-selecting parameter resolves it through the one resolver
      (or delegates to a method that does) before any other use; copy/__or__ deep-copy first
  R3  dataslate lock-step: every method that changes the period axis changes the invariant and every variant by the
      same number of periods; variant copies copy data; fallbacks fill NaN cells only and run before overwrites
"""
from __future__ import annotations

import ast

from .. import fin
from ..core import (AnalysisError, dotted, unparse, params, all_params, walk_no_nested, strip_docstring, squash, assign_value,
                    assignments, calls_to, returns_of, single_return, tuple_names, literal)
from ..tpl import eval_str, run_str_function, NotAString

EXP = "irispie.databoxes._exports"
IMP = "irispie.databoxes._imports"
DBX = "irispie.databoxes.main"
DSL = "irispie.dataslates.main"
DSV = "irispie.dataslates._variants"
DSI = "irispie.dataslates._invariants"
DAT = "irispie.dates"


def _frequency_members(chk):
    m = chk.repo.mod(DAT)
    c = m.cls("Frequency")
    out, seen_vals = [], set()
    for st in c.body:
        if isinstance(st, ast.Assign) and isinstance(st.targets[0], ast.Name) and isinstance(st.value, (ast.Constant, ast.UnaryOp)):
            try:
                v = literal(st.value)
            except AnalysisError:
                continue
            if v in seen_vals:
                continue            # alias (ANNUAL = 1): not iterated, not a canonical name
            seen_vals.add(v)
            out.append(st.targets[0].id)
    return m, out


def rule_r1(chk):
    chk.rule("C19-R1", "CSV writer/reader protocol agreement", floor=20)
    em, im = chk.repo.mod(EXP), chk.repo.mod(IMP)
    dm, members = _frequency_members(chk)
    # frequency mark
    gm = em.func("_get_frequency_mark")
    chk.saw(em, "_get_frequency_mark")
    fl = dm.func("Frequency.from_letter")
    chk.saw(dm, "Frequency.from_letter")
    bi = im.func("_block_iterator")
    is_start = im.func("_block_iterator._is_start")
    is_end = im.func("_block_iterator._is_end")
    chk.saw(im, "_block_iterator")
    initials = [n[0] for n in members]
    chk.ob("C19-R1", "dates.Frequency[distinct initials]", len(set(initials)) == len(initials), f"member initials {initials}", dm.loc(dm.cls("Frequency")))
    fvals = {}
    for st in dm.cls("Frequency").body:
        if isinstance(st, ast.Assign) and isinstance(st.targets[0], ast.Name):
            try:
                fvals[st.targets[0].id] = literal(st.value)
            except AnalysisError:
                pass
    letter_expr = next((n for n in ast.walk(is_start) if isinstance(n, ast.Assign) and unparse(n.targets[0]) == "letter"), None)
    norm = next((n for n in ast.walk(fl) if isinstance(n, ast.Assign) and unparse(n.targets[0]) == "letter"), None)

    def decode(text):
        """member the reader's Frequency.from_letter finds for text (finite evaluation on the members in definition order); None if it
        raises / finds nothing"""
        klass_ = [fin.FinObj(name=mname, value=fvals.get(mname)) for mname in members]
        try:
            got = fin.run_function(fl, {params(fl)[0]: klass_, params(fl)[1]: text}, fin.STDLIB_FUNCS)
        except (fin.NotFinite, fin.Raised, StopIteration, IndexError, TypeError, AttributeError):
            return None
        return getattr(got, "name", None)
    for name in members:
        fp = params(gm)[0]
        try:
            mark = run_str_function(gm, {fp: None}, globals_env={f"{fp}.name": name, f"{fp}.value": fvals.get(name)})
        except NotAString as e:
            chk.undecided("C19-R1", f"databoxes[frequency mark {name}]", str(e), em.loc(gm))
            continue
        if letter_expr is None:
            chk.undecided("C19-R1", f"databoxes[frequency mark {name}]", "reader shape not recognised", im.loc(is_start))
            continue
        try:
            pref_ok = run_str_function(is_end, {params(is_end)[0]: mark}) is True
        except NotAString as e:
            chk.undecided("C19-R1", f"databoxes[frequency mark {name}]", str(e), im.loc(is_end))
            continue
        try:
            letter = eval_str(letter_expr.value, {params(is_start)[0]: mark})
        except NotAString:
            letter = None        # the reader raises inside its try block -> cell is not a block start
        found = decode(letter) if isinstance(letter, str) else None
        found_cell = decode(mark)
        ok = pref_ok and found == name and found_cell == name
        chk.ob("C19-R1", f"databoxes[frequency mark {name}]", ok,
               f"writer mark {mark!r}; reader prefix test {pref_ok}, letter {letter!r} -> {found}, whole cell -> {found_cell}", em.loc(gm))
    probes = {"q": "QUARTERLY", "Q": "QUARTERLY", "__monthly__": "MONTHLY", "d": "DAILY", "_y": "YEARLY", "h": "HALFYEARLY", "i": "INTEGER"}
    bad = next((f"from_letter({t!r}) finds {decode(t)}, expected {w}" for t, w in probes.items() if w in members and decode(t) != w), None)
    chk.ob("C19-R1", "dates.Frequency.from_letter", bad is None, bad or "first member (definition order) whose name starts with the letter (underscores and case ignored)",
           dm.loc(fl), sure=True)
    cf = [n for n in ast.walk(bi) if isinstance(n, ast.Assign) and unparse(n.targets[0]) == "current_frequency" and isinstance(n.value, ast.Call)]
    ok = bool(cf) and squash(cf[0].value) == "Frequency.from_letter(cell)"
    chk.ob("C19-R1", "databoxes._imports._block_iterator[frequency of block]", ok if cf else None, "the block's frequency is decoded from its mark cell", im.loc(bi))
    # continuation mark
    it = em.func("_ExportBlock.__iter__")
    chk.saw(em, "_ExportBlock.__iter__")
    w_marks = sorted({e.value for n in ast.walk(it) if isinstance(n, ast.Tuple) for e in n.elts
                      if isinstance(e, ast.Constant) and isinstance(e.value, str) and e.value not in ("",)})
    ci = im.func("_ImportBlock.column_iterator")
    chk.saw(im, "_ImportBlock.column_iterator")
    r_marks = sorted({n.comparators[0].value for n in ast.walk(ci) if isinstance(n, ast.Compare) and isinstance(n.comparators[0], ast.Constant)
                      and isinstance(n.comparators[0].value, str) and n.comparators[0].value})
    chk.ob("C19-R1", "databoxes[continuation mark]", w_marks == r_marks == ["*"], f"writer uses {w_marks}; reader tests {r_marks}", em.loc(it))
    nr = assign_value(it, "name_row")
    ok = nr is not None and "(n,)+('*',)*(num_data_columns[i]-1)fori,ninenumerate(self.names)" in squash(nr)
    chk.ob("C19-R1", "databoxes._exports._ExportBlock.__iter__[name row]", ok if nr is not None else None,
           "a series with k variants occupies the name followed by k-1 continuation cells", em.loc(it))
    src = squash(ci)
    ok = ("ifstatusandn!='*':" in src and "ifstatusandn=='*':current_columns.append(i)" in src.replace("\n", "")
          and "ifnotstatusandnand(n!='*'):" in src and "names=self.names+['']" in src)
    chk.ob("C19-R1", "databoxes._imports._ImportBlock.column_iterator", ok,
           "a name opens a column group, continuation cells extend it, an empty or new name closes it (a sentinel closes the last)", im.loc(ci))
    # header / separator layout
    yields = [n.value for n in ast.walk(it) if isinstance(n, ast.Yield)]
    ysrc = [squash(y) for y in yields]
    ok = any(s == "(_get_frequency_mark(self.frequency),)+name_row+('',)" for s in ysrc)
    chk.ob("C19-R1", "databoxes._exports._ExportBlock.__iter__[header row]", ok, "mark cell, names, one empty separator cell", em.loc(it))
    ok = any(s == "('',)+description_row+('',)" for s in ysrc) and "ifself.description_row:" in squash(it)
    chk.ob("C19-R1", "databoxes._exports._ExportBlock.__iter__[description row]", ok, "written iff description_row, aligned under the names", em.loc(it))
    fc = im.func("Inlay.from_csv_file")
    chk.saw(im, "Inlay.from_csv_file")
    nh = assign_value(fc, "num_header_rows")
    ok = nh is not None and squash(nh) == "1+int(description_row)" and "description_row=header_rows[1]ifdescription_rowelse['']*len(name_row)" in squash(fc)
    chk.ob("C19-R1", "databoxes._imports.Inlay.from_csv_file[header rows]", ok, "1 header row, 2 with descriptions; descriptions read from the second", im.loc(fc))
    # dates
    df = em.assign("_DEFAULT_DATE_FORMATTER")
    ps = im.assign("_DEFAULT_PERIOD_FROM_STRING")
    ok = squash(df) == "str" and squash(ps) == "Period.from_sdmx_string"
    pstr = dm.func("Period.__str__")
    ok = ok and squash(single_return(pstr)) == "self.to_sdmx_string()"
    chk.ob("C19-R1", "databoxes[date cells]", ok, "written with str(period) = SDMX string; read with Period.from_sdmx_string (round trip: C11-R1/R2)", em.rel)
    ex = im.func("_extract_periods_from_data_rows")
    chk.saw(im, "_extract_periods_from_data_rows")
    src = squash(ex)
    ok = "period_from_string(line[column],frequency=frequency)" in src and "period_from_string(data_rows[0][column],frequency=frequency)" in src
    fs = dm.func("Period.from_sdmx_string")
    ok = ok and "frequency" in all_params(fs)
    chk.ob("C19-R1", "databoxes._imports._extract_periods_from_data_rows[frequency passed]", ok,
           "the block's frequency is passed to the period parser (no auto-detection ambiguity)", im.loc(ex))
    ok = "ifstart_period_onlyorline[column]" in src
    chk.ob("C19-R1", "databoxes._imports._extract_periods_from_data_rows[padding rows]", ok, "rows with an empty date cell (padding of shorter blocks) are skipped", im.loc(ex))
    ok = any(s == "empty_row" for s in ysrc) and "for_inrange(self.total_num_data_rows-len(self.periods)):" in squash(it)
    er = assign_value(it, "empty_row")
    ok = ok and er is not None and squash(er) == "('',)+('',)*sum(num_data_columns)+('',)"
    chk.ob("C19-R1", "databoxes._exports._ExportBlock.__iter__[padding rows]", ok, "shorter blocks are padded with all-empty rows of the block's width", em.loc(it))
    # data row: date + values (NaN -> nan_str) + separator ; width consistency
    data_y = [s for s in ysrc if s.startswith("(date_formatter(date),)+")]
    ok = len(data_y) == 1 and "xifnot_np.isnan(x)elseself.nan_str" in data_y[0] and data_y[0].endswith("+('',)")
    chk.ob("C19-R1", "databoxes._exports._ExportBlock.__iter__[data row]", ok, "date, rounded values with NaN written as nan_str, separator", em.loc(it))
    tc = em.func("Inlay.to_csv_file")
    chk.saw(em, "Inlay.to_csv_file")
    d = {a.arg: dflt for a, dflt in zip(tc.args.kwonlyargs, tc.args.kw_defaults) if dflt is not None}
    ok = "nan_str" in d and literal(d["nan_str"]) == ""
    chk.ob("C19-R1", "databoxes._exports.Inlay.to_csv_file[nan_str default]", ok if "nan_str" in d else None,
           "missing values are written as empty cells, which genfromtxt reads as NaN", em.loc(tc))
    # data matrix: hstack of get_data(periods) per name == widths num_data_columns
    ga = em.func("_get_data_array_for_names")
    nc = em.func("_get_num_data_columns_for_names")
    ok = "self[n].get_data(periods)forninnames" in squash(ga) and "self[n].shape[1]forninnames" in squash(nc)
    chk.ob("C19-R1", "databoxes._exports[data width == name row width]", ok, "each name contributes shape[1] columns to both the name row and the data rows", em.loc(ga))
    # reader: block columns
    src = squash(bi)
    ok = "current_start=column+1" in src and "names=name_row[current_start:column]" in src and "num_columns=column-current_start" in src and "name_row+=['__']" in src
    chk.ob("C19-R1", "databoxes._imports._block_iterator[column range]", ok, "block = cells after the mark up to the next mark (or the sentinel)", im.loc(bi))
    ra = im.func("_read_array_for_block")
    pass
    from ..core import inline_locals
    gcalls = [c for c in ast.walk(ra) if isinstance(c, ast.Call) and (dotted(c.func) or "").endswith("genfromtxt")]
    ok, detail = None, "genfromtxt call not recognised"
    if len(gcalls) == 1:
        kw = {k.arg: k.value for k in gcalls[0].keywords if k.arg}
        rps = params(ra)
        try:
            uc = inline_locals(ra, kw["usecols"])
            sk = inline_locals(ra, kw["skip_header"])
            cols = list(fin.ev(uc, {f"{rps[1]}.column_start": 3, f"{rps[1]}.num_columns": 4}))
            skip = fin.ev(sk, {rps[2]: 2})
            ok = cols == [3, 4, 5, 6] and skip == 2
            detail = (f"a block starting at column 3 with 4 columns is read from columns {cols} below {skip} header rows "
                      "(want 3..6 below the header rows it was told)")
        except (fin.NotFinite, KeyError, TypeError) as ex:
            ok, detail = None, f"usecols / skip_header not evaluable: {ex}"
    chk.ob("C19-R1", "databoxes._imports._read_array_for_block", ok, detail, im.loc(ra), sure=True)
    ad = im.func("_add_series_for_block")
    src = squash(ad)
    ok = "array=array[block.row_index,:]" in src and "series.set_data(block.periods,array[:,columns])" in src and "Series(num_variants=len(columns),description=description)" in src
    chk.ob("C19-R1", "databoxes._imports._add_series_for_block", ok, "rows with dates x the name's column group -> series with one variant per column", im.loc(ad))
    rs = em.func("_ExportBlock.__iter__._round")
    ok = "ifself.roundisNone:returnx" in squash(rs).replace("\n", "") and "_np.round(x,self.round)" in squash(rs)
    chk.ob("C19-R1", "databoxes._exports._ExportBlock.__iter__[rounding]", ok, "values are rounded to the declared number of decimals only", em.loc(rs))


def rule_r2(chk):
    chk.rule("C19-R2", "every Databox method with a SourceNames parameter tests it for None at most, then passes it to "
             "_resolve_source_target_names or to another method's SourceNames parameter; copy() and __or__ deep-copy before anything else", floor=8)
    m = chk.repo.mod(DBX)
    meths = m.methods("Databox")
    src_params = {}
    for name, f in meths.items():
        ps = []
        for a in f.args.posonlyargs + f.args.args + f.args.kwonlyargs:
            if a.annotation is not None and unparse(a.annotation) in ("SourceNames",):
                ps.append(a.arg)
        if ps:
            src_params[name] = ps
    if len(src_params) < 6:
        raise AnalysisError(f"only {len(src_params)} Databox methods with SourceNames parameters found")
    for name, ps in sorted(src_params.items()):
        if name == "_resolve_source_target_names":
            continue
        f = meths[name]
        chk.saw(m, f"Databox.{name}")
        for p in ps:
            bad = []
            resolved_line = None
            # first rebinding from the resolver
            for n in walk_no_nested(f):
                if isinstance(n, ast.Assign) and isinstance(n.value, ast.Call) and squash(n.value.func) == "self._resolve_source_target_names":
                    tnames = [e.id for e in ast.walk(n.targets[0]) if isinstance(e, ast.Name)]
                    if p in tnames and p in [unparse(a) for a in n.value.args]:
                        resolved_line = n.lineno if resolved_line is None else min(resolved_line, n.lineno)
            for n in ast.walk(f):
                if not (isinstance(n, ast.Name) and n.id == p and isinstance(n.ctx, ast.Load)):
                    continue
                if resolved_line is not None and n.lineno > resolved_line:
                    continue
                par = getattr(n, "_parent", None)
                # allowed: `p is None` tests
                if isinstance(par, ast.Compare) and all(isinstance(c, ast.Constant) and c.value is None for c in par.comparators):
                    continue
                # allowed: argument of the resolver
                if isinstance(par, ast.Call) and squash(par.func) == "self._resolve_source_target_names":
                    continue
                # allowed: delegation to a method whose corresponding parameter is SourceNames
                if isinstance(par, ast.keyword):
                    call = par._parent
                    callee = call.func.attr if isinstance(call.func, ast.Attribute) else None
                    if callee in src_params and par.arg in src_params[callee]:
                        continue
                if isinstance(par, ast.Call) and isinstance(par.func, ast.Attribute) and par.func.attr in src_params and n in par.args:
                    callee = par.func.attr
                    cps = params(meths[callee])[1:]
                    idx = par.args.index(n)
                    if idx < len(cps) and cps[idx] in src_params[callee]:
                        continue
                bad.append(f"line {n.lineno}: {unparse(par)[:60] if par is not None else n.id}")
            chk.ob("C19-R2", f"databoxes.main.Databox.{name}[{p}]", not bad,
                   "resolved (or delegated) before use" if not bad else f"used unresolved: {bad[:2]}", m.loc(f))
    cp = meths["copy"]
    first = strip_docstring(cp.body)[0]
    ok = isinstance(first, ast.Assign) and squash(first.value) in ("_co.deepcopy(self)", "copy.deepcopy(self)")
    chk.ob("C19-R2", "databoxes.main.Databox.copy[deep copy first]", ok, "the copy is made before renaming/keeping", m.loc(cp))
    src = squash(cp)
    newname = unparse(first.targets[0]) if isinstance(first, ast.Assign) else "?"
    ok = f"{newname}.rename(source_names,target_names,strict_names=strict_names)" in src and f"{newname}.keep(target_names,strict_names=strict_names)" in src \
        and src.index(f"{newname}.rename(") < src.index(f"{newname}.keep(")
    chk.ob("C19-R2", "databoxes.main.Databox.copy[rename then keep on the copy]", ok, "rename source->target, then keep the targets, both on the copy", m.loc(cp))
    orf = meths["__or__"]
    # by finite evaluation: the result is a deep copy of the left operand (deepcopy(self), or self.copy() without arguments, which
    # C19-R2 above shows to be one) updated once with the right operand; neither operand is updated itself
    log = []
    clone = fin.FinObj(update=lambda *a_, **k_: log.append(("clone.update",) + a_))
    left = fin.FinObj(update=lambda *a_, **k_: log.append(("self.update",) + a_),
                      copy=lambda *a_, **k_: clone if not a_ and not k_ else fin.FinObj(update=lambda *b_, **c_: log.append(("partial copy updated",))))
    try:
        got = fin.run_function(orf, {params(orf)[0]: left, params(orf)[1]: "OTHER"},
                               {"_co.deepcopy": lambda x_: clone if x_ is left else x_, "copy.deepcopy": lambda x_: clone if x_ is left else x_, "_cp.deepcopy": lambda x_: clone if x_ is left else x_})
        ok = got is clone and log == [("clone.update", "OTHER")]
        chk.ob("C19-R2", "databoxes.main.Databox.__or__", ok, "merges into a deep copy of the left operand" if ok else
               f"returns {'the copy' if got is clone else 'something else than the deep copy'} after {log}; expected the deep copy of the left operand updated once with the right one", m.loc(orf), sure=True)
    except (fin.NotFinite, fin.Raised, TypeError, AttributeError) as ex:
        chk.undecided("C19-R2", "databoxes.main.Databox.__or__", f"not finitely evaluable: {type(ex).__name__}: {ex}", m.loc(orf))
    # resolver: non-strict filtering keeps only names present; callable/str/None forms
    rs = meths["_resolve_source_target_names"]
    chk.saw(m, "Databox._resolve_source_target_names")
    pass
    ctx = ("a", "b", "c", "d")
    up = lambda n: n.upper()
    cases = [  # (source, target, strict) -> (sources, targets)
        ((None, None, False), (ctx, ctx)),
        (("a", "Z", False), (("a",), ("Z",))),
        ((("a", "x", "c"), ("A", "X", "C"), False), (("a", "c"), ("A", "C"))),
        ((("x", "b"), ("X", "B"), False), (("b",), ("B",))),
        ((("x", "y"), ("X", "Y"), False), ((), ())),
        ((("a", "x", "c"), ("A", "X", "C"), True), (("a", "x", "c"), ("A", "X", "C"))),
        (((lambda n: n in "bd"), None, False), (("b", "d"), ("b", "d"))),
        ((("a", "x", "c"), up, False), (("a", "c"), ("A", "C"))),
        ((None, up, False), (ctx, ("A", "B", "C", "D"))),
    ]
    ps = params(rs)
    env = {"str": str}
    funcs = {"self.get_names": lambda: ctx, "isinstance": isinstance, "callable": callable}
    try:
        bad = None
        for (src_, tgt_, strict_), want in cases:
            got = fin.run_function(rs, {ps[1]: src_, ps[2]: tgt_, ps[3]: strict_}, funcs=funcs, env=env)
            got2 = (tuple(got[0]), tuple(got[1]))
            if got2 != want or tuple(got[2]) != ctx:
                bad = (src_ if not callable(src_) else "<predicate>", tgt_ if not callable(tgt_) else "<function>", strict_, got2, want)
                break
        chk.ob("C19-R2", "databoxes.main.Databox._resolve_source_target_names", bad is None,
               f"{len(cases)} finite cases (None / str / list / predicate sources, None / str / list / function targets, strict on/off, missing "
               "names first, in the middle, all): sources and targets stay paired and only pairs whose source exists survive non-strict mode"
               if bad is None else f"source={bad[0]}, target={bad[1]}, strict={bad[2]} over names {ctx}: got {bad[3]}, want {bad[4]} (pairs misaligned or dropped)", m.loc(rs), sure=True)
    except fin.NotFinite as ex:
        chk.undecided("C19-R2", "databoxes.main.Databox._resolve_source_target_names", f"not evaluable: {ex}", m.loc(rs))
    # rename/remove/keep act on exactly the resolved names
    for name, want in (("rename", "fors,tinzip(source_names,target_names):self[t]=self.pop(s)"), ("remove", "forninremove_names:delself[n]"),
                       ("keep", "remove_names=set(self.keys())-set(keep_names)")):
        ok = want in squash(meths[name]).replace("\n", "")
        chk.ob("C19-R2", f"databoxes.main.Databox.{name}[effect]", ok, f"acts on the resolved names only", m.loc(meths[name]))
    pr = meths["prepend"]
    src = squash(pr)
    ok = "other=other.copy()" in src and src.index("other=other.copy()") < src.index("other.clip(") and "self.underlay(other)" in src
    chk.ob("C19-R2", "databoxes.main.Databox.prepend", ok, "the argument is copied before it is clipped", m.loc(pr))
    ly = meths["_lay"]
    src = squash(ly)
    ok = "ifnotstrict_names:names=tuple(set(names)&set(self.keys())&set(other.keys()))" in src.replace("\n", "") and "func(self[n],other[n],**kwargs)" in src
    chk.ob("C19-R2", "databoxes.main.Databox._lay", ok, "series semantics applied to names present on both sides only; others untouched", m.loc(ly))


def _axis_delta(f, attr):
    """number of periods by which a method changes `self.<attr>` along the period axis, as text facts"""
    out = []
    for n in ast.walk(f):
        if isinstance(n, ast.Assign) and squash(n.targets[0]) == f"self.{attr}":
            out.append(squash(n.value))
    return out


def rule_r3(chk):
    chk.rule("C19-R3", "Dataslate period-axis methods call the invariant and every variant with the same argument, and both sides change the "
             "axis by the same count; Variant.copy copies the array; from_databox_variant fills NaN-only fallbacks before overwrites", floor=10)
    m, vm, im = chk.repo.mod(DSL), chk.repo.mod(DSV), chk.repo.mod(DSI)
    for name in ("remove_periods_from_start", "remove_periods_from_end", "add_periods_to_end"):
        f = m.func(f"Dataslate.{name}")
        chk.saw(m, f"Dataslate.{name}")
        p = params(f)[1]
        ci = calls_to(f, f"self._invariant.{name}")
        cv = [c for c in ast.walk(f) if isinstance(c, ast.Call) and isinstance(c.func, ast.Attribute) and c.func.attr == name and unparse(c.func.value) != "self._invariant"]
        loops = [n for n in walk_no_nested(f) if isinstance(n, ast.For) and squash(n.iter) == "self._variants"]
        ok = len(ci) == 1 and len(cv) == 1 and len(loops) == 1 and [squash(a) for a in ci[0].args] == [p] and [squash(a) for a in cv[0].args] == [p] \
            and unparse(cv[0].func.value) == unparse(loops[0].target)
        chk.ob("C19-R3", f"dataslates.main.Dataslate.{name}[lock-step call]", ok,
               f"invariant.{name}({p}) and v.{name}({p}) for every variant" if ok else "invariant and variants are not updated with the same argument", m.loc(f))
        neg = "raiseValueError" in squash(f) and f"if{p}<0:" in squash(f)
        chk.ob("C19-R3", f"dataslates.main.Dataslate.{name}[negative rejected]", neg, "a negative count is rejected", m.loc(f))
    # counts
    fi, fv = im.func("Invariant.remove_periods_from_start"), vm.func("Variant.remove_periods_from_start")
    chk.saw(im, "Invariant.remove_periods_from_start"); chk.saw(vm, "Variant.remove_periods_from_start")
    pi, pv = params(fi)[1], params(fv)[1]
    ok = _axis_delta(fi, "periods") == [f"self.periods[{pi}:]"] and _axis_delta(fv, "data") == [f"self.data[:,{pv}:]"]
    chk.ob("C19-R3", "dataslates[remove from start: same count]", ok, f"periods[{pi}:] and data[:, {pv}:]", im.loc(fi))
    bc = _axis_delta(fi, "base_columns")
    ok = bc == [f"tuple((i-{pi}foriinself.base_columnsifi>={pi}))"]
    chk.ob("C19-R3", "dataslates._invariants.Invariant.remove_periods_from_start[base columns]", ok, "base columns shift left by the same count; removed ones drop out", im.loc(fi))
    fi, fv = im.func("Invariant.remove_periods_from_end"), vm.func("Variant.remove_periods_from_end")
    pi, pv = params(fi)[1], params(fv)[1]
    ok = _axis_delta(fi, "periods") == [f"self.periods[:-{pi}]"] and _axis_delta(fv, "data") == [f"self.data[:,:-{pv}]"]
    chk.ob("C19-R3", "dataslates[remove from end: same count]", ok, f"periods[:-{pi}] and data[:, :-{pv}]", im.loc(fi))
    g1 = "ifnum_periods_to_remove:" in squash(fi) or f"if{pi}:" in squash(fi)
    g2 = f"if{pv}>0:" in squash(fv)
    chk.ob("C19-R3", "dataslates[remove from end: zero is a no-op]", g1 and g2, "periods[:-0] / data[:, :-0] are guarded (they would empty the axis)", im.loc(fi))
    # add to end: count added periods by finite evaluation
    fi, fv = im.func("Invariant.add_periods_to_end"), vm.func("Variant.add_periods_to_end")
    chk.saw(im, "Invariant.add_periods_to_end"); chk.saw(vm, "Variant.add_periods_to_end")
    pf = chk.repo.mod(DAT).func("periods_from_until")
    added = None
    try:
        k = 3
        env = {"self.periods": tuple(range(10, 15)), params(fi)[1]: k}
        def pfu(a, b, step=1):
            return tuple(range(a, b + (1 if step > 0 else -1), step))
        body = strip_docstring(fi.body)
        stmts = body[0].body if isinstance(body[0], ast.If) else body
        for st in stmts:
            if isinstance(st, ast.Assign):
                val = fin.ev(st.value, env, funcs={"_dates.periods_from_until": pfu})
                env[squash(st.targets[0])] = val
        added = len(env["self.periods"]) - 5
    except (fin.NotFinite, KeyError, IndexError, TypeError) as e:
        added = None
    pad = [n for n in ast.walk(fv) if isinstance(n, ast.Assign) and unparse(n.targets[0]) == "padding"]
    vadd = squash(pad[0].value) if pad else None
    ok = None if added is None or vadd is None else (added == 3 and vadd == f"((0,0),(0,{params(fv)[1]}))")
    chk.ob("C19-R3", "dataslates[add to end: same count]", ok,
           f"invariant adds {added} period(s) for a request of 3; variant pads {vadd}", im.loc(fi))
    # remove_initial / remove_terminal use min_max_shift
    ri, rt = m.func("Dataslate.remove_initial"), m.func("Dataslate.remove_terminal")
    ok = squash(assign_value(ri, "remove")) == "-self._invariant.min_max_shift[0]" and "self.remove_periods_from_start(remove)" in squash(ri) \
        and squash(assign_value(rt, "remove")) == "self._invariant.min_max_shift[1]" and "self.remove_periods_from_end(remove)" in squash(rt)
    chk.ob("C19-R3", "dataslates.main.Dataslate[remove_initial/terminal]", ok, "initial = -min_shift columns from the start, terminal = max_shift columns from the end", m.loc(ri))
    ge = m.func("_get_extended_span")
    chk.saw(m, "_get_extended_span")
    src = squash(ge)
    ok = ("min_shift=slatable.max_lagifprepend_initialelse0" in src and "max_shift=slatable.max_leadifappend_terminalelse0" in src
          and "start_date=min_base_date+min_shift" in src and "end_date=max_base_date+max_shift" in src
          and "base_columns=tuple(_dates.period_indexes(base_span,start_date))" in src and "return(extended_dates,base_columns,min_shift,max_shift)" in src)
    chk.ob("C19-R3", "dataslates.main._get_extended_span", ok, "extended span = base span widened by max_lag/max_lead; base columns are offsets from its start", m.loc(ge))
    # variant copy
    vc = vm.func("Variant.copy")
    ok = "new.data=self.data.copy()" in squash(vc)
    chk.ob("C19-R3", "dataslates._variants.Variant.copy", ok, "the data array is copied", vm.loc(vc))
    fd = vm.func("Variant.from_databox_variant")
    chk.saw(vm, "Variant.from_databox_variant")
    a = calls_to(fd, "self._apply_fallbacks")
    b = calls_to(fd, "self._apply_overwrites")
    ok = len(a) == 1 and len(b) == 1 and a[0].lineno < b[0].lineno
    chk.ob("C19-R3", "dataslates._variants.Variant.from_databox_variant[fallbacks before overwrites]", ok, "fallbacks, then overwrites", vm.loc(fd))
    fb = vm.func("Variant._apply_fallbacks")
    src = squash(fb)
    ok = "index_nan=_np.isnan(values)" in src and "values[index_nan]=_np.float64(fallbacks[name])" in src
    chk.ob("C19-R3", "dataslates._variants.Variant._apply_fallbacks", ok, "only NaN cells receive the fallback", vm.loc(fb))
    src = squash(fd)
    ok = "fornininvariant.names:" in src and "ifnindatabox_v:new_data[:]=databox_v[n]" in src.replace("\n", "") and "_np.full((invariant.num_periods,),_np.nan" in src
    chk.ob("C19-R3", "dataslates._variants.Variant.from_databox_variant[rows]", ok, "one row per invariant name, NaN where the databox has no such name", vm.loc(fd))
    td = m.func("Dataslate.to_databox")
    chk.saw(m, "Dataslate.to_databox")
    src = squash(td)
    ok = ("forqidinself._invariant.output_qids:" in src and "name=self._invariant.names[qid]" in src and "v.data[qid,column_slice]forvinself._variants" in src
          and "Series.from_start_and_array(start=start,array=array,description=description,trim=trim)" in src)
    chk.ob("C19-R3", "dataslates.main.Dataslate.to_databox", ok, "row qid -> series named names[qid] starting at the slate's (or base) start, one variant per dataslate variant", m.loc(td))
    # the same by finite evaluation: whichever span is asked for, element i of the series named names[qid] is dated start + i and holds
    # the value of the column that belongs to that period (column = period - slate start)
    T, S0, NI = 8, 100, 2
    for span in ("full", "base"):
        key = f"dataslates.main.Dataslate.to_databox[dating, span={span}]"
        variants_ = [fin.FinObj(data=fin.FinMat([[1000 * v + 100 * q + t for t in range(T)] for q in range(3)])) for v in range(2)]
        me = fin.FinObj(start=S0, base_start=S0 + NI, base_slice=slice(NI, T - 1), base_columns=tuple(range(NI, T - 1)), num_names=3, num_variants=2, num_periods=T,
                        periods=tuple(range(S0, S0 + T)), base_periods=tuple(range(S0 + NI, S0 + T - 1)), end=S0 + T - 1, base_end=S0 + T - 2,
                        _invariant=fin.FinObj(output_qids=(0, 2), names=("a", "b", "c"), descriptions=("", "", "")), _variants=variants_)
        funcs = dict(fin.MATRIX_FUNCS)
        funcs["Databox"] = dict
        funcs["Series.from_start_and_array"] = lambda **kw: kw
        funcs["slice"] = slice
        try:
            ps_ = params(td)
            out = fin.run_function(td, {ps_[0]: me, ps_[1]: None, ps_[2]: span, ps_[3]: True}, funcs)
        except (fin.NotFinite, fin.Raised, TypeError, AttributeError, IndexError, KeyError) as ex:
            chk.undecided("C19-R3", key, f"not finitely evaluable: {type(ex).__name__}: {ex}", m.loc(td))
            continue
        bad = None
        if sorted(out) != ["a", "c"]:
            bad = f"series written: {sorted(out)}, expected the output names ['a', 'c']"
        for name, q in (("a", 0), ("c", 2)):
            if bad:
                break
            kw = out[name]
            st_, arr = kw.get("start"), kw.get("array")
            rows = arr.rows if isinstance(arr, fin.FinMat) else None
            want_n = T if span == "full" else T - 1 - NI
            if rows is None or not isinstance(st_, int) or len(rows) != want_n or (span == "base" and st_ != S0 + NI) or (span == "full" and st_ != S0):
                bad = f"series {name!r} starts at {st_} with {len(rows) if rows is not None else '?'} periods; span={span} is {want_n} periods from {S0 if span == 'full' else S0 + NI} (slate start {S0}, {NI} initial periods)"
                break
            for i, r in enumerate(rows):
                col = st_ + i - S0
                if list(r) != [1000 * v + 100 * q + col for v in range(2)]:
                    bad = f"series {name!r}: the element dated {st_ + i} holds {list(r)}, i.e. column {r[0] % 100} of the slate, but that period is column {col}: the values are misdated by {r[0] % 100 - col} period(s)"
                    break
        chk.ob("C19-R3", key, bad is None, bad or "each element is dated with the period of the column it was read from", m.loc(td), sure=True)
    sv = m.func("_slate_value_variant_iterator")
    ok = "value.iter_data_variants_from_until(from_until)" in squash(sv)
    fdb = m.func("Dataslate.from_databox")
    ok = ok and "from_until=(periods[0],periods[-1]ifperiodselse())" in squash(fdb) or "from_until=(periods[0],periods[-1]" in squash(fdb)
    chk.ob("C19-R3", "dataslates.main.Dataslate.from_databox[span]", ok, "series are cut to [first, last] period of the slate; outside values are NaN (C10-R5)", m.loc(fdb))


def rule_r6(chk, rid="C19-R6"):
    chk.rule(rid, "what to_csv_file reports as exported is what it writes: the export blocks, evaluated finitely for frequency tables that include a "
             "frequency whose span is empty (series without observations are written as a header-only block), carry exactly the names of "
             "info['names_exported'], each with the periods of its frequency", floor=1, shape_independent=True)
    pass
    m = chk.repo.mod(EXP)
    f = m.func("Inlay.to_csv_file")
    chk.saw(m, "Inlay.to_csv_file")
    blocks_node = info_node = None
    for n in walk_no_nested(f):
        if isinstance(n, ast.Assign) and len(n.targets) == 1 and isinstance(n.targets[0], ast.Name):
            if n.targets[0].id == "export_blocks":
                blocks_node = n.value
            if n.targets[0].id == "info":
                info_node = n.value
    if blocks_node is None or info_node is None:
        raise AnalysisError("anchor vanished: export_blocks / info in Inlay.to_csv_file")
    cases = (
        ("all series observed", {"Q": (1, 2, 3), "M": (7, 8)}, {"Q": ("a", "b"), "M": ("c",)}),
        ("one series without observations", {"Q": (1, 2, 3), "U": ()}, {"Q": ("a",), "U": ("empty",)}),
        ("only series without observations", {"U": ()}, {"U": ("e1", "e2")}),
        ("a frequency without names", {"Q": (1, 2), "M": (5,)}, {"Q": ("a",), "M": ()}),
    )
    bad = None
    try:
        for label, span, names in cases:
            made = []
            env = {"frequency_span": span, "frequency_names": names,
                   "export_block_constructor": lambda **kw: made.append(kw) or kw}
            list(fin.ev(blocks_node, env, fin.STDLIB_FUNCS))
            info = fin.ev(info_node, env, fin.STDLIB_FUNCS)
            written = sorted(x for b in made for x in b.get("names", ()))
            reported = sorted(info.get("names_exported", ()))
            if written != reported:
                bad = f"{label}: blocks are written for {written} but names_exported reports {reported} - {sorted(set(reported) - set(written))} vanish from the file"
                break
            wrong = [b for b in made if tuple(b.get("periods", ())) != tuple(span[b.get("frequency")])]
            if wrong:
                bad = f"{label}: block of frequency {wrong[0].get('frequency')} is written with periods {wrong[0].get('periods')}, not {span[wrong[0].get('frequency')]}"
                break
    except (fin.NotFinite, fin.Raised, TypeError, KeyError, AttributeError) as ex:
        chk.undecided(rid, "databoxes._exports.Inlay.to_csv_file[blocks == names_exported]", f"not finitely evaluable: {type(ex).__name__}: {ex}", m.loc(f))
        return
    chk.ob(rid, "databoxes._exports.Inlay.to_csv_file[blocks == names_exported]", bad is None,
           bad or f"{len(cases)} frequency tables incl. empty spans: every reported name is in a written block", m.loc(blocks_node), sure=True)


def run(chk):
    chk.guard(rule_r6, chk)
    chk.guard(rule_r1, chk)
    chk.guard(rule_r2, chk)
    chk.guard(rule_r3, chk)
    from .. import gens
    chk.guard(gens.apply, chk, "C19-R4", {"databoxes", "dataslates", "frames"}, 5, "names or periods produced lazily and traversed twice drop items on the second traversal")
    for mn in (EXP, IMP):
        from ..names import unresolved_globals
        mod = chk.repo.mod(mn)
        for scope, nm in unresolved_globals(mod, chk.repo):
            chk.note(f"{mod.rel}: name {nm!r} loaded in {scope} is bound nowhere (dead helper; not on the CSV path)")
    from .. import merge as _merge
    chk.guard(_merge.apply, chk, "C19-R5", ["irispie.sequentials._simulate", "irispie.simultaneous._simulate", "irispie.fords.std_simulators", "irispie.red_vars._estimators"])
    from .. import unused as _unused
    chk.guard(_unused.apply, chk, "C19-R91")
    from .. import args as _args
    chk.guard(_args.apply, chk, "C19-R90", {'databoxes', 'dataslates'}, 1)
    chk.assumptions = [
        "value-level losslessness (float formatting by csv.writer, parsing by numpy.genfromtxt) is numerical: NOT decided",
        "series names do not start with '__' and are not '*' or empty",
        "merge semantics on arbitrary values are dict.update",
    ]

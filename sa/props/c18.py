"""
C18 — reduced-form VAR: least-squares structure, lag stacking, state vector, companion shapes (partial).

  R1  no value that is None on one branch is dereferenced after the join (estimation code)
  R2  lag stacking: y0 = y[:, p:], lag-i block y[:, p-i:-i], x = data[.., p:], residuals written back at [p:];
      coefficient split matches the regressor row order [lags; exogenous; intercept]; residual = fitted equation
  R3  ordinary_least_squares is ((rhs rhs')^-1 rhs lhs')'
  R4  RedVAR state tokens are lags 0, -1, ..., -(p-1) in companion block order; initial state is read strictly
      before the first simulated column
  R5  companion matrices are conformable: T np x np, P np x n, K np, and what simulate_flat adds to the state has np rows
"""
from __future__ import annotations

import ast
import itertools

from .. import alg, fin, null, dim
from ..alg import Undecided, sym, num, add, sub
from ..core import AnalysisError, dotted, unparse, params, walk_no_nested, strip_docstring
from ..symexec import Interp, is_ir, Tup

EMOD = "irispie.red_vars._estimators"
IMOD = "irispie.red_vars._invariants"
VMOD = "irispie.red_vars._variants"
SMOD = "irispie.red_vars._simulators"
LMOD = "irispie.fords.least_squares"
FMOD = "irispie.fords.simulators"


def rule_r1(chk, thorough=False):
    chk.rule("C18-R1", "definite None dereference: along some path a local is assigned None and then dereferenced "
             "(attribute, call, subscript, arithmetic) without an intervening test", floor=2, shape_independent=True)
    m = chk.repo.mod(EMOD)
    targets = [("_estimate_variant", m), ("_get_estimation_data", m)]
    if thorough:
        for mn in (EMOD, IMOD, VMOD, SMOD, LMOD, "irispie.red_vars.main", "irispie.red_vars.prior_obs"):
            mm = chk.repo.mod(mn)
            for q, f in mm.functions():
                if (q, mm) not in targets:
                    targets.append((q, mm))
    for q, mm in targets:
        f = mm.func(q)
        chk.saw(mm, q)
        short = mm.name.replace("irispie.", "")
        res = null.analyse(f)
        if res:
            for name, node in res:
                chk.bad("C18-R1", f"{short}.{q}[{name}]", f"{name!r} is None on a path that reaches `{unparse(node)[:70]}`", mm.loc(node))
        else:
            chk.ok("C18-R1", f"{short}.{q}", "no definite None dereference", mm.loc(f))
    # positive fixture
    fx = ast.parse("def f(flag, b):\n    if flag:\n        c = b[0]\n    else:\n        c = None\n    return b - c.reshape((-1, 1))\n").body[0]
    if not null.analyse(fx):
        raise AnalysisError("C18-R1 self-check: fixture did not fire")
    fx2 = ast.parse("def f(flag, b):\n    if flag:\n        c = b[0]\n    else:\n        c = None\n    if flag:\n        return c.x\n    return 0\n").body[0]
    if null.analyse(fx2):
        raise AnalysisError("C18-R1 self-check: correlated-flag twin fired")


def _slice_of(node):
    """(row text, ast.Slice|expr for columns) of X[rows, cols]"""
    sl = node.slice
    if isinstance(sl, ast.Tuple) and len(sl.elts) == 2:
        return unparse(sl.elts[0]), sl.elts[1]
    return None, None


def rule_r2(chk):
    chk.rule("C18-R2", "lag stacking is affine-consistent in the order p; the split of the estimate into A, B, c follows the regressor "
             "order [lagged endogenous; exogenous; intercept]; the stored residual makes the fitted equation hold", floor=9)
    m = chk.repo.mod(EMOD)
    g = m.func("_get_estimation_data")
    chk.saw(m, "_get_estimation_data")
    env = {n.targets[0].id: n.value for n in walk_no_nested(g) if isinstance(n, ast.Assign) and isinstance(n.targets[0], ast.Name)}
    conv = alg.ToIR()
    # y0
    ok = None
    try:
        r, c = _slice_of(env["y0"])
        ok = unparse(env["y0"].value) == "y" and isinstance(c, ast.Slice) and c.upper is None and alg.equal(conv(c.lower), sym("order"))
    except (KeyError, Undecided, AttributeError):
        ok = False if ok is None else ok
    chk.ob("C18-R2", "red_vars._estimators._get_estimation_data[y0]", ok, f"y0 = {unparse(env.get('y0', ast.Constant(0)))}", m.loc(g))
    # lag blocks
    y1 = env.get("y1")
    ok, detail = False, "lag blocks not recognised"
    if isinstance(y1, ast.Call) and dotted(y1.func) in ("_np.vstack", "np.vstack") and isinstance(y1.args[0], (ast.ListComp, ast.GeneratorExp)):
        lc = y1.args[0]
        gen = lc.generators[0]
        i = gen.target.id
        r, c = _slice_of(lc.elt)
        try:
            rng = gen.iter
            rng_ok = isinstance(rng, ast.Call) and dotted(rng.func) == "range" and unparse(rng.args[0]) == "1" \
                and alg.equal(conv(rng.args[1]), add(sym("order"), num(1)))
            sl_ok = unparse(lc.elt.value) == "y" and isinstance(c, ast.Slice) and c.lower is not None and c.upper is not None \
                and alg.equal(conv(c.lower), sub(sym("order"), sym(i))) and alg.equal(conv(c.upper), alg.neg(sym(i)))
            ok = rng_ok and sl_ok
            detail = f"lag i in {unparse(rng)}: y[:, {unparse(c.lower)}:{unparse(c.upper)}] (same length as y0, shifted back by i)"
        except (Undecided, AttributeError):
            ok = None
    chk.ob("C18-R2", "red_vars._estimators._get_estimation_data[lag blocks]", ok, detail, m.loc(g))
    ok = None
    try:
        r, c = _slice_of(env["x"])
        ok = unparse(env["x"].value) == "data" and r == "exogenous_qids" and isinstance(c, ast.Slice) and c.upper is None and alg.equal(conv(c.lower), sym("order"))
    except (KeyError, Undecided, AttributeError):
        ok = False
    chk.ob("C18-R2", "red_vars._estimators._get_estimation_data[x]", ok, f"x = {unparse(env.get('x', ast.Constant(0)))}", m.loc(g))
    ok = unparse(env.get("y", ast.Constant(0))).replace(" ", "") == "data[endogenous_qids,:]"
    chk.ob("C18-R2", "red_vars._estimators._get_estimation_data[y]", ok, "y = data[endogenous_qids, :]", m.loc(g))
    ok = unparse(env.get("k", ast.Constant(0))).replace(" ", "") == "_np.ones((int(has_intercept),x.shape[1]),dtype=float)"
    chk.ob("C18-R2", "red_vars._estimators._get_estimation_data[intercept row]", ok, "one row of ones iff the VAR has an intercept", m.loc(g))
    rets = [n for n in walk_no_nested(g) if isinstance(n, ast.Return)]
    ok = len(rets) == 1 and unparse(rets[0].value).replace(" ", "") == "(y0,y1,x,k,where)"
    f = m.func("_estimate_variant")
    chk.saw(m, "_estimate_variant")
    fsrc = unparse(f).replace(" ", "")
    ok = ok and "y0,y1,x,k,where=_get_estimation_data(" in fsrc
    chk.ob("C18-R2", "red_vars._estimators[producer/consumer order]", ok, "(y0, y1, x, k, where) returned and unpacked in the same order", m.loc(f))
    # regressor order and split
    fenv = {}
    for n in ast.walk(f):
        if isinstance(n, ast.Assign) and isinstance(n.targets[0], ast.Name):
            fenv.setdefault(n.targets[0].id, []).append(n.value)
    rhs0 = fenv.get("rhs_est", [None])[0]
    ok = rhs0 is not None and unparse(rhs0).replace(" ", "") == "_np.vstack([y1,x,k])[:,where]"
    chk.ob("C18-R2", "red_vars._estimators._estimate_variant[regressor order]", ok, f"rhs = {unparse(rhs0) if rhs0 is not None else '?'}", m.loc(f))
    ok = unparse(fenv.get("lhs_est", [ast.Constant(0)])[0]).replace(" ", "") == "y0[:,where]"
    chk.ob("C18-R2", "red_vars._estimators._estimate_variant[lhs]", ok, "lhs = y0[:, where] (same columns as rhs)", m.loc(f))
    A = fenv.get("A", [None])[0]
    ok = A is not None and unparse(A).replace(" ", "") == "beta[:,:num_lagged_endogenous]"
    chk.ob("C18-R2", "red_vars._estimators._estimate_variant[A]", ok, f"A = {unparse(A) if A is not None else '?'}", m.loc(f))
    Bs = [unparse(b).replace(" ", "") for b in fenv.get("B", [])]
    cs = [unparse(c).replace(" ", "") for c in fenv.get("c", [])]
    ok = sorted(Bs) == sorted(["beta[:,num_lagged_endogenous:-1]", "beta[:,num_lagged_endogenous:]"]) and "beta[:,-1]" in cs and "None" in cs
    # with intercept branch must pair B[...:-1] with c = beta[:, -1]
    for n in ast.walk(f):
        if isinstance(n, ast.If) and unparse(n.test) == "has_intercept":
            tb = unparse(ast.Module(body=n.body, type_ignores=[])).replace(" ", "")
            eb = unparse(ast.Module(body=n.orelse, type_ignores=[])).replace(" ", "")
            ok = ok and "B=beta[:,num_lagged_endogenous:-1]" in tb and "c=beta[:,-1]" in tb and "B=beta[:,num_lagged_endogenous:]" in eb and "c=None" in eb
    chk.ob("C18-R2", "red_vars._estimators._estimate_variant[B, c split]", ok, f"B in {Bs}; c in {cs}", m.loc(f))
    # residual identity: y0 - A y1 - B x - c  (c may be guarded)
    u = fenv.get("u", [None])[0]
    ok, detail = None, "residual expression not interpreted"
    if u is not None:
        class RI(Interp):
            def call(self, node, env, name):
                if isinstance(node.func, ast.Attribute) and node.func.attr == "reshape":
                    return self.ev(node.func.value, env)
                return NotImplemented
            def ev(self, node, env):
                if isinstance(node, ast.IfExp):
                    # (c.reshape(..) if c is not None else 0): take the non-None branch
                    t = unparse(node.test).replace(" ", "")
                    if t in ("cisnotNone", "has_intercept"):
                        return self.ev(node.body, env)
                    if t == "cisNone":
                        return self.ev(node.orelse, env)
                return super().ev(node, env)
        try:
            ri = RI()
            env_u = {k: sym(k) for k in ("y0", "y1", "x", "A", "B", "c")}
            val = None
            for n in sorted((n for n in ast.walk(f) if isinstance(n, (ast.Assign, ast.AugAssign))
                             and unparse(n.targets[0] if isinstance(n, ast.Assign) else n.target) == "u"), key=lambda n: n.lineno):
                if isinstance(n, ast.Assign):
                    val = ri.ev(n.value, env_u)
                else:
                    val = ri.binop(alg._BINOPS[type(n.op)], env_u["u"], ri.ev(n.value, env_u), n, env_u)
                env_u["u"] = val
            want = sub(sub(sub(sym("y0"), alg.app("matmul", sym("A"), sym("y1"))), alg.app("matmul", sym("B"), sym("x"))), sym("c"))
            ok = is_ir(val) and alg.equal(val, want)
            detail = f"u = {alg.show_rat(alg.nf(val)) if is_ir(val) else val}"
        except Undecided as e:
            ok, detail = None, str(e)
    chk.ob("C18-R2", "red_vars._estimators._estimate_variant[residual]", ok, detail, m.loc(f))
    w = m.func("_write_residual_estimates")
    chk.saw(m, "_write_residual_estimates")
    ok = "data_array[residual_qids,order:]=residual_estimates" in unparse(w).replace(" ", "") and "order=invariant.dimensions.order" in unparse(w).replace(" ", "")
    chk.ob("C18-R2", "red_vars._estimators._write_residual_estimates", ok, "residuals written back at columns [order:], the columns of y0", m.loc(w))
    ok = "cov_residuals=u[:,where]@u[:,where].T/num_periods_corrected" in fsrc and "num_periods_corrected=num_periods_fitted-(num_rhsifdof_correctionelse0)" in fsrc
    chk.ob("C18-R2", "red_vars._estimators._estimate_variant[covariance]", ok, "second moment of the fitted residuals over T - (k if dof_correction)", m.loc(f))


def rule_r3(chk):
    chk.rule("C18-R3", "ordinary_least_squares(lhs, rhs) == solve(rhs @ rhs.T, rhs @ lhs.T).T (non-commutative symbolic product)", floor=1)
    m = chk.repo.mod(LMOD)
    f = m.func("ordinary_least_squares")
    chk.saw(m, "ordinary_least_squares")

    class LS(Interp):
        def call(self, node, env, name):
            if name in ("_np.linalg.solve", "np.linalg.solve") and len(node.args) == 2:
                return alg.app("solve", self.ev(node.args[0], env), self.ev(node.args[1], env))
            return NotImplemented

        def attr(self, base, attrname, node, env):
            if attrname == "T" and is_ir(base):
                return alg.app("tr", base)
            return NotImplemented
    ps = params(f)
    try:
        outs = LS().run(f.body, {ps[0]: sym("L"), ps[1]: sym("R")})
        (_, r), = outs
        mm = lambda a, b: alg.app("matmul", a, b)
        tr = lambda a: alg.app("tr", a)
        want = tr(alg.app("solve", mm(sym("R"), tr(sym("R"))), mm(sym("R"), tr(sym("L")))))
        chk.ob("C18-R3", "fords.least_squares.ordinary_least_squares", is_ir(r) and alg.equal(r, want),
               f"returns {alg.show_rat(alg.nf(r)) if is_ir(r) else r}", m.loc(f))
    except (Undecided, ValueError) as e:
        chk.undecided("C18-R3", "fords.least_squares.ordinary_least_squares", str(e), m.loc(f))


def rule_r4(chk):
    chk.rule("C18-R4", "RedVAR transition tokens, evaluated for p = 1..4: shifts are exactly 0, -1, ..., -(p-1), block k holds lag k for all "
             "variables (the order of the companion form [A; I 0]); get_init_xi reads column first-1+shift, i.e. strictly before the "
             "first simulated column iff shift <= 0", floor=6)
    m = chk.repo.mod(IMOD)
    f = m.func("Invariant._populate_solution_vectors")
    chk.saw(m, "Invariant._populate_solution_vectors")
    tt = None
    for n in walk_no_nested(f):
        if isinstance(n, ast.Assign) and unparse(n.targets[0]) == "transition_tokens":
            tt = n.value
    if tt is None:
        raise AnalysisError("anchor vanished: transition_tokens in red_vars Invariant._populate_solution_vectors")
    qids = (10, 11, 12)
    for p in (1, 2, 3, 4):
        try:
            toks = fin.ev(tt, {"order": p, "endogenous_qids": qids},
                          funcs={"_it.product": lambda *a: list(itertools.product(*a)), "Token": lambda qid, shift: (qid, shift), "tuple": tuple})
            toks = list(toks)
            shifts = [s for _, s in toks]
            want = [(q, -k) for k in range(p) for q in qids]
            ok_sign = all(s <= 0 for s in shifts)
            ok_order = toks == want
            chk.ob("C18-R4", f"red_vars._invariants.Invariant._populate_solution_vectors[p={p} lags]", ok_sign,
                   f"shifts {sorted(set(shifts))}" + ("" if ok_sign else " contain leads: the 'initial condition' is read at or after the simulated column"), m.loc(tt))
            chk.ob("C18-R4", f"red_vars._invariants.Invariant._populate_solution_vectors[p={p} block order]", ok_order,
                   f"tokens {toks[:6]}…; companion order needs {want[:6]}…", m.loc(tt))
        except fin.NotFinite as e:
            chk.undecided("C18-R4", f"red_vars._invariants.Invariant._populate_solution_vectors[p={p}]", str(e), m.loc(tt))
    fm = chk.repo.mod(FMOD)
    g = fm.func("get_init_xi")
    chk.saw(fm, "get_init_xi")
    src = unparse(g).replace(" ", "")
    ps = params(g)
    ok = f"_incidences.rows_and_columns_from_tokens({ps[1]},{ps[2]}-1)" in src
    chk.ob("C18-R4", "fords.simulators.get_init_xi", ok, "initial state is read at column (first - 1) + shift", fm.loc(g))
    im = chk.repo.mod("irispie.incidences.main")
    h = im.func("rows_and_columns_from_tokens")
    chk.saw(im, "rows_and_columns_from_tokens")
    hp = params(h)
    ok = None
    gens = [n for n in ast.walk(h) if isinstance(n, ast.GeneratorExp) and isinstance(n.elt, ast.Tuple) and len(n.elt.elts) == 2]
    if len(gens) == 1:
        tv = gens[0].generators[0].target.id
        try:
            ok = unparse(gens[0].elt.elts[0]) == f"{tv}.qid" and unparse(gens[0].generators[0].iter) == hp[0] and \
                alg.equal(alg.ToIR()(gens[0].elt.elts[1]), add(sym(hp[1]), sym(f"{tv}.shift")))
        except Undecided:
            ok = None
    chk.ob("C18-R4", "incidences.main.rows_and_columns_from_tokens", ok, "(row, column) = (token.qid, offset + token.shift)", im.loc(h))
    # true_initials length
    ok = "true_initials=(True,)*num_lagged_endogenous" in unparse(f).replace(" ", "")
    chk.ob("C18-R4", "red_vars._invariants.Invariant._populate_solution_vectors[true_initials]", ok, "every state element is a true initial condition", m.loc(f))


def rule_r5(chk):
    chk.rule("C18-R5", "abstract shapes with n endogenous, p lags, nx exogenous, T periods (distinct primes, two instantiations): "
             "companion T is np x np, P np x n, K np; the exogenous impact added to the state in simulate_flat has np rows", floor=5)
    vm = chk.repo.mod(VMOD)
    sm = chk.repo.mod(SMOD)
    fm = chk.repo.mod(FMOD)
    for inst in ({"n": 2, "p": 3, "nx": 5, "T": 7}, {"n": 3, "p": 2, "nx": 7, "T": 11}) + \
            (({"n": 5, "p": 7, "nx": 2, "T": 13}, {"n": 7, "p": 5, "nx": 3, "T": 17}, {"n": 11, "p": 2, "nx": 13, "T": 19}) if chk.tier == "thorough" else ()):
        n, p, nx, T = inst["n"], inst["p"], inst["nx"], inst["T"]
        tag = f"[n={n},p={p}]"
        base = {
            "self.system.A": (n, n * p), "self.system.B": (n, nx), "self.system.c": (n,), "self.system.cov_residuals": (n, n),
            "self.system.num_endogenous": dim.Int(n), "self.system.order": dim.Int(p), "self.system.num_lagged_endogenous": dim.Int(n * p),
        }
        results = {}
        for meth, want in (("_populate_companion_T", (n * p, n * p)), ("_get_companion_P", (n * p, n)), ("_get_companion_K", (n * p,))):
            f = vm.func(f"Variant.{meth}")
            chk.saw(vm, f"Variant.{meth}")
            sh = dim.Shapes(env=dict(base))
            errs = []
            # analyse the branch in which the system exists / has an intercept
            body = [st for st in strip_docstring(f.body)]
            sh.returned = None
            for st in body:
                if isinstance(st, ast.If) and "is None" in unparse(st.test):
                    # `if A is None: ... return` guard, or c is None branch: take the not-None branch
                    sh.run(st.orelse, lambda mm, s: errs.append(mm))
                    continue
                sh.stmt(st, lambda mm, s: errs.append(mm))
            got = sh.env.get("self._companion_T") if meth == "_populate_companion_T" else (sh.returned[0] if getattr(sh, "returned", None) else None)
            results[meth] = got
            ok = not errs and got == want
            chk.ob("C18-R5", f"red_vars._variants.Variant.{meth}{tag}", False if errs else (ok if got is not dim.TOP and got is not None else None),
                   f"shape {got} (expected {want})" + (f"; {errs[0]}" if errs else ""), vm.loc(f))
        # exogenous impact: shape produced, and added to the state of np rows
        g = sm.func("_simulate_exogenous_impact")
        chk.saw(sm, "_simulate_exogenous_impact")
        sh = dim.Shapes(env={"B": (n, nx), "x_array": (nx, T), "data_array": dim.TOP,
                             "model_v.order": dim.Int(p)},
                        attr_ints={"num_lagged_endogenous": n * p, "num_endogenous": n, "order": p})
        errs = []
        sh.returned = None
        for st in strip_docstring(g.body):
            if isinstance(st, ast.Assign) and unparse(st.targets[0]) in ("B", "x_array", "data_array", "exogenous_qids"):
                if unparse(st.targets[0]) in ("B", "x_array"):
                    continue
            sh.stmt(st, lambda mm, s: errs.append(mm))
        # resolve helper ints a fix may use
        impact = sh.returned[0] if sh.returned else None
        h = fm.func("simulate_flat")
        chk.saw(fm, "simulate_flat")
        adds = [n_ for n_ in ast.walk(h) if isinstance(n_, ast.AugAssign) and unparse(n_.target) == "xi" and "exogenous_impact" in unparse(n_.value)]
        ok, detail = None, f"impact shape {impact}"
        if impact is not dim.TOP and impact is not None and len(adds) == 1:
            sh2 = dim.Shapes(env={"xi": (n * p,), "exogenous_impact": impact, "t": dim.Int(1)})
            errs2 = []
            sh2.stmt(adds[0], lambda mm, s: errs2.append(mm))
            ok = not errs2 and not errs
            detail = f"exogenous impact {impact} added to state {(n * p,)} via `{unparse(adds[0])}`" + (f": {errs2[0]}" if errs2 else "")
        chk.ob("C18-R5", f"red_vars._simulators._simulate_exogenous_impact~simulate_flat{tag}", ok, detail, sm.loc(g))
        # recursion in simulate_flat: T@xi + K, Pu[:, t]
        sh3 = dim.Shapes(env={"T": (n * p, n * p), "xi": (n * p,), "K": (n * p,), "P": (n * p, n), "u_array": (n, T), "t": dim.Int(1)})
        errs3 = []
        for n_ in ast.walk(h):
            if isinstance(n_, ast.Assign) and unparse(n_.targets[0]) in ("xi", "Pu") and unparse(n_.value) in ("T @ xi + K", "P @ u_array"):
                sh3.stmt(n_, lambda mm, s: errs3.append(mm))
            if isinstance(n_, ast.AugAssign) and unparse(n_) == "xi += Pu[:, t]":
                sh3.stmt(n_, lambda mm, s: errs3.append(mm))
        chk.ob("C18-R5", f"fords.simulators.simulate_flat[recursion]{tag}", not errs3 and sh3.checks >= 3,
               f"{sh3.checks} conformability checks on xi = T@xi + K; xi += (P@u)[:, t]" + (f": {errs3[0]}" if errs3 else ""), fm.loc(h))


def rule_r8(chk):
    from ..core import inline_locals
    chk.rule("C18-R8", "the unconditional mean is (I - A1 - ... - Ap)^-1 c: A is stored as [A1 A2 ... Ap] side by side (n x np), so the lag "
             "index is separated into a trailing axis by a COLUMN-MAJOR reshape to (n, n, p) and summed over that axis; a row-major "
             "reshape mixes columns of different lags", floor=2, shape_independent=True)
    vm = chk.repo.mod(VMOD)
    f = vm.func("Variant.get_mean")
    chk.saw(vm, "Variant.get_mean")
    rs = [c for c in ast.walk(f) if isinstance(c, ast.Call) and isinstance(c.func, ast.Attribute) and c.func.attr == "reshape"]
    sums = [c for c in ast.walk(f) if isinstance(c, ast.Call) and isinstance(c.func, ast.Attribute) and c.func.attr == "sum"]
    if len(rs) != 1 or len(sums) != 1:
        chk.undecided("C18-R8", "red_vars._variants.Variant.get_mean", "reshape / sum over the lags not recognised", vm.loc(f))
        return
    shape = inline_locals(f, rs[0].args[0]) if rs[0].args else None
    kw = {k.arg: k.value for k in rs[0].keywords}
    dims = [unparse(e) for e in shape.elts] if isinstance(shape, ast.Tuple) else None
    lag_last = dims is not None and len(dims) == 3 and dims[0] == dims[1] and dims[2] != dims[0]
    col_major = isinstance(kw.get("order"), ast.Constant) and kw["order"].value == "F"
    chk.ob("C18-R8", "red_vars._variants.Variant.get_mean[lag axis]", (lag_last and col_major) if dims is not None else None,
           f"A.reshape({dims}, order={unparse(kw['order']) if 'order' in kw else 'C (default)'})" + ("" if col_major else
           ": with the default row-major order the trailing axis runs over adjacent columns, not over the lag blocks A1 ... Ap"), vm.loc(rs[0]), sure=dims is not None)
    skw = {k.arg: k.value for k in sums[0].keywords}
    ax = skw.get("axis") or (sums[0].args[0] if sums[0].args else None)
    chk.ob("C18-R8", "red_vars._variants.Variant.get_mean[sum over lags]", isinstance(ax, ast.Constant) and ax.value in (2, -1) if ax is not None else None,
           f"sum(axis={unparse(ax) if ax is not None else None}) over the trailing (lag) axis", vm.loc(sums[0]), sure=ax is not None)


class _Vec:
    """exact 1-D array with numpy's element-wise arithmetic (for the dummy-observation weights)"""
    _fin_attrs = ("size", "shape")

    def __init__(self, items):
        self.items = list(items)
        self.size = len(self.items)
        self.shape = (len(self.items),)

    def _zip(self, o, op):
        if isinstance(o, _Vec):
            if len(o.items) != len(self.items):
                raise ValueError("operands could not be broadcast together")
            return _Vec(op(a, b) for a, b in zip(self.items, o.items))
        return _Vec(op(a, o) for a in self.items)

    def __mul__(self, o): return self._zip(o, lambda a, b: a * b)
    __rmul__ = __mul__
    def __add__(self, o): return self._zip(o, lambda a, b: a + b)
    __radd__ = __add__
    def __pow__(self, o): return self._zip(o, lambda a, b: a ** b)
    def __iter__(self): return iter(self.items)
    def __len__(self): return len(self.items)
    def __eq__(self, o): return isinstance(o, _Vec) and self.items == o.items
    def __repr__(self): return f"{self.items}"


def rule_r9(chk, rid="C18-R9"):
    chk.rule(rid, "Minnesota dummy observations weigh lag l of variable j by mu * std_j * l**kappa in the order of the regressor rows (lag-major: "
             "all variables at lag 1, then lag 2, ... - C18-R4), and put mu * std_j * rho_j on each variable's own first lag: "
             "MinnesotaPriorObs.generate_y1 / generate_y0 evaluated finitely with distinct primes for the scales", floor=2, shape_independent=True)
    from .. import fin
    m = chk.repo.mod("irispie.red_vars.prior_obs")
    K, P, KAPPA, MU = 3, 3, 2, 7
    std = [2, 3, 5]
    rho = [11, 13, 17]
    dims = fin.FinObj(num_endogenous=K, order=P, num_exogenous=1, has_intercept=True)
    funcs = {
        "Dimensions": lambda *a: dims,
        "_ensure_array": lambda x, n: _Vec(x) if isinstance(x, (list, tuple)) else x if isinstance(x, _Vec) else _Vec([x] * n),
        "_np.hstack": lambda parts, **kw: _hstack_any(parts), "_np.concatenate": lambda parts, **kw: _hstack_any(parts),
        "_np.arange": lambda *a, **kw: _Vec(range(*a)), "_np.array": lambda x, **kw: _Vec(x),
        "_np.kron": lambda a, b: _Vec(x * y for x in a for y in b), "_np.tile": lambda a, n: _Vec(list(a) * n), "_np.repeat": lambda a, n: _Vec(x for x in a for _ in range(n)),
        "_np.diag": lambda v, **kw: ("diag", tuple(v)), "_np.zeros": lambda shape, **kw: ("zeros", tuple(shape)), "_np.ones": lambda n, **kw: _Vec([1] * n),
        "float": lambda x: x,
    }

    def _hstack_any(parts):
        parts = list(parts)
        if all(isinstance(p_, _Vec) for p_ in parts):
            return _Vec(x for p_ in parts for x in p_)
        return ("hstack", tuple(parts))
    me = fin.FinObj(mu=MU, kappa=KAPPA, rho=list(rho))
    f = m.func("MinnesotaPriorObs.generate_y1")
    chk.saw(m, "MinnesotaPriorObs.generate_y1")
    try:
        got = fin.run_function(f, {params(f)[0]: me, params(f)[1]: ("dims",), params(f)[2]: list(std)}, funcs, env={"float": "float"})
        want = ("diag", tuple(MU * std[j] * (l ** KAPPA) for l in range(1, P + 1) for j in range(K)))
        ok = got == want
        detail = (f"weights {list(got[1]) if isinstance(got, tuple) else got} for mu={MU}, std={std}, kappa={KAPPA}, {P} lags" if ok else
                  f"weights {list(got[1]) if isinstance(got, tuple) and got[0] == 'diag' else got}, but the regressor rows are lag-major so the weights must be "
                  f"{list(want[1])} (mu * std_j * l**kappa for l = 1..{P}, j = 1..{K} inside each lag)")
        chk.ob(rid, "red_vars.prior_obs.MinnesotaPriorObs.generate_y1", ok, detail, m.loc(f), sure=True)
    except (fin.NotFinite, fin.Raised, TypeError, ValueError, AttributeError) as ex:
        chk.undecided(rid, "red_vars.prior_obs.MinnesotaPriorObs.generate_y1", f"not finitely evaluable: {type(ex).__name__}: {ex}", m.loc(f))
    g = m.func("MinnesotaPriorObs.generate_y0")
    chk.saw(m, "MinnesotaPriorObs.generate_y0")
    try:
        got = fin.run_function(g, {params(g)[0]: me, params(g)[1]: ("dims",), params(g)[2]: list(std)}, funcs, env={"float": "float"})
        want = ("hstack", (("diag", tuple(MU * s_ * r for s_, r in zip(std, rho))), ("zeros", (K, K * (P - 1)))))
        chk.ob(rid, "red_vars.prior_obs.MinnesotaPriorObs.generate_y0", got == want,
               f"[diag(mu * std * rho), zeros({K}, {K * (P - 1)})]" if got == want else f"{got} (expected [diag(mu*std*rho), zeros(K, K(p-1))] = {want})", m.loc(g), sure=True)
    except (fin.NotFinite, fin.Raised, TypeError, ValueError, AttributeError) as ex:
        chk.undecided(rid, "red_vars.prior_obs.MinnesotaPriorObs.generate_y0", f"not finitely evaluable: {type(ex).__name__}: {ex}", m.loc(g))


def rule_r10(chk, rid="C18-R10"):
    chk.rule(rid, "the impact of exogenous variables B x(t) enters the CURRENT-period block of the companion state (the first n rows, shifts 0 - "
             "C18-R4) and the lagged blocks get zeros: _simulate_exogenous_impact evaluated finitely with exact matrices", floor=1, shape_independent=True)
    from .. import fin
    m = chk.repo.mod("irispie.red_vars._simulators")
    f = m.func("_simulate_exogenous_impact")
    chk.saw(m, "_simulate_exogenous_impact")
    n, p_, T = 2, 3, 4
    B = fin.FinMat([[2], [3]])
    data = fin.FinMat([[0] * T, [0] * T, [0] * T, [5, 7, 11, 13]])

    def pad(mat, widths, **kw):
        (a, b), (c, d) = widths
        rows = [[0] * (c + len(mat.rows[0]) + d) for _ in range(a)] + [[0] * c + list(r) + [0] * d for r in mat.rows] + \
               [[0] * (c + len(mat.rows[0]) + d) for _ in range(b)]
        return fin.FinMat(rows)
    funcs = dict(fin.MATRIX_FUNCS)
    funcs["_np.pad"] = pad
    sysm = fin.FinObj(B=B, num_lagged_endogenous=n * p_, num_endogenous=n, order=p_)
    model = fin.FinObj(get_system_matrices=lambda: sysm, get_exogenous_qids=lambda: [3], num_endogenous=n, order=p_)
    ds = fin.FinObj(get_data_variant=lambda *a: data)
    try:
        got = fin.run_function(f, {params(f)[0]: model, params(f)[1]: ds}, funcs)
        rows = [list(r) for r in got.rows]
    except (fin.NotFinite, fin.Raised, TypeError, AttributeError, IndexError, ValueError) as ex:
        chk.undecided(rid, "red_vars._simulators._simulate_exogenous_impact", f"not finitely evaluable: {type(ex).__name__}: {ex}", m.loc(f))
        return
    want = [[2 * x for x in data.rows[3]], [3 * x for x in data.rows[3]]] + [[0] * T for _ in range(n * (p_ - 1))]
    ok = rows == want
    where = [i for i, r in enumerate(rows) if any(r)]
    chk.ob(rid, "red_vars._simulators._simulate_exogenous_impact", ok,
           f"B x(t) fills rows 0..{n - 1} of the {n * p_}-row companion state, zeros below" if ok else
           f"B x(t) lands in rows {where} of the {len(rows)}-row companion state; the current-period block is rows 0..{n - 1} (the other blocks are lags)", m.loc(f), sure=True)


def run(chk):
    chk.guard(rule_r10, chk)
    chk.guard(rule_r9, chk)
    chk.guard(rule_r1, chk, thorough=(chk.tier == "thorough"))
    chk.guard(rule_r2, chk)
    chk.guard(rule_r3, chk)
    chk.guard(rule_r4, chk)
    chk.guard(rule_r5, chk)
    chk.guard(rule_r8, chk)
    from .. import variants
    chk.guard(variants.apply, chk, "C18-R6", [("irispie.red_vars._simulators", "_simulate"), ("irispie.red_vars._estimators", "Inlay.estimate")])
    from .. import merge as _merge
    chk.guard(_merge.apply, chk, "C18-R7", ["irispie.red_vars._estimators", "irispie.red_vars._simulators"])
    from .. import unused as _unused
    chk.guard(_unused.apply, chk, "C18-R91")
    from .. import args as _args
    chk.guard(_args.apply, chk, "C18-R90", {'red_vars'}, 1)
    chk.assumptions = [
        "numerical least squares (conditioning, solve) and companion-form moments (mean, eigenvalues, Lyapunov) are not decided",
        "parameters defaulting to None are not assumed None; only locals assigned None on a path",
        "shapes are checked for two instantiations of (n, p, nx, T) with pairwise distinct primes",
    ]

"""
C07 — simulation plans hit exogenized points exactly; swaps invert a simulation (partial).

  R1  register names agree across the plan and both simulators; plan API methods touch the register they name;
      swap_* exogenizes pair[0] and endogenizes pair[1] in the same mode
  R2  stacked-time swap: unknowns = (all - exogenized) | endogenized; unanticipated registers only in the first
      column; exogenized cells are copied from the input before the solve and are not among the cells the solver writes
  R3  first-order conditioning: augmented T/P/K/Z blocks are conformable and the smoother splits the augmented state
      at the same count it was built with
"""
from __future__ import annotations

import ast

from .. import alg, flow, dim
from ..core import (tuple_agreement, AnalysisError, dotted, unparse, params, walk_no_nested, strip_docstring, squash, assign_value, assignments,
                    calls_to, returns_of, single_return, tuple_names, literal)

PLN = "irispie.plans.simulation_plans"
STK = "irispie.stacked_time.simulators"
FRD = "irispie.fords.simulators"
PBP = "irispie.period_by_period.simulators"
EVM = "irispie.stacked_time._evaluators"


def _plan_registers(chk):
    m = chk.repo.mod(PLN)
    t = m.class_attr("SimulationPlan", "_registers")
    return m, [literal(e) for e in t.elts]


def rule_r1(chk):
    chk.rule("C07-R1", "_RELEVANT_REGISTER_NAMES of each simulator is a subset of SimulationPlan._registers; every literal register key "
             "used by the simulators is in that set; a helper/method named after a register reads or writes that register; "
             "swap_<mode> exogenizes pair[0] and endogenizes pair[1] with <mode>", floor=20)
    m, regs = _plan_registers(chk)
    chk.saw(m, "SimulationPlan")
    for modname in (STK, FRD):
        sm = chk.repo.mod(modname)
        short = modname.replace("irispie.", "")
        rel = [literal(e) for e in sm.assign("_RELEVANT_REGISTER_NAMES").elts]
        chk.ob("C07-R1", f"{short}._RELEVANT_REGISTER_NAMES", set(rel) <= set(regs), f"{rel} within plan registers {regs}", sm.rel)
        # literal keys
        for q, f in sm.functions():
            for n in ast.walk(f):
                key = None
                if isinstance(n, ast.Subscript) and unparse(n.value) in ("plan_registers", "registers_as_bool_arrays", "row_names_in_registers") \
                        and isinstance(n.slice, ast.Constant) and isinstance(n.slice.value, str):
                    key = n.slice.value
                if isinstance(n, ast.Call) and dotted(n.func) == "spots_from_register" and n.args and isinstance(n.args[0], ast.Constant):
                    key = n.args[0].value
                if key is not None:
                    chk.ob("C07-R1", f"{short}.{q}[key {key}]", key in rel, f"register key {key!r} {'is' if key in rel else 'is NOT'} among the names requested from the plan", sm.loc(n))
                    chk.saw(sm, q)
    # helpers named after a register (first-order simulator)
    fm = chk.repo.mod(FRD)
    for q, f in fm.functions():
        if not q.startswith("_insert_"):
            continue
        name = q[len("_insert_"):]
        reg = name[4:] if name.startswith("std_") else name
        keys = [n.slice.value for n in ast.walk(f) if isinstance(n, ast.Subscript) and unparse(n.value) == "plan_registers" and isinstance(n.slice, ast.Constant)]
        chk.ob("C07-R1", f"fords.simulators.{q}", keys == [reg], f"reads register(s) {keys}; its name says {reg!r}", fm.loc(f))
        chk.saw(fm, q)
        # what it copies: exogenized -> curr_xi values; std_endogenized -> std values
        src = squash(f)
        if name.startswith("std_"):
            ok = "input_data_array[squid.std_u_qids,simulation_slice][incidence]" in src
            chk.ob("C07-R1", f"fords.simulators.{q}[source]", ok, "endogenized shocks take their std from the input data", fm.loc(f))
        else:
            ok = "input_data_array[squid.curr_xi_qids,simulation_slice][incidence]" in src
            chk.ob("C07-R1", f"fords.simulators.{q}[source]", ok, "exogenized variables take their target from the input data", fm.loc(f))
    # plan API: method name <-> register
    meths = m.methods("SimulationPlan")
    for name, f in sorted(meths.items()):
        reg = None
        if name.startswith(("exogenize", "endogenize")) and name not in ("exogenize", "endogenize"):
            verb, mode = name.split("_", 1)
            reg = f"{verb}d_{mode}"
            keys = [c.args[0].value for c in calls_to(f, "self._write_to_register") if c.args and isinstance(c.args[0], ast.Constant)]
            chk.ob("C07-R1", f"plans.simulation_plans.SimulationPlan.{name}", keys == [reg], f"writes register(s) {keys}; its name says {reg!r}", m.loc(f))
            chk.saw(m, f"SimulationPlan.{name}")
        elif name in ("exogenize", "endogenize"):
            keys = [c.args[0].value for c in calls_to(f, "self._write_to_register") if c.args and isinstance(c.args[0], ast.Constant)]
            chk.ob("C07-R1", f"plans.simulation_plans.SimulationPlan.{name}", keys == [name + "d"], f"writes register(s) {keys}", m.loc(f))
        elif name.startswith("get_") and name.endswith("_in_period"):
            reg = name[4:-len("_in_period")]
            attrs = [n.attr for n in ast.walk(f) if isinstance(n, ast.Attribute) and n.attr.endswith("_register") and isinstance(n.value, ast.Name) and n.value.id == "self"]
            if attrs != [f"_{reg}_register"]:
                used = [mm.name for mm in chk.repo.modules.values() if mm.name != PLN and f".{name}(" in mm.source]
                if used:
                    chk.bad("C07-R1", f"plans.simulation_plans.SimulationPlan.{name}", f"reads {attrs} but is named after {reg!r}; used by {used}", m.loc(f))
                else:
                    chk.note(f"SimulationPlan.{name} reads {attrs} but is named after {reg!r}; no simulator calls it (diagnostic, not a C07 obligation)")
            else:
                chk.ok("C07-R1", f"plans.simulation_plans.SimulationPlan.{name}", f"reads {attrs}", m.loc(f))
        elif name.startswith("any_") and name.endswith("_except_start"):
            reg = name[4:-len("_except_start")]
            keys = [c.args[0].value for c in calls_to(f, "self._any_in_register_except_start") if c.args and isinstance(c.args[0], ast.Constant)]
            chk.ob("C07-R1", f"plans.simulation_plans.SimulationPlan.{name}", keys == [reg], f"inspects register(s) {keys}", m.loc(f))
    for mode in ("anticipated", "unanticipated"):
        f = meths.get(f"swap_{mode}")
        if f is None:
            raise AnalysisError(f"anchor vanished: SimulationPlan.swap_{mode}")
        chk.saw(m, f"SimulationPlan.swap_{mode}")
        ex = calls_to(f, f"self.exogenize_{mode}")
        en = calls_to(f, f"self.endogenize_{mode}")
        other = calls_to(f, *(f"self.{v}_{o}" for v in ("exogenize", "endogenize") for o in ("anticipated", "unanticipated") if o != mode))
        ok = len(ex) == 1 and len(en) == 1 and not other and squash(ex[0].args[1]) == "pair[0]" and squash(en[0].args[1]) == "pair[1]" \
            and squash(ex[0].args[0]) == squash(en[0].args[0]) == params(f)[1]
        chk.ob("C07-R1", f"plans.simulation_plans.SimulationPlan.swap_{mode}", ok,
               f"exogenize_{mode}(dates, pair[0]); endogenize_{mode}(dates, pair[1])" if ok else
               f"calls {[unparse(c)[:50] for c in ex + en + other]}", m.loc(f))
    # bool arrays are indexed [name row, period column] consistently
    g = meths["get_register_as_bool_array"]
    ok = "register[name][t]iftisnotNoneelseFalse" in squash(g) and "forninnames" in squash(g)
    chk.ob("C07-R1", "plans.simulation_plans.SimulationPlan.get_register_as_bool_array", ok, "rows = names, columns = requested periods; periods outside the plan are False", m.loc(g))

    # period membership: the plan covers start..end inclusive
    from .. import fin
    gp, isin = meths.get("_get_per_indexes"), meths.get("_is_per_in_span")
    if gp is None or isin is None:
        raise AnalysisError("anchor vanished: SimulationPlan._get_per_indexes/_is_per_in_span")
    chk.saw(m, "SimulationPlan._get_per_indexes")
    env = {"self.start": 10, "self.end": 14, "self.num_periods": 5}
    try:
        funcs = {"self._is_per_in_span": lambda t: fin.run_function(isin, {params(isin)[1]: t}, env=env)}
        got = fin.run_function(gp, {params(gp)[1]: (8, 9, 10, 12, 14, 15, 16)}, funcs=funcs, env=env)
        want = (None, None, 0, 2, 4, None, None)
        chk.ob("C07-R1", "plans.simulation_plans.SimulationPlan._get_per_indexes[start..end inclusive]", tuple(got) == want,
               f"plan 10..14, periods 8,9,10,12,14,15,16 -> columns {tuple(got)} (want {want})", m.loc(isin), sure=True)
    except fin.NotFinite as ex:
        chk.undecided("C07-R1", "plans.simulation_plans.SimulationPlan._get_per_indexes[start..end inclusive]", f"not evaluable: {ex}", m.loc(gp))


def rule_r2(chk, rid="C07-R2"):
    chk.rule(rid, "stacked-time: wrt_spots = sorted((all - exogenized) | endogenized); unanticipated registers are looked up for the "
             "first column only; _copy_exogenized_data_to_frame_data(data, exogenized_spots, input_data_array) precedes the solver call; "
             "the solver writes only the cells of the update map built from wrt_spots; the terminal condition writes columns after the "
             "last simulated one", floor=8)
    m = chk.repo.mod(STK)
    f = m.func("_get_wrt_spots")
    chk.saw(m, "_get_wrt_spots")
    # set expression
    asg = assignments(f, "wrt_spots")
    final = asg[-1].value if asg else None
    # normalise set algebra:  set(A).difference(X).union(N)
    def setexpr(n):
        if isinstance(n, ast.Call) and isinstance(n.func, ast.Attribute) and n.func.attr in ("difference", "union", "intersection", "symmetric_difference"):
            return (n.func.attr, setexpr(n.func.value), setexpr(n.args[0]))
        if isinstance(n, ast.BinOp) and isinstance(n.op, (ast.Sub, ast.BitOr, ast.BitAnd)):
            op = {ast.Sub: "difference", ast.BitOr: "union", ast.BitAnd: "intersection"}[type(n.op)]
            return (op, setexpr(n.left), setexpr(n.right))
        if isinstance(n, ast.Call) and dotted(n.func) in ("set", "tuple", "sorted", "frozenset", "list") and len(n.args) == 1:
            return setexpr(n.args[0])
        return unparse(n)
    se = setexpr(final) if final is not None else None
    want = ("union", ("difference", "wrt_spots", "exogenized_spots"), "endogenized_spots")
    chk.ob(rid, "stacked_time.simulators._get_wrt_spots[set algebra]", se == want if se is not None else None,
           f"unknowns = {se}", m.loc(f))
    for kind in ("exogenized", "endogenized"):
        v = assign_value(f, f"{kind}_spots")
        parts = {}
        if isinstance(v, ast.BinOp) and isinstance(v.op, ast.BitOr):
            for side in (v.left, v.right):
                if isinstance(side, ast.Call) and dotted(side.func) == "spots_from_register" and len(side.args) == 2 and isinstance(side.args[0], ast.Constant):
                    parts[side.args[0].value] = squash(side.args[1])
        ok = parts == {f"{kind}_anticipated": "columns_to_run", f"{kind}_unanticipated": "columns_to_run[0:1]"}
        chk.ob(rid, f"stacked_time.simulators._get_wrt_spots[{kind} spots]", ok if parts else None,
               f"{kind}: {parts} (anticipated over all columns, unanticipated in the first column only)", m.loc(f))
    sp = m.func("_get_wrt_spots.spots_from_register")
    from ..core import inline_locals
    sps = params(sp)
    comps = [n for n in ast.walk(sp) if isinstance(n, (ast.GeneratorExp, ast.SetComp, ast.ListComp)) and isinstance(n.elt, ast.Call) and dotted(n.elt.func) == "Token"]
    ok, detail = None, "the comprehension that builds Token(qid, column) is not recognised"
    if len(comps) == 1 and len(comps[0].generators) == 2 and len(comps[0].elt.args) == 2 and len(sps) == 2:
        c = comps[0]
        gens = {}
        for g_ in c.generators:
            it = inline_locals(sp, g_.iter)
            if isinstance(it, ast.Call) and dotted(it.func) == "enumerate" and isinstance(g_.target, ast.Tuple) and len(g_.target.elts) == 2:
                gens[squash(it.args[0])] = (unparse(g_.target.elts[0]), unparse(g_.target.elts[1]), it.args[0])
        col_gen = gens.get(sps[1])
        row_gens = [v for k, v in gens.items() if k != sps[1]]
        conds = [inline_locals(sp, t) for g_ in c.generators for t in g_.ifs]
        if col_gen and len(row_gens) == 1 and len(conds) == 1:
            r_idx, r_name, r_iter = row_gens[0]
            c_idx, c_val, _ = col_gen
            qid_ok = squash(c.elt.args[0]) == f"name_to_qid[{r_name}]"
            col_ok = squash(c.elt.args[1]) == c_val
            cd = conds[0]
            cond_ok = isinstance(cd, ast.Subscript) and squash(cd.slice).strip("()") == f"{r_idx},{c_idx}" and squash(cd.value).endswith(f"[{sps[0]}]")
            rows_ok = squash(r_iter).endswith(f"[{sps[0]}]")
            ok = qid_ok and col_ok and cond_ok and rows_ok
            detail = (f"Token({unparse(c.elt.args[0])}, {unparse(c.elt.args[1])}) for the rows of {unparse(r_iter)} and the columns of {sps[1]}, "
                      f"kept when {unparse(cd)}: qid of the row's name {qid_ok}; data column of the position {col_ok}; incidence read at "
                      f"[row, position] of the same register {cond_ok and rows_ok}")
    chk.ob(rid, "stacked_time.simulators._get_wrt_spots.spots_from_register", ok, detail, m.loc(sp))
    rb = assign_value(f, "registers_as_bool_arrays")
    ok = rb is not None and "periods=periods_to_run" in squash(rb) and "register_names=_RELEVANT_REGISTER_NAMES" in squash(rb)
    chk.ob(rid, "stacked_time.simulators._get_wrt_spots[register periods]", ok if rb is not None else None,
           "register columns are the periods of columns_to_run", m.loc(f))
    g = m.func("simulate_frame")
    chk.saw(m, "simulate_frame")
    cp = calls_to(g, "_copy_exogenized_data_to_frame_data")
    sv = calls_to(g, "_nq.damped_newton")
    ok = len(cp) == 1 and len(sv) == 1 and cp[0].lineno < sv[0].lineno and [squash(a) for a in cp[0].args] == ["data", "exogenized_spots", "input_data_array"]
    chk.ob(rid, "stacked_time.simulators.simulate_frame[copy before solve]", ok if cp and sv else (False if sv else None),
           "exogenized cells are filled from the input data before the solver starts", m.loc(g))
    un = [n for n in walk_no_nested(g) if isinstance(n, ast.Assign) and isinstance(n.value, ast.Call) and dotted(n.value.func) == "_get_wrt_spots"]
    oks = []
    for r in returns_of(f):
        o, d = tuple_agreement(tuple_names(r.value), tuple_names(un[0].targets[0]) if len(un) == 1 else None)
        oks.append(o)
    ok = None if (not oks or None in oks) else all(oks)
    chk.ob(rid, "stacked_time.simulators.simulate_frame[unpack order]", ok,
           f"_get_wrt_spots returns {[tuple_names(r.value) for r in returns_of(f)]}; unpacked as {tuple_names(un[0].targets[0]) if un else None}", m.loc(g))
    ce = calls_to(g, "_evaluators.create_evaluator")
    kw = {k.arg: squash(k.value) for k in ce[0].keywords} if ce else {}
    ok = kw.get("wrt_spots") == "wrt_spots" and kw.get("columns_to_eval") == "columns_to_run"
    chk.ob(rid, "stacked_time.simulators.simulate_frame[evaluator wrt]", ok if ce else None,
           "the evaluator (and its update map) is built from wrt_spots", m.loc(g))
    c = m.func("_copy_exogenized_data_to_frame_data")
    ps = params(c)
    stores = [n for n in walk_no_nested(c) if isinstance(n, ast.Assign) and isinstance(n.targets[0], ast.Subscript) and unparse(n.targets[0].value) == ps[0]]
    ok, detail = None, "no store into the frame data recognised"
    if len(stores) == 1 and isinstance(stores[0].value, ast.Subscript):
        st = stores[0]
        same_index = squash(st.targets[0].slice) == squash(st.value.slice)
        from_input = unparse(st.value.value) == ps[2]

        def derives(node, depth=0):
            """every name in the index expression is computed from the spots parameter only"""
            names = {x.id for x in ast.walk(node) if isinstance(x, ast.Name) and isinstance(x.ctx, ast.Load)}
            comp_bound = {y.id for x in ast.walk(node) if isinstance(x, ast.comprehension) for y in ast.walk(x.target) if isinstance(y, ast.Name)}
            for nm in names - comp_bound - {"tuple", "zip", "list"}:
                if nm == ps[1]:
                    continue
                v = assign_value(c, nm)
                if v is None or depth > 4 or not derives(v, depth + 1):
                    return False
            return True
        idx_ok = derives(st.targets[0].slice) and any(isinstance(x, ast.Name) and x.id == ps[1] for n in walk_no_nested(c) for x in ast.walk(n) if isinstance(n, ast.Assign))
        ok = same_index and from_input and idx_ok
        detail = (f"{unparse(st)[:80]}: same index on both sides: {same_index}; read from the input array: {from_input}; "
                  f"index computed from the exogenized spots only: {idx_ok}")
    chk.ob(rid, "stacked_time.simulators._copy_exogenized_data_to_frame_data", ok, detail, m.loc(c))
    em = chk.repo.mod(EVM)
    um = em.func("_create_update_map")
    src = squash(um)
    ok = "lhs_rows,lhs_columns=zip(*wrt_spots)" in src and "update_map.lhs=(lhs_rows,lhs_columns)" in src
    chk.ob(rid, "stacked_time._evaluators._create_update_map", ok, "the cells the solver writes are exactly wrt_spots", em.loc(um))
    up = em.func("create_evaluator.update")
    stores = [squash(n.targets[0]) for n in walk_no_nested(up) if isinstance(n, ast.Assign) and isinstance(n.targets[0], ast.Subscript) and unparse(n.targets[0].value) == "data_array"]
    chk.ob(rid, "stacked_time._evaluators.create_evaluator.update[writes]", stores == ["data_array[update_map.lhs[0],update_map.lhs[1]]"],
           f"update writes {stores}", em.loc(up))
    # period-by-period swap
    pm = chk.repo.mod(PBP)
    sc = pm.func("_setup_current_period")
    asg = assignments(sc, "current_wrt_qids")
    se = setexpr(asg[-1].value) if asg else None
    chk.ob(rid, "period_by_period.simulators._setup_current_period[set algebra]",
           se == ("union", ("difference", "current_wrt_qids", "qids_exogenized"), "qids_endogenized") if se is not None else None, f"unknowns = {se}", pm.loc(sc))


def rule_r3(chk):
    chk.rule("C07-R3", "first-order conditioning: abstract shapes of the augmented blocks in _generate_period_system (state nxi, endogenized "
             "anticipated shocks nv, observed targets ny) are conformable; _store_smooth splits the augmented state at the same nv; "
             "_adjust_initials extends mean and MSE by nv; producer/consumer tuples agree with kalmans.predict", floor=6)
    m = chk.repo.mod(FRD)
    f = m.func("_generate_period_system")
    chk.saw(m, "_generate_period_system")
    for inst in ({"nxi": 5, "nv": 2, "ny": 3, "nu": 7, "nw": 11}, {"nxi": 7, "nv": 3, "ny": 2, "nu": 5, "nw": 13}) + \
            (({"nxi": 11, "nv": 13, "ny": 17, "nu": 2, "nw": 3}, {"nxi": 2, "nv": 11, "ny": 13, "nu": 17, "nw": 19}) if chk.tier == "thorough" else ()):
        nxi, nv, ny, nu, nw = inst["nxi"], inst["nv"], inst["ny"], inst["nu"], inst["nw"]
        sh = dim.Shapes(env={"T": (nxi, nxi), "P": (nxi, nu), "K": (nxi,), "Z": (ny, nxi), "R": (nxi, nv), "v_impact": (nxi,),
                             "num_xi": dim.Int(nxi), "num_y": dim.Int(ny), "num_v_endogenized": dim.Int(nv), "solution.num_w": dim.Int(nw)})
        errs = []
        # interpret only the augmentation branch
        for n in ast.walk(f):
            if isinstance(n, ast.If) and "incidence_v" in unparse(n.test):
                for st in n.body:
                    if isinstance(st, ast.Assign) and unparse(st.targets[0]) in ("R", "num_v_endogenized"):
                        continue
                    if isinstance(st, ast.If):
                        sh.run(st.body, lambda mm, s: errs.append(mm))
                        continue
                    sh.stmt(st, lambda mm, s: errs.append(mm))
        got = {k: sh.env.get(k) for k in ("T", "P", "K", "Z", "v_impact")}
        want = {"T": (nxi + nv, nxi + nv), "P": (nxi + nv, nu), "K": (nxi + nv,), "Z": (ny, nxi + nv), "v_impact": (nxi + nv,)}
        ok = not errs and got == want
        chk.ob("C07-R3", f"fords.simulators._generate_period_system[augmented shapes nxi={nxi},nv={nv}]", ok,
               f"{got}" + (f"; {errs[0]}" if errs else ""), m.loc(f), facts={"got": str(got), "want": str(want)})
    # producer tuple vs predict's unpack
    km = chk.repo.mod("irispie.fords.kalmans")
    pred = km.func("predict")
    ret = tuple_names(single_return(f))
    unp = [tuple_names(n.targets[0]) for n in ast.walk(pred) if isinstance(n, ast.Assign) and isinstance(n.value, ast.Call)
           and dotted(n.value.func) == "partial_generate_period_system" and isinstance(n.targets[0], ast.Tuple)]
    ok, detail = tuple_agreement(ret, unp[0] if unp else None, norm=lambda x: x.lower().replace("_t", "").strip("_"))
    chk.ob("C07-R3", "fords.simulators._generate_period_system~kalmans.predict[tuple]", ok,
           f"producer returns {ret}; predict unpacks {unp[0] if unp else None}: {detail}", m.loc(f))
    g = m.func("_generate_period_data")
    ret = tuple_names(single_return(g))
    unp = [tuple_names(n.targets[0]) for n in ast.walk(pred) if isinstance(n, ast.Assign) and isinstance(n.value, ast.Call)
           and dotted(n.value.func) == "partial_generate_period_data" and isinstance(n.targets[0], ast.Tuple)]
    ok, detail = tuple_agreement(ret, unp[0] if unp else None, norm=lambda x: x.lower().rstrip("01").strip("_"))
    chk.ob("C07-R3", "fords.simulators._generate_period_data~kalmans.predict[tuple]", ok,
           f"producer returns {ret}; predict unpacks {unp[0] if unp else None}: {detail}", m.loc(g))
    s = m.func("_store_smooth")
    chk.saw(m, "_store_smooth")
    src = squash(s)
    ok = "num_v_endogenized=incidence_v.sum()" in src and "v_endogenized=xi[-num_v_endogenized:]" in src and "xi=xi[:-num_v_endogenized]" in src
    chk.ob("C07-R3", "fords.simulators._store_smooth[split]", ok,
           "the augmented state is split into [xi ; endogenized anticipated shocks] at the number of endogenized points", m.loc(s))
    ok = "data_array[squid.curr_xi_qids,t]=xi[squid.curr_xi_indexes,...]" in src and "data_array[squid.u_qids,t]=u" in src and "data_array[squid.w_qids,t]=w" in src
    chk.ob("C07-R3", "fords.simulators._store_smooth[stores]", ok, "smoothed xi, u, w go to the rows of their own qids", m.loc(s))
    a = m.func("_adjust_initials")
    src = squash(a)
    ok = "add_init_med=_np.zeros(num_v_endogenized,dtype=float)" in src and "add_init_mse=_np.diag(std_v_endogenized**2)" in src \
        and "_np.concatenate((init_med,add_init_med))" in src and "_sp.linalg.block_diag(init_mse,add_init_mse)" in src
    chk.ob("C07-R3", "fords.simulators._adjust_initials", ok, "initial mean and MSE are extended by the endogenized anticipated shocks (zero mean, std^2)", m.loc(a))
    # exogenized targets are observed exactly: H = 0, cov_w from std_w_endogenized (zeros), Z rows select exogenized curr xi
    z = m.func("_generate_Z")
    ok = "inx_y=~_np.isnan(curr_xi_exogenized[:,t])" in squash(z) and "returnZ_xi[inx_y,:]" in squash(z)
    gd = m.func("_generate_period_data")
    ok = ok and "inx_y=~_np.isnan(curr_xi_exogenized[:,t])" in squash(gd) and "y=curr_xi_exogenized[inx_y,t]" in squash(gd)
    chk.ob("C07-R3", "fords.simulators[observed targets mask]", ok,
           "the measurement rows (Z) and the target values (y) are selected by the same non-NaN mask of the exogenized array", m.loc(z))
    h = assign_value(f, "H")
    ok = h is not None and squash(h) == "_np.zeros((num_y,solution.num_w))"
    chk.ob("C07-R3", "fords.simulators._generate_period_system[no measurement noise on targets]", ok if h is not None else None,
           "targets are observed without measurement error (H = 0), so the smoother hits them exactly", m.loc(f))

    # one period window: arrays are built, filled by the helpers and cropped along the same columns
    sc = m.func("_simulate_conditional")
    chk.saw(m, "_simulate_conditional")
    uses = {}
    for n in walk_no_nested(sc):
        if isinstance(n, ast.Attribute) and isinstance(n.value, ast.Name) and n.value.id == "frame" and n.attr.endswith("slice"):
            uses.setdefault(n.attr, []).append(n.lineno)
    ok = len(uses) == 1 if uses else None
    chk.ob("C07-R3", "fords.simulators._simulate_conditional[one period window]", ok,
           f"frame windows used for building, filling and cropping the conditioning arrays: { {k: len(v) for k, v in uses.items()} } "
           "(targets written outside the cropped window are lost; a narrower window leaves targets unread)", m.loc(sc))


def rule_r4(chk):
    chk.rule("C07-R4", "first-order conditioning works in log space (frame_ds.logarithmize() precedes reading the frame data): every array "
             "that supplies exogenized targets to it is log-transformed on the log-variable rows before the targets are read; all "
             "places that flatten the incidence of endogenized anticipated shocks (columns of R, prior std, write-back of the "
             "estimates) enumerate it in the same order", floor=4)
    m = chk.repo.mod(FRD)
    sc = m.func("_simulate_conditional")
    chk.saw(m, "_simulate_conditional")
    body = strip_docstring(sc.body)
    logs = [i for i, st in enumerate(body) if isinstance(st, ast.Expr) and isinstance(st.value, ast.Call) and dotted(st.value.func) == "frame_ds.logarithmize"]
    reads = [i for i, st in enumerate(body) if isinstance(st, ast.Assign) and "frame_ds.get_data_variant" in unparse(st.value)]
    in_log_space = bool(logs) and bool(reads) and logs[0] < reads[0]
    chk.ob("C07-R4", "fords.simulators._simulate_conditional[frame data in logs]", in_log_space if (logs or reads) else None,
           "frame_ds.logarithmize() precedes get_data_variant(): the state and the targets live in log space for log-variables", m.loc(sc))
    # the array the helpers read targets from
    helpers = [f for q, f in m.functions() if q.startswith("_insert_exogenized_")]
    srcs = set()
    for h in helpers:
        chk.saw(m, h.name)
        for n in ast.walk(h):
            if isinstance(n, ast.Assign) and isinstance(n.value, ast.Subscript) and isinstance(n.value.value, ast.Subscript) \
                    and "curr_xi_qids" in unparse(n.value.value.slice):
                srcs.add(unparse(n.value.value.value))
    if srcs != {"input_data_array"}:
        chk.undecided("C07-R4", "fords.simulators._insert_exogenized_*[target source]", f"targets are read from {sorted(srcs)}", m.rel)
    elif in_log_space:
        # a log transform of the log-variable rows of input_data_array, dominating the statement that hands it to the helpers
        packed = [i for i, st in enumerate(body) if any(isinstance(n, ast.Name) and n.id == "input_data_array" for n in ast.walk(st))
                  and isinstance(st, ast.If) and "plan_registers" in unparse(st.test)]
        transformed = None
        for i, st in enumerate(body[:packed[0]] if packed else body):
            for n in ast.walk(st):
                if isinstance(n, ast.Assign) and isinstance(n.targets[0], ast.Subscript) and unparse(n.targets[0].value) == "input_data_array" \
                        and isinstance(n.value, ast.Call) and dotted(n.value.func) in ("_np.log", "np.log") \
                        and squash(n.value.args[0]) == squash(n.targets[0]):
                    rows = n.targets[0].slice.elts[0] if isinstance(n.targets[0].slice, ast.Tuple) else n.targets[0].slice
                    rv = assign_value(sc, unparse(rows)) if isinstance(rows, ast.Name) else rows
                    transformed = "logly_indexes" in unparse(rv) if rv is not None else None
        in_helpers = any("_np.log(" in unparse(h) for h in helpers)
        other_route = any(isinstance(n, ast.Call) and "log" in (dotted(n.func) or "").lower() and dotted(n.func) != "frame_ds.logarithmize"
                          and any("input_data_array" in unparse(a) for a in list(n.args) + [k.value for k in n.keywords])
                          for st in body for n in ast.walk(st))
        ok = True if (transformed or in_helpers) else (None if other_route else False)
        chk.ob("C07-R4", "fords.simulators._simulate_conditional[targets in logs]", ok,
               "input_data_array[logly rows] is log-transformed before the exogenized targets are read from it" if ok else
               "the exogenized targets are read from input_data_array, which is never log-transformed, while the state is in logs: an exogenized "
               "log-variable is driven to exp(target)", m.loc(sc))
        # the caller's array must not be modified in place (it is shared by all frames)
        copies = [st for st in body if isinstance(st, ast.Assign) and unparse(st.targets[0]) == "input_data_array" and isinstance(st.value, ast.Call)]
        if transformed:
            copied = any("copy" in unparse(st.value) for st in ast.walk(sc) if isinstance(st, ast.Assign) and unparse(st.targets[0]) == "input_data_array")
            chk.ob("C07-R4", "fords.simulators._simulate_conditional[shared input copied]", copied,
                   "the log transform is applied to a copy: the caller passes the same array to every frame", m.loc(sc))
    # ---- order of flattening incidence_v
    sites = {}
    for q, f in m.functions():
        for n in ast.walk(f):
            if isinstance(n, ast.Subscript):
                sl = n.slice.elts[0] if isinstance(n.slice, ast.Tuple) and n.slice.elts else n.slice
                t = squash(sl)
                if t == "incidence_v":
                    sites[f"{q}:{squash(n.value)}[incidence_v]"] = ("shock by shock (row-major)", n)
                elif t == "incidence_v.T":
                    base_t = isinstance(n.value, ast.Attribute) and n.value.attr == "T"
                    sites[f"{q}:{squash(n.value)}[incidence_v.T]"] = ("period by period" if base_t else "?", n)
            if isinstance(n, (ast.GeneratorExp, ast.ListComp, ast.For)):
                it = n.generators[0].iter if not isinstance(n, ast.For) else n.iter
                if isinstance(it, ast.Call) and dotted(it.func) == "zip":
                    for a in it.args:
                        if squash(a) == "incidence_v.T":
                            sites[f"{q}:zip(...,incidence_v.T)"] = ("period by period", n)
                        elif squash(a) == "incidence_v":
                            sites[f"{q}:zip(...,incidence_v)"] = ("shock by shock (row-major)", n)
    orders = {v[0] for v in sites.values()}
    if len(sites) < 3:
        chk.undecided("C07-R4", "fords.simulators[order of endogenized anticipated shocks]", f"only {len(sites)} flattening site(s) recognised: {sorted(sites)}", m.rel)
    else:
        major = max(orders, key=lambda o: sum(1 for v in sites.values() if v[0] == o))
        gen = [v[0] for k, v in sites.items() if k.startswith("_generate_R")]
        ref = gen[0] if gen else major
        for k, (o, n) in sorted(sites.items()):
            chk.saw(m, k.split(":")[0])
            chk.ob("C07-R4", f"fords.simulators.{k}[order]", (o == ref) if "?" not in (o, ref) else None,
                   f"enumerates the endogenized anticipated shocks {o}; the columns of R (_generate_R) are {ref}", m.loc(n))


def rule_r5(chk, rid="C07-R5"):
    chk.rule(rid, "the targets of exogenized points are the USER'S inputs: Inlay.simulate snapshots the variant's data (a copy) before the "
             "first call that may write into it (simulate_initial_guess, simulate_frame, write-back of frames), hands that snapshot to "
             "every frame as input_data_array, and never rebinds it inside the frame loop", floor=1, shape_independent=True)
    sm = chk.repo.mod("irispie.simultaneous._simulate")
    f = sm.func("Inlay.simulate")
    chk.saw(sm, "Inlay.simulate")
    from ..variants import variant_loops
    loops = variant_loops(f)
    if not loops:
        raise AnalysisError("anchor vanished: per-variant loop in Inlay.simulate")
    lp, conts = loops[0]
    dsv = next((v for c, v in conts.items() if "slate" in c or "slate" in v), None)
    snaps = [n for n in ast.walk(lp) if isinstance(n, ast.Assign) and isinstance(n.targets[0], ast.Name) and isinstance(n.value, ast.Call)
             and ".get_data_variant(" in squash(n.value)]
    passed = [k.value for c in ast.walk(lp) if isinstance(c, ast.Call) for k in c.keywords if k.arg == "input_data_array"]
    if not snaps or not passed or dsv is None:
        chk.undecided(rid, "simultaneous._simulate.Inlay.simulate[input snapshot]", "snapshot of the variant's data not recognised", sm.loc(lp))
        return
    snap = snaps[0]
    nm = snap.targets[0].id
    is_copy = squash(snap.value).endswith(".copy()")
    chk.ob(rid, "simultaneous._simulate.Inlay.simulate[snapshot is a copy]", is_copy, f"{unparse(snap)[:80]}", sm.loc(snap), sure=True)
    writers = [c for c in ast.walk(lp) if isinstance(c, ast.Call) and isinstance(c.func, ast.Attribute) and
               (c.func.attr in ("simulate_initial_guess", "simulate_frame", "write_frame_data_to_main_dataslate") or c.func.attr.startswith("simulate"))]
    early = [c for c in writers if c.lineno < snap.lineno]
    chk.ob(rid, "simultaneous._simulate.Inlay.simulate[snapshot precedes every writer]", not early,
           f"snapshot at line {snap.lineno}; first simulating call at line {min(c.lineno for c in writers) if writers else None}" if not early else
           f"{unparse(early[0].func)} (line {early[0].lineno}) runs before the snapshot (line {snap.lineno}): exogenized points are then restored from "
           "simulated values, not from the user's inputs", sm.loc(snap), sure=True)
    ok = all(isinstance(v, ast.Name) and v.id == nm for v in passed) and len([n for n in ast.walk(lp) if isinstance(n, ast.Assign) and unparse(n.targets[0]) == nm]) == 1
    chk.ob(rid, "simultaneous._simulate.Inlay.simulate[every frame gets the snapshot]", ok, f"input_data_array={[unparse(v) for v in passed]}", sm.loc(lp), sure=True)


def rule_r8(chk, rid="C07-R8"):
    chk.rule(rid, "the impact of anticipated shocks on the state in column t is the sum over the shock columns s = t .. S of R[s-t] v[s], with S the "
             "last column of the frame's window that holds an anticipated shock - whichever frame of a split simulation is running (frames "
             "that start after the base start included): _simulate_anticipated_shock_values evaluated finitely with symbolic R[k] and v[s]",
             floor=4, shape_independent=True)
    from .. import fin
    m = chk.repo.mod("irispie.fords.shock_simulators")
    f = m.func("_simulate_anticipated_shock_values")
    chk.saw(m, "_simulate_anticipated_shock_values")

    class _Terms(fin.FinObj):
        def __init__(self, items=()):
            super().__init__(items=frozenset(items))
        def __add__(self, o):
            return _Terms(self.items | o.items) if isinstance(o, _Terms) else self if o == 0 else NotImplemented
        __radd__ = __add__
    class _Sym(fin.FinObj):
        def __init__(self, kind, k):
            super().__init__(kind=kind, k=k)
        def __matmul__(self, o):
            if self.kind == "R" and isinstance(o, _Sym) and o.kind == "v":
                return _Terms([(self.k, o.k)])
            raise fin.NotFinite("product other than R[k] @ v[s]")
    class _Bools(fin.FinObj):
        def __init__(self, vals):
            super().__init__(vals=list(vals))
        def tolist(self):
            return list(self.vals)
    class _Shocks(fin.FinObj):
        def __init__(self, ncols, nonzero, cols=None):
            super().__init__(ncols=ncols, nonzero=set(nonzero), cols=cols)
        def __getitem__(self, key):
            if not (isinstance(key, tuple) and len(key) == 2 and key[0] == slice(None)):
                raise fin.NotFinite("shock array indexed other than [:, columns]")
            c = key[1]
            if isinstance(c, int) and not isinstance(c, bool):
                if not 0 <= c < self.ncols:
                    raise fin.Raised(f"column {c} outside the data")
                return _Sym("v", c)
            if isinstance(c, slice):
                c = range(*c.indices(self.ncols))
            return _Shocks(self.ncols, self.nonzero, cols=tuple(c))
    def np_any(x, axis=None):
        if isinstance(x, _Shocks) and x.cols is not None and axis == 0:
            return _Bools(c in x.nonzero for c in x.cols)
        raise fin.NotFinite("_np.any of something else")
    class _RList(list):
        pass
    cases = []
    # (number of periods, base columns, frame start column, simulation end column, columns with an anticipated shock)
    for ncols, base, fstart, simend, shocks in ((10, (1, 8), 1, 8, {5}), (10, (1, 8), 4, 8, {7}), (10, (1, 8), 4, 8, {5, 6}), (12, (2, 9), 5, 9, {9}),
                                                 (10, (1, 8), 3, 8, {1, 2}), (10, (1, 8), 6, 8, {6})):
        cases.append((ncols, base, fstart, simend, shocks))
    if chk.tier == "thorough":
        import itertools
        for fstart in range(1, 8):
            for simend in range(fstart, 9):
                for k in (1, 2):
                    for sh in itertools.combinations(range(1, 9), k):
                        cases.append((10, (1, 8), fstart, simend, set(sh)))
    n = 0
    for ncols, base, fstart, simend, shocks in cases:
        key = f"fords.shock_simulators._simulate_anticipated_shock_values[frame {fstart}..{simend} of base {base[0]}..{base[1]}, shocks at {sorted(shocks)}]"
        t0 = 100
        asked = []
        def expansion(solution, forward):
            asked.append(forward)
            return [_Sym("R", k) for k in range(forward + 1)]
        ds = fin.FinObj(num_periods=ncols, periods=list(range(t0, t0 + ncols)), base_columns=tuple(range(base[0], base[1] + 1)),
                        base_periods=list(range(t0 + base[0], t0 + base[1] + 1)), get_data_variant=lambda *a, **k: "data")
        frame = fin.FinObj(start=t0 + fstart, simulation_end=t0 + simend, end=t0 + simend, first=fstart, simulation_last=simend,
                           simulation_columns=tuple(range(fstart, simend + 1)))
        model = fin.FinObj(_get_dynamic_solution_vectors=lambda *a, **k: fin.FinObj(anticipated_shock_values=("e1", "e2")),
                           _gets_solution=lambda *a, **k: "solution")
        ps = params(f)
        try:
            impact = fin.run_function(f, {ps[0]: model, ps[1]: ds, ps[2]: frame, "get_solution_expansion": expansion},
                                      funcs={"extract_shock_values": lambda d, v: _Shocks(ncols, shocks), "_np.any": np_any})
        except (fin.NotFinite, fin.Raised, IndexError, TypeError) as ex:
            chk.undecided(rid, key, f"not finitely evaluable: {type(ex).__name__}: {ex}", m.loc(f))
            continue
        n += 1
        window = [c for c in range(fstart, simend + 1)]
        in_window = [c for c in shocks if fstart <= c <= simend]
        bad = None
        if in_window:
            S = max(in_window)
            for t in window:
                want = frozenset((s_ - t, s_) for s_ in range(t, S + 1))
                got = impact[t]
                got = got.items if isinstance(got, _Terms) else frozenset() if got in (0, None) else None
                if got != want:
                    bad = (f"impact in column {t} sums {sorted(got) if got is not None else impact[t]} as (k, s) pairs R[k] v[s]; "
                           f"expected s = {t}..{S} with k = s - {t}: {sorted(want)}")
                    break
        else:
            if any(x is not None and not (isinstance(x, _Terms) and not x.items) and x != 0 for x in impact):
                bad = "an impact is computed although no anticipated shock lies in the frame's window"
        chk.ob(rid, key, bad is None, bad or f"every column of the window gets the sum of R[s-t] v[s] up to the last shock column", m.loc(f), sure=True)


def run(chk):
    chk.guard(rule_r8, chk)
    chk.guard(rule_r1, chk)
    chk.guard(rule_r2, chk)
    chk.guard(rule_r3, chk)
    chk.guard(rule_r4, chk)
    chk.guard(rule_r5, chk)
    from .. import variants
    chk.guard(variants.apply, chk, "C07-R6", [("irispie.simultaneous._simulate", "Inlay.simulate")])
    from .. import unused as _unused
    chk.guard(_unused.apply, chk, "C07-R91")
    from . import c01 as _c01
    chk.guard(_c01.rule_r11, chk, rid="C07-R10")
    from .. import basis as _basis
    chk.guard(_basis.apply, chk, "C07-R9")
    from .. import endpoints as _endpoints
    chk.guard(_endpoints.apply, chk, "C07-R7", {"stacked_time", "fords", "dataslates", "frames", "plans", "simultaneous", "period_by_period"})
    from .. import args as _args
    chk.guard(_args.apply, chk, "C07-R90", {'fords', 'plans', 'stacked_time'}, 1)
    chk.assumptions = [
        "exact hitting of targets by the smoother-based first-order method and recovery of shocks are numerical: NOT decided",
        "kalmans.predict/smooth are correct (C03)",
    ]
